"""helpers shared by the rule modules"""
import ast

from engine.index import norm, walk_own, attr_chain, AnchorMissing, Undecided
from engine.cfg import cfg_of
from engine.cond import CondCtx, Lit, satisfiable, implies, negate
from engine.defuse import defuse_of, targets_of
from engine.fold import UNKNOWN, EnumVal


IDIOMS_NOTE = (
    " In addition the repository idiom rules run on the modules this property is anchored in: SerializableEnum members are compared by "
    "value, never with `is` (they are not singletons); no loop variable shadows a name that is still used after the loop; no unresolved "
    "name beyond the nine triaged sites of the pinned tree."
)


def calls_named(fi, name, own=True):
    """calls in fi whose callee text equals `name` or whose attribute / bare name is `name`"""
    out = []
    for n in walk_own(fi.node):
        if isinstance(n, ast.Call):
            f = n.func
            if norm(f) == name or (isinstance(f, ast.Attribute) and f.attr == name) or (isinstance(f, ast.Name) and f.id == name):
                out.append(n)
    return out


def package_calls(repo, name, modules=None):
    """[(fi, call)] over all package functions"""
    out = []
    for fi in repo.all_functions():
        if modules is not None and fi.module.name not in modules:
            continue
        for c in calls_named(fi, name):
            out.append((fi, c))
    return out


def rooted_at(expr, root="self"):
    while isinstance(expr, (ast.Attribute, ast.Subscript, ast.Call)):
        expr = expr.value if not isinstance(expr, ast.Call) else expr.func
    return isinstance(expr, ast.Name) and expr.id == root


def stmt_effects(stmt, root="self", allow_calls=("self.log.",)):
    """state effects of one simple statement on objects rooted at `root`:
    stores / augmented stores / deletes of root.<...> and calls root.<...>(...)"""
    out = []
    if isinstance(stmt, (ast.FunctionDef, ast.AsyncFunctionDef, ast.ClassDef)):
        return out
    for (t, v, how) in targets_of(stmt):
        if isinstance(t, (ast.Attribute, ast.Subscript)) and rooted_at(t, root):
            out.append(("store", norm(t), t))
    for n in ast.walk(stmt):
        if isinstance(n, ast.Call) and rooted_at(n.func, root) and not isinstance(n.func, ast.Name):
            text = norm(n.func)
            if any(text.startswith(a) for a in allow_calls):
                continue
            out.append(("call", text, n))
    return out


def node_lits(cfg, nid, cc):
    """literals that hold whenever cfg node nid is executed (edge-dominating tests)"""
    lits = []
    for (t, pol) in cfg.conditions_of(nid):
        lits += cc.literal(t, pol)
    return lits


def path_lits(cfg, path, cc):
    return cc.literals(cfg.path_tests(path))


def enum_lit(folder, repo, subject, cls_qual, members, positive=True):
    ci = repo.cls(cls_qual)
    vals = []
    for m in members:
        v = folder.class_attr(ci, m)
        if v is UNKNOWN:
            raise AnchorMissing("enum member %s.%s" % (cls_qual, m))
        vals.append(repr(v))
    return Lit("set", subject, frozenset(vals), positive, "%s in %s" % (subject, members))


def is_drop_only(stmts, allow_log=True):
    """handler body that only counts the drop / logs and returns a falsy constant (or nothing)"""
    for st in stmts:
        if isinstance(st, ast.AugAssign) and norm(st.target).endswith("stats.dropped"):
            continue
        if isinstance(st, ast.Return) and (st.value is None or (isinstance(st.value, ast.Constant) and not st.value.value)):
            continue
        if isinstance(st, ast.Pass):
            continue
        if allow_log and isinstance(st, ast.Expr) and isinstance(st.value, ast.Call) and \
                (".log." in norm(st.value.func) or norm(st.value.func).startswith(("mplogger.", "print"))):
            continue
        return False
    return True


def handler_catches(handler, names=("Exception", "BaseException")):
    if handler.type is None:
        return True
    if isinstance(handler.type, ast.Tuple):
        ts = [norm(e).split(".")[-1] for e in handler.type.elts]
    else:
        ts = [norm(handler.type).split(".")[-1]]
    return any(t in names for t in ts)


def enclosing_trys(node):
    """Try statements whose *body* contains node, innermost first"""
    out = []
    child = node
    p = getattr(node, "_parent", None)
    while p is not None and not isinstance(p, (ast.FunctionDef, ast.AsyncFunctionDef, ast.Lambda)):
        if isinstance(p, ast.Try) and any(child is s for s in p.body):
            out.append(p)
        child = p
        p = getattr(p, "_parent", None)
    return out


def contained(node, names=("Exception", "BaseException")):
    """is `node` inside the body of a try whose handler catches Exception and does not
    re-raise (bare `raise` / raise of the caught name as the last action)?"""
    for t in enclosing_trys(node):
        for h in t.handlers:
            if handler_catches(h, names):
                if any(isinstance(s, ast.Raise) for s in ast.walk(h)):
                    continue
                return True
    return False


def slice_bounds(expr):
    """datagram[a:b] -> (base_text, lower_ast|None, upper_ast|None) or None"""
    if isinstance(expr, ast.Subscript) and isinstance(expr.slice, ast.Slice) and expr.slice.step is None:
        return norm(expr.value), expr.slice.lower, expr.slice.upper
    return None


def single_def_value(fi, name, at_call):
    """the unique reaching definition value (ast) of local `name` at the cfg node of `at_call`"""
    du = defuse_of(fi)
    node = du.cfg.node_of(at_call)
    if node is None:
        return None
    defs = du.reaching(name, node.id)
    vals = [d for d in defs]
    if len(vals) != 1 or vals[0][0] == "ENTRY":
        return None
    return vals[0][1]


def known_absent(fi, cfg, cc, at, key, container):
    """True when every execution of the cfg node of `at` has `key not in container`: either the membership test itself
    edge-dominates the node, or a local bound once to `container.get(key[, None])` is tested `is None` / falsy"""
    node = cfg.node_of(at)
    for (t, pol) in cfg.conditions_of(node.id):
        for l in cc.literal(t, pol):
            if l.kind == "atom" and l.subject == "%s in %s" % (key, container) and not l.positive:
                return True
            name = None
            if l.kind == "set" and l.values == frozenset([repr(None)]) and l.positive:
                name = l.subject
            elif l.kind == "truth" and not l.positive:
                name = l.subject
            if name and name.isidentifier():
                v = single_def_value(fi, name, t)
                if isinstance(v, ast.Call) and isinstance(v.func, ast.Attribute) and v.func.attr == "get" and norm(v.func.value) == container \
                        and v.args and norm(v.args[0]) == key and (len(v.args) == 1 or (isinstance(v.args[1], ast.Constant) and v.args[1].value is None)) \
                        and not v.keywords:
                    # (the fact was established at the test: the name may be rebound afterwards, for example to the fresh object
                    # that is then stored under the key)
                    return True
    return False


def resolve_arg(fi, arg, at_call):
    """follow a Name argument to its unique defining expression (else the expr itself)"""
    seen = 0
    while isinstance(arg, ast.Name) and seen < 5:
        v = single_def_value(fi, arg.id, at_call)
        if v is None or not isinstance(v, ast.AST):
            return arg
        arg = v
        seen += 1
    return arg


def fold_int(ctx, fi, expr):
    v = ctx.folder.fold(expr, fi.module, cls=fi.cls)
    if isinstance(v, bool) or not isinstance(v, int):
        return None
    return v


def enum_identity(ctx, rule, modules):
    """SerializableEnum members are ordinary instances with a value-based __eq__, not singletons: PacketType(x),
    RetryMode(x) and deserialisation create fresh objects. An identity test (`is` / `is not`) against a member is
    therefore false for equal values that were constructed - the guarded branch silently stops being taken."""
    n = 0
    bad = []
    for fi in ctx.repo.all_functions():
        if fi.module.name not in modules:
            continue
        for c in walk_own(fi.node):
            if isinstance(c, ast.Compare) and any(isinstance(o, (ast.Is, ast.IsNot)) for o in c.ops):
                for side in [c.left] + c.comparators:
                    v = ctx.folder.fold(side, fi.module, cls=fi.cls)
                    if isinstance(v, EnumVal):
                        bad.append((fi, c, v))
            elif isinstance(c, ast.Compare):
                n += 1
    for (fi, c, v) in bad:
        ctx.violated(rule, fi, c, "identity comparison with the enum member %r: equal values built by %s(x) are different objects, the test is false for them" % (v, v.cls_qual.split(":")[-1]),
                     witness={"member": repr(v), "use": "== / != / in"}, line=c.lineno)
    if not bad:
        ctx.holds(rule, "%s:*" % ",".join(modules), "enum members are compared by value (no `is` / `is not`) in %s" % ", ".join(modules), "%d comparisons inspected" % n)


def bound_by(fi, name, at_node, def_stmt):
    """every reaching definition of `name` at the cfg node that evaluates `at_node` is the statement `def_stmt`"""
    du = defuse_of(fi)
    node = du.cfg.node_of(at_node)
    target = du.cfg.node_of(def_stmt)
    if node is None or target is None:
        return False
    defs = du.reaching(name, node.id)
    return bool(defs) and all(d[0] == target.id for d in defs)


def _first_evaluated(n):
    """the expression an If / While statement evaluates first (the left-most leaf of its test)"""
    if isinstance(n, (ast.If, ast.While)):
        n = n.test
        while True:
            if isinstance(n, ast.BoolOp):
                n = n.values[0]
            elif isinstance(n, ast.UnaryOp) and isinstance(n.op, ast.Not):
                n = n.operand
            else:
                return n
    if isinstance(n, ast.For):
        return n.iter
    return n


def before(fi, a, b):
    """`a` is evaluated before `b` on every path that reaches `b`: the cfg node of `a` dominates that of `b`
    (document order inside one cfg node).  Replaces comparisons of line numbers, which say nothing about paths and are
    shared by statements that the translation inlined from one helper."""
    cfg = cfg_of(fi)
    a, b = _first_evaluated(a), _first_evaluated(b)
    na, nb = cfg.node_of(a), cfg.node_of(b)
    if na is None or nb is None:
        return False
    if na.id != nb.id:
        return cfg.dominates(na.id, nb.id)
    order = getattr(fi, "_doc_order", None)
    if order is None or order[0] is not fi.node:
        seq = {}

        def rec(n):
            seq[id(n)] = len(seq)
            for c in ast.iter_child_nodes(n):
                rec(c)
        rec(fi.node)
        order = (fi.node, seq)
        try:
            fi._doc_order = order
        except AttributeError:
            pass
    return order[1].get(id(a), -1) < order[1].get(id(b), -1)


def is_snapshot_of(expr, container):
    """the expression is a copy of the container's keys made before the loop starts: list(c), tuple(c), sorted(c), the same over
    c.keys(), or c.copy() - iterating it is unaffected by entries added or removed meanwhile"""
    t = norm(expr)
    forms = ["%s(%s)" % (f, container) for f in ("list", "tuple", "sorted", "set", "frozenset")] + \
            ["%s(%s.keys())" % (f, container) for f in ("list", "tuple", "sorted")] + ["%s.copy()" % container, "list(%s.copy())" % container]
    return t in forms


def loop_shadowing(ctx, rule, modules):
    """A name that is used after a `for` loop and whose reaching definitions there include both the loop's own target and
    another binding (an earlier assignment or a parameter) has been shadowed by accident: after at least one iteration it holds
    the last loop item, after zero iterations the earlier value. The pinned tree has no such use (0 sites)."""
    hits = []
    n_loops = 0
    for fi in ctx.repo.all_functions():
        if fi.module.name not in modules or fi.is_lambda:
            continue
        try:
            du = defuse_of(fi)
        except Undecided:
            continue
        cfg = du.cfg
        for n in cfg.nodes:
            if n.kind != "for":
                continue
            n_loops += 1
            for t in [x.id for x in ast.walk(n.ast.target) if isinstance(x, ast.Name)]:
                others = [d for d in du.defs.get(t, []) if d[0] != n.id]
                if not others and t not in fi.params:
                    continue
                for u in walk_own(fi.node):
                    if isinstance(u, ast.Name) and u.id == t and isinstance(u.ctx, ast.Load):
                        p = u
                        inside = False
                        while p is not fi.node:
                            p = p._parent
                            if p is n.ast:
                                inside = True
                        if inside:
                            continue
                        un = cfg.node_of(u)
                        if un is None:
                            continue
                        ids = {d[0] for d in du.reaching(t, un.id)}
                        if n.id in ids and (len(ids) > 1 or t in fi.params):
                            hits.append((fi, n, t, u))
                            break
    for (fi, n, t, u) in hits:
        ctx.violated(rule, fi, "for %s in %s" % (norm(n.ast.target), norm(n.ast.iter)[:50]),
                     "the loop variable `%s` overwrites a value that is still used after the loop (line %d): the later use silently refers to the last loop item" % (t, u.lineno),
                     witness={"name": t, "use_after_loop_line": u.lineno}, line=n.lineno)
    if not hits:
        ctx.holds(rule, "%s:*" % ",".join(modules), "no loop variable shadows a name that is live after the loop in %s" % ", ".join(modules), "%d loops inspected" % n_loops)


# unresolved names that exist on the pinned tree, each read and triaged (DESIGN.md section 0): none of them changes a behaviour
# a property states; a *new* unresolved name in a property's modules is a NameError waiting on some path.
KNOWN_UNRESOLVED = {
    ("auth:Auth.__init__", "RunTimeError"): "Auth cannot be instantiated anyway: raising NameError instead of RuntimeError still refuses",
    ("connection:ServerClientConnection._recvChallengeResponse", "client"): "else-branch after a failed validation: the NameError still does not promote (contained by the server loop)",
    ("crypto:EllipticCurvePublicKey.getEncryptionKey", "hashlib"): "unused helper, no property anchored",
    ("crypto:EllipticCurvePublicKey.savePEM", "self"): "unused static helper, no property anchored",
    ("http_server:upgrade_websocket", "logging"): "error path of the websocket upgrade, no property anchored",
    ("http_server:RequestFactory.process", "url"): "error path of request processing, no property anchored",
    ("http_server:RequestFactory.process", "logging"): "error path of request processing, no property anchored",
    ("http_server:HTTPServer.run", "ssl"): "TLS start-up path, no property anchored",
    ("serializable:serialize_string", "length"): "error message of the over-long string refusal: the refusal still raises (NameError instead of ValueError text)",
}


def new_unresolved_names(ctx, rule, modules):
    from engine.names import unresolved_names
    n = 0
    bad = []
    for fi in ctx.repo.all_functions():
        if fi.module.name not in modules:
            continue
        n += 1
        seen = set()
        for (name, line, node) in unresolved_names(fi):
            if (fi.qual, name) in KNOWN_UNRESOLVED or name in seen:
                continue
            seen.add(name)
            bad.append((fi, name, line))
    for (fi, name, line) in bad:
        ctx.violated(rule, fi, "unresolved name `%s`" % name, "the name resolves to no local, enclosing, module-level or builtin binding: NameError when this path runs",
                     witness={"name": name}, line=line)
    if not bad:
        ctx.holds(rule, "%s:*" % ",".join(modules), "no unresolved name beyond the triaged list in %s" % ", ".join(modules), "%d functions inspected" % n)


def repo_idioms(ctx, rule, modules):
    """repository-wide idiom rules evaluated on the modules a property is anchored in"""
    enum_identity(ctx, rule, modules)
    loop_shadowing(ctx, rule, modules)
    new_unresolved_names(ctx, rule, modules)


def thin_wrapper(ctx, rule, qual, lib_call_suffix, arg_map, returns=True, kw_names=None):
    """a crypto wrapper must hand its arguments to the library primitive unchanged and let the primitive's verdict through:
    one library call `<...>.<suffix>(args)` with the arguments in the mapped order, returned directly (or called as the last
    statement), and no exception handler around it that does not re-raise"""
    fi = ctx.fn(qual)
    calls = [c for c in walk_own(fi.node) if isinstance(c, ast.Call) and isinstance(c.func, ast.Attribute) and c.func.attr == lib_call_suffix]
    if not ctx.require(rule, fi, "library call .%s(...) in %s" % (lib_call_suffix, fi.name), len(calls), 1):
        return
    c = calls[0]
    want = [fi.params[i] for i in arg_map]
    got = [norm(a) for a in c.args[:len(want)]]
    if kw_names and c.keywords and not any(k.arg is None for k in c.keywords) and not any(isinstance(a, ast.Starred) for a in c.args):
        # the primitive's own parameter names, as the library documents them: same binding as by position
        byname = {k.arg: norm(k.value) for k in c.keywords}
        if set(byname) <= set(kw_names[len(c.args):]):
            got = got + [byname.get(nm, "<missing %s>" % nm) for nm in kw_names[len(c.args):len(want)]]
    ctx.check(got == want, rule, fi, "%s passes %s to .%s in that order" % (fi.name, want, lib_call_suffix), witness=got, line=c.lineno)
    # verdict passes through: no swallowing handler
    swallowed = []
    for t in enclosing_trys(c):
        for h in t.handlers:
            if not any(isinstance(x, ast.Raise) for x in ast.walk(h)):
                swallowed.append(norm(h.type) if h.type is not None else "<bare>")
    ctx.check(not swallowed, rule, fi, "%s lets the primitive's exception through" % fi.name,
              "a handler that does not re-raise turns 'not authentic' into a normal return", witness=swallowed, line=c.lineno)
    if returns:
        p = c._parent
        ok = isinstance(p, ast.Return) and p.value is c
        rets = [r for r in walk_own(fi.node) if isinstance(r, ast.Return)]
        ctx.check(ok and len(rets) == 1, rule, fi, "%s returns the primitive's result and nothing else" % fi.name, witness=[norm(r)[:60] for r in rets], line=c.lineno)
    else:
        rets = [r for r in walk_own(fi.node) if isinstance(r, ast.Return) and r.value is not None]
        ctx.check(not rets, rule, fi, "%s returns nothing (the verdict is the exception)" % fi.name, witness=[norm(r)[:60] for r in rets])
    conds = cfg_of(fi).conditions_of(cfg_of(fi).node_of(c).id)
    ctx.check(not conds, rule, fi, "the primitive is called unconditionally in %s" % fi.name, witness=[norm(t) for t, p in conds])


# ---------------------------------------------------------------------------------------------------------------------
# straight-line symbolic evaluation of small builder functions

class _Subst(ast.NodeTransformer):
    def __init__(self, env):
        self.env = env

    def generic_visit(self, node):
        if isinstance(node, (ast.Name, ast.Attribute, ast.Subscript)) and isinstance(getattr(node, "ctx", None), ast.Load):
            k = ast.unparse(node)
            if k in self.env:
                return ast.parse(self.env[k], mode="eval").body
        return super().generic_visit(node)


def sym_paths(fi, limit=64):
    """[(conditions, env, returned)] for every acyclic path of a loop-free function made of assignments, expression
    statements, if / raise / return; env maps the text of each assigned target to the text of its value with earlier
    assignments substituted (so two spellings of the same computation get the same text).  None when the function uses a
    statement kind outside that fragment."""
    out = []

    def ev(expr, env):
        clone = ast.parse(ast.unparse(expr), mode="eval").body
        new = _Subst(env).visit(clone)
        return ast.unparse(new)

    class Unsupported(Exception):
        pass

    def run(stmts, env, conds):
        """yields (env, conds, returned|None, finished)"""
        if not stmts:
            yield env, conds, None, False
            return
        st, rest = stmts[0], stmts[1:]
        if isinstance(st, ast.Assign) and len(st.targets) == 1 and isinstance(st.targets[0], (ast.Name, ast.Attribute, ast.Subscript)):
            v = ev(st.value, env)
            env = dict(env)
            k = ast.unparse(st.targets[0])
            for old in [x for x in env if x.startswith(k + ".") or x.startswith(k + "[")]:
                del env[old]
            env[k] = v
            yield from run(rest, env, conds)
        elif isinstance(st, ast.Assign) and len(st.targets) == 1 and isinstance(st.targets[0], ast.Tuple) \
                and all(isinstance(t, (ast.Name, ast.Attribute, ast.Subscript)) for t in st.targets[0].elts):
            # a, b = E : the elements of E (of a tuple display directly), evaluated before any target is bound
            if isinstance(st.value, ast.Tuple) and len(st.value.elts) == len(st.targets[0].elts):
                vals = [ev(e_, env) for e_ in st.value.elts]
            else:
                whole = ev(st.value, env)
                vals = ["(%s)[%d]" % (whole, i) for i in range(len(st.targets[0].elts))]
            env = dict(env)
            for t, v in zip(st.targets[0].elts, vals):
                k = ast.unparse(t)
                for old in [x for x in env if x.startswith(k + ".") or x.startswith(k + "[")]:
                    del env[old]
                env[k] = ast.unparse(ast.parse(v, mode="eval").body)
            yield from run(rest, env, conds)
        elif isinstance(st, ast.Assign) and len(st.targets) > 1 and all(isinstance(t, (ast.Name, ast.Attribute, ast.Subscript)) for t in st.targets):
            v = ev(st.value, env)
            env = dict(env)
            for t in st.targets:
                env[ast.unparse(t)] = v
            yield from run(rest, env, conds)
        elif isinstance(st, ast.AugAssign) and isinstance(st.target, (ast.Name, ast.Attribute, ast.Subscript)):
            k = ast.unparse(st.target)
            cur = env.get(k, k)
            sym = {ast.Add: "+", ast.Sub: "-", ast.Mult: "*", ast.BitOr: "|", ast.BitAnd: "&", ast.LShift: "<<", ast.RShift: ">>", ast.FloorDiv: "//", ast.Mod: "%"}.get(type(st.op))
            if sym is None:
                raise Unsupported("AugAssign")
            v = ast.unparse(ast.parse("(%s) %s (%s)" % (cur, sym, ev(st.value, env)), mode="eval").body)
            env = dict(env)
            env[k] = v
            yield from run(rest, env, conds)
        elif isinstance(st, ast.AnnAssign) and st.value is not None and isinstance(st.target, ast.Name):
            env = dict(env)
            env[st.target.id] = ev(st.value, env)
            yield from run(rest, env, conds)
        elif isinstance(st, ast.Expr):
            if isinstance(st.value, ast.Constant):
                yield from run(rest, env, conds)
            else:
                env = dict(env)
                env.setdefault("#effects", "")
                env["#effects"] = env["#effects"] + ev(st.value, env) + ";"
                yield from run(rest, env, conds)
        elif isinstance(st, ast.Return):
            yield env, conds, (ev(st.value, env) if st.value is not None else "None"), True
        elif isinstance(st, ast.Raise):
            yield env, conds, "#raise " + (ev(st.exc, env) if st.exc is not None else ""), True
        elif isinstance(st, ast.If):
            t = ev(st.test, env)
            for (e2, c2, r2, fin) in run(st.body, env, conds + [(t, True)]):
                if fin:
                    yield e2, c2, r2, True
                else:
                    yield from run(rest, e2, c2)
            for (e2, c2, r2, fin) in run(st.orelse, env, conds + [(t, False)]):
                if fin:
                    yield e2, c2, r2, True
                else:
                    yield from run(rest, e2, c2)
        elif isinstance(st, ast.Pass):
            yield from run(rest, env, conds)
        elif isinstance(st, (ast.Import, ast.ImportFrom)):
            yield from run(rest, env, conds)
        else:
            raise Unsupported(type(st).__name__)

    try:
        for (env, conds, ret, fin) in run(list(fi.node.body), {}, []):
            out.append((conds, env, ret if fin else "None"))
            if len(out) > limit:
                return None
    except Unsupported:
        return None
    return out


def leaf_cut(cfg, classify):
    """{test node id: label} for the leaf tests that classify(text) maps to 'T' or 'F' (the out-edge to remove); a negated leaf
    (`not x`) is owned by the CFG as its operand with the edges exchanged, so texts are those of the un-negated leaves"""
    cut = {}
    for n in cfg.nodes:
        if n.kind == "test" and n.ast is not None:
            lab = classify(norm(n.ast))
            if lab in ("T", "F"):
                cut[n.id] = lab
    return cut


def reach_without(cfg, src, cut):
    return cfg.reachable(src, edge_ok=lambda a, b_, label: not (a.id in cut and label == cut[a.id]))


def sym_expr(fi, expr, at, depth=6, allow_calls=(), keep=(), trace=None):
    """`expr` with the local names it reads replaced by their definitions, where that is a faithful description of the value at
    cfg node `at`: the name has exactly one reaching definition, the defining expression contains no call, and - for values
    that read attributes - no statement of the function stores one of those attributes on a path from the definition to `at`.
    Two spellings of one computation through temporaries get the same text; a name bound to a call result (t0 = self.clock())
    stays a name."""
    du = defuse_of(fi)
    cfg = du.cfg
    at_id = at.id if hasattr(at, "id") else at
    call_ok = allow_calls if callable(allow_calls) else (lambda t: t in allow_calls)

    def attr_stores():
        out = []
        for n in cfg.nodes:
            if n.ast is None or n.kind not in ("stmt", "for", "with"):
                continue
            for x in ast.walk(n.ast):
                if isinstance(x, ast.Attribute) and isinstance(x.ctx, (ast.Store, ast.Del)):
                    out.append((n.id, x.attr))
        return out
    stores = None

    def clobbered(def_id, value):
        nonlocal stores
        attrs = {x.attr for x in ast.walk(value) if isinstance(x, ast.Attribute)}
        if not attrs:
            return False
        if stores is None:
            stores = attr_stores()
        from_def = cfg.reachable(def_id)
        for (sid, a) in stores:
            if a in attrs and sid in from_def and sid != def_id and at_id in cfg.reachable(sid):
                return True
        return False

    def cond_texts(nid):
        out = set()
        for (t, p) in cfg.conditions_of(nid):
            tn = cfg.node_of(t)
            # the test read through single-definition temporaries (a flag such as `found = k in table` becomes its definition)
            e2 = rec(t, tn.id, 2) if tn is not None else t
            txt = ast.unparse(e2)
            # only tests over names that are bound once in the function keep their value between two evaluations
            names = {x.id for x in ast.walk(e2) if isinstance(x, ast.Name)}
            if all(len(du.defs.get(nm, [])) <= 1 for nm in names):
                out.add((txt, p))
        return out

    def feasible(defs, node_id):
        """reaching definitions minus those made under a condition that contradicts the conditions of the use"""
        if len(defs) < 2:
            return defs
        use = cond_texts(node_id)
        keep_ = []
        for d_ in defs:
            if d_[0] == "ENTRY":
                keep_.append(d_)
                continue
            dc = cond_texts(d_[0])
            if any((t, not p) in use for (t, p) in dc):
                continue
            keep_.append(d_)
        return keep_

    def rec(e, node_id, d):
        if isinstance(e, ast.Name) and isinstance(e.ctx, ast.Load) and d > 0 and e.id not in keep:
            defs = du.reaching(e.id, node_id)
            if len(defs) > 1 and d > 2:
                defs = feasible(defs, node_id)
            if len(defs) == 1 and defs[0][0] != "ENTRY" and isinstance(defs[0][1], ast.AST) and defs[0][2] in ("assign", "annassign", "walrus"):
                v = defs[0][1]
                # (a list / dict / set display is an object that is mutated later, not a value)
                if not any(isinstance(x, (ast.Await, ast.Yield, ast.YieldFrom, ast.NamedExpr, ast.Lambda, ast.List, ast.Dict, ast.Set, ast.ListComp, ast.DictComp,
                                          ast.SetComp, ast.GeneratorExp)) or
                           (isinstance(x, ast.Call) and not call_ok(norm(x.func))) for x in ast.walk(v)) \
                        and isinstance(v, ast.expr) and not clobbered(defs[0][0], v):
                    if trace is not None:
                        trace[e.id] = defs[0][0]
                    return rec(v, defs[0][0], d - 1)
            return e
        if isinstance(e, ast.AST):
            new = type(e)()
            for f, val in ast.iter_fields(e):
                if isinstance(val, list):
                    setattr(new, f, [rec(x, node_id, d) if isinstance(x, ast.AST) else x for x in val])
                elif isinstance(val, ast.AST):
                    setattr(new, f, rec(val, node_id, d))
                else:
                    setattr(new, f, val)
            return new
        return e
    out = rec(expr, at_id, depth)
    ast.fix_missing_locations(out) if hasattr(out, "lineno") or True else None
    try:
        return ast.parse(ast.unparse(out), mode="eval").body
    except Exception:
        return expr


def sym_text(fi, expr, at, depth=6, allow_calls=()):
    return ast.unparse(sym_expr(fi, expr, at, depth, allow_calls=allow_calls))


def flat_slice(ctx, fi, expr, at):
    """the byte range of `expr` inside the buffer it is ultimately cut from: follows names to their single definition and
    composes nested slices with constant bounds.  -> (base text, lo, hi | None, symbolic upper text | None) or None.
    datagram[:20][:12], aad[:12] with aad = datagram[:20], and datagram[:12] are all ('datagram', 0, 12, None)."""
    e = resolve_arg(fi, expr, at) if isinstance(expr, ast.Name) else expr
    if isinstance(e, ast.Name):
        return (e.id, 0, None, None)
    sb = slice_bounds(e) if isinstance(e, ast.Subscript) else None
    if sb is None:
        return None
    inner = flat_slice(ctx, fi, e.value, at)
    if inner is None:
        return None
    base, ilo, ihi, isym = inner
    lo = fold_int(ctx, fi, sb[1]) if sb[1] is not None else 0
    if lo is None or lo < 0:
        return None
    hi = None
    sym = None
    if sb[2] is not None:
        hi = fold_int(ctx, fi, sb[2])
        if hi is None:
            if isym is not None or ihi is not None:
                return None
            sym = norm(sym_expr(fi, sb[2], defuse_of(fi).cfg.node_of(at))) if at is not None else norm(sb[2])
        elif hi < 0:
            return None
    nlo = ilo + lo
    if hi is not None:
        nhi = ilo + hi
        if ihi is not None:
            nhi = min(nhi, ihi)
        return (base, min(nlo, nhi), nhi, None)
    if sym is not None:
        return (base, nlo, None, sym) if ilo == 0 else None
    return (base, nlo if ihi is None else min(nlo, ihi), ihi, isym)


def lin_form(ctx, fi, expr, at):
    """canonical linear form of an integer expression at cfg node `at`: (constant, ((term text, coefficient), ...)) with local
    temporaries replaced by their values (sym_expr), constants folded and +, -, unary minus and multiplication by a constant
    distributed; anything else is an opaque term.  None when a part does not reduce."""
    node = defuse_of(fi).cfg.node_of(at) if not hasattr(at, "id") and not isinstance(at, int) else at
    e = sym_expr(fi, expr, node) if node is not None else expr

    def rec(x):
        v = fold_int(ctx, fi, x)
        if v is not None:
            return (v, {})
        if isinstance(x, ast.BinOp) and isinstance(x.op, (ast.Add, ast.Sub)):
            a, b = rec(x.left), rec(x.right)
            sgn = 1 if isinstance(x.op, ast.Add) else -1
            terms = dict(a[1])
            for k, c in b[1].items():
                terms[k] = terms.get(k, 0) + sgn * c
            return (a[0] + sgn * b[0], terms)
        if isinstance(x, ast.UnaryOp) and isinstance(x.op, ast.USub):
            a = rec(x.operand)
            return (-a[0], {k: -c for k, c in a[1].items()})
        if isinstance(x, ast.BinOp) and isinstance(x.op, ast.Mult):
            for (p_, q_) in ((x.left, x.right), (x.right, x.left)):
                c = fold_int(ctx, fi, p_)
                if c is not None:
                    a = rec(q_)
                    return (c * a[0], {k: c * v_ for k, v_ in a[1].items()})
        return (0, {norm(x): 1})
    c, terms = rec(e)
    return (c, tuple(sorted((k, v) for k, v in terms.items() if v != 0)))


def node_lits_sym(fi, cfg, nid, cc):
    """node_lits with every test read through the temporaries it mentions (sym_expr at the test's own node): `k = d['x']; if k is
    None:` yields the literal on d['x']"""
    lits = []
    for (t, pol) in cfg.conditions_of(nid):
        tn = cfg.node_of(t)
        e = sym_expr(fi, t, tn) if tn is not None else t
        lits += cc.literal(e, pol)
    return lits


def slot_of(fi, expr, at):
    """the dictionary slot `D[K]` an expression denotes at the cfg node of `at`:
       D[K] itself;  a name all of whose reaching definitions are either `D.get(K[, None])` (on the paths where it was not None)
       or a value that the function stores into D[K] (`D[K] = name`) before `at` on every path from that definition.
    -> text 'D[K]' or None"""
    if isinstance(expr, ast.Subscript) and not isinstance(expr.slice, ast.Slice):
        return norm(expr)
    if not isinstance(expr, ast.Name):
        return None
    du = defuse_of(fi)
    cfg = du.cfg
    node = cfg.node_of(at)
    if node is None:
        return None
    slots = set()
    for (nid, v, how) in du.reaching(expr.id, node.id):
        if nid == "ENTRY" or not isinstance(v, ast.AST):
            return None
        if isinstance(v, ast.Subscript) and not isinstance(v.slice, ast.Slice):
            slots.add(norm(v))
            continue
        if isinstance(v, ast.Call) and isinstance(v.func, ast.Attribute) and v.func.attr == "get" and v.args and not v.keywords \
                and (len(v.args) == 1 or (isinstance(v.args[1], ast.Constant) and v.args[1].value is None)):
            slots.add("%s[%s]" % (norm(v.func.value), norm(v.args[0])))
            continue
        # some other value: it must be put into the slot on the way
        stores = [n for n in cfg.stmts((ast.Assign,)) if len(n.ast.targets) == 1 and isinstance(n.ast.targets[0], ast.Subscript)
                  and isinstance(n.ast.value, ast.Name) and n.ast.value.id == expr.id]
        ok = False
        for st in stores:
            if cfg.must_pass(nid, node.id, {st.id}) if hasattr(cfg, "must_pass") else False:
                slots.add(norm(st.ast.targets[0]))
                ok = True
        if not ok:
            return None
    return slots.pop() if len(slots) == 1 else None
