"""C09 - wire codec round-trips; datagrams respect the MTU; packing never fails."""
import ast

from engine.index import norm, walk_own, Undecided
from engine.cfg import cfg_of
from engine.defuse import defuse_of
from engine.embedded import struct_sites, fmt_fields, fmt_size, INT_RANGE
from engine.names import possibly_unbound, unresolved_names
from engine.fold import UNKNOWN, EnumVal
from .common import calls_named, package_calls, fold_int, contained, slice_bounds
from .capacity import capacity, MTUS
from .c05 import sweep
from .c02 import _Sub
from . import c01, c05

EXPLANATION = (
    "Static writer/reader agreement and capacity arithmetic. Decides: (R1) header pack/unpack formats, field order and sizes "
    "agree; Packet.create sets length/count from the payload it built and from_bytes slices/loops by exactly those fields; (R2) "
    "single-message and multi-message framing use the same formats, slice offsets and advance on both sides, Packet.overhead and "
    "the class constants equal the real format sizes, total_size equals what to_bytes produces, decode guards refuse only remainders "
    "shorter than what the writer always emits; (R3) for every MTU 512..1500 the real encoded size of every admissible message list "
    "is at most (and the accounting exactly reaches) MTU-28: the size accounting of both packing loops is interpreted as linear "
    "forms over (payload length, message count, admitted bytes), its closed form is derived by induction and compared with payload "
    "+ overhead(n+1); Packet.setMTU reproduces the class-body defaults at 1500; (R4) the number of messages a datagram can admit fits the one-byte count field (or an explicit count guard caps it), "
    "payload lengths fit their 16-bit fields, packet type values fit one byte, sequence numbers and the 32-bit bitmap fit their "
    "fields; (R5) packing removes a message from its queue only where it is added to the packet (shared with C05.R5); (R6) the "
    "server send paths have no possibly-unbound local and contain encoding and socket errors per datagram. Does not decide "
    "value-level round trips (they follow from R1/R2 under struct semantics)."
)
ASSUMPTIONS = ["struct.pack/unpack are mutually inverse for a given format", "len() of bytes objects is exact"]

FB = "connection:Packet.from_bytes"
CR = "connection:Packet.create"


def r1(ctx):
    tb, fb, packs, pack_attrs, u, unpack_attrs = c01._header_formats(ctx)
    fields_p = sum((fmt_fields(s.fmt)[1] for s in packs), [])
    fields_u = fmt_fields(u.fmt)[1]
    ctx.check(fields_p == fields_u, "C09.R1", tb, "header pack formats == unpack format", witness={"pack": [s.fmt for s in packs], "unpack": u.fmt})
    ctx.check(pack_attrs == unpack_attrs, "C09.R1", fb, "header fields in the same order", witness={"pack": pack_attrs, "unpack": unpack_attrs})
    PH = ctx.repo.cls("connection:PacketHeader")
    SIZE = ctx.folder.class_attr(PH, "SIZE")
    ctx.check(sum(fmt_size(s.fmt) for s in packs) == SIZE == fmt_size(u.fmt), "C09.R1", tb, "header size == PacketHeader.SIZE on both sides",
              witness={"pack": sum(fmt_size(s.fmt) for s in packs), "unpack": fmt_size(u.fmt), "SIZE": SIZE})
    # value conversions are inverse:  pkt_type.value <-> PacketType(x); SeqNum(x) <-> int; ident by isServer
    # (by value: what each attribute finally holds, in terms of the unpacked wire value of its own field)
    dv = c01.decoded_header_values(ctx)
    shapes = {"pkt_type": ("PacketType(%s)",), "seq": ("SeqNum(%s)",), "ack": ("SeqNum(%s)",), "ack_bits": ("%s",), "ctime": ("%s",),
              "isServer": ("%s == PacketIdentifier.TO_SERVER.value", "PacketIdentifier.TO_SERVER.value == %s")}
    okv = all(dv.get(k, (None, None))[1] is not None and dv[k][0] in tuple(x % dv[k][1] for x in shapes[k]) for k in shapes)
    ctx.check(okv, "C09.R1", fb, "decoded header values are the wire values (type and sequence wrappers only)",
              witness={k: dv.get(k, (None, None))[0] for k in shapes})
    # TO_SERVER identifier means "to the server": a header decoded with isServer == True came from a client (isServer False when packed)
    sel = [n for n in walk_own(tb.node) if isinstance(n, ast.IfExp)]
    ctx.check(len(sel) == 1 and norm(sel[0]) == "PacketIdentifier.TO_CLIENT if self.isServer else PacketIdentifier.TO_SERVER", "C09.R1", tb, "direction identifier by isServer", witness=[norm(s) for s in sel])
    cr = ctx.fn(CR)
    from .common import sym_text
    ccfg = cfg_of(cr)
    sets = {norm(n.targets[0]): sym_text(cr, n.value, ccfg.node_of(n), allow_calls=("len",)) if ccfg.node_of(n) is not None else norm(n.value)
            for n in walk_own(cr.node) if isinstance(n, ast.Assign) and isinstance(n.targets[0], ast.Attribute)}
    # (the local that holds the encoded message area may have any name: the length is the length of what is stored as pkt.msg)
    area = sets.get("pkt.msg")
    ctx.check(isinstance(area, str) and area.isidentifier() and area not in cr.params and sets.get("hdr.length") == "len(%s)" % area
              and sets.get("hdr.count") == "len(%s)" % cr.params[1]
              and sets.get("pkt.hdr") == cr.params[0], "C09.R1", cr, "create: length = len(payload), count = len(msgs), msg = payload",
              "length and count describe the payload exactly", witness=sets)
    fi = ctx.fn(FB)
    hp = fi.params[0]
    # the message area ends at SIZE + hdr.length: the truncation guard compares exactly that with len(datagram), whatever
    # temporaries hold it (linear forms over the header field)
    from .common import lin_form
    fcfg = cfg_of(fi)
    SIZE = ctx.folder.class_attr(ctx.repo.cls("connection:PacketHeader"), "SIZE")
    want_end = (SIZE, (("%s.length" % hp, 1),))
    alt_end = (SIZE, (("pkt.hdr.length", 1),))
    dg = fi.params[2]
    trunc = []
    for n in fcfg.nodes:
        if n.kind == "test" and isinstance(n.ast, ast.Compare) and len(n.ast.ops) == 1 and isinstance(n.stmt, ast.If) and any(isinstance(s_, ast.Raise) for s_ in n.stmt.body):
            l, r, op = n.ast.left, n.ast.comparators[0], n.ast.ops[0]
            for (a_, b_, o_) in ((l, r, type(op)), (r, l, {ast.Lt: ast.Gt, ast.Gt: ast.Lt, ast.LtE: ast.GtE, ast.GtE: ast.LtE}.get(type(op), type(op)))):
                if norm(b_) == "len(%s)" % dg and o_ is ast.Gt and lin_form(ctx, fi, a_, n) in (want_end, alt_end):
                    trunc.append(n)
    ctx.check(len(trunc) == 1, "C09.R1", fi, "decode length := SIZE + hdr.length", witness=[norm(t_.ast) for t_ in trunc])
    ctx.check(len(trunc) == 1, "C09.R1", fi, "a datagram shorter than its length field is refused")
    loops = [n for n in walk_own(fi.node) if isinstance(n, ast.For)]
    ctx.check(len(loops) == 1 and norm(loops[0].iter) in ("range(pkt.hdr.count)", "range(%s.count)" % hp), "C09.R1", fi, "decode loops hdr.count times", witness=[norm(l.iter) for l in loops])
    # the reader refuses no length the writer produces: the packing loop fills the message area up to Packet.MAX_CONTENT_SIZE, so a
    # cap on the decoded length field (in the header parse or in the datagram decode) must lie at or above that
    P = ctx.repo.cls("connection:Packet")
    top = ctx.folder.class_attr(P, "MAX_CONTENT_SIZE")
    tight, n_caps = [], 0
    for f_ in (ctx.fn("connection:PacketHeader.from_bytes"), fi):
        lens = {"%s.length" % x for x in ("hdr", "pkt.hdr", hp, "self")} | {"length"}
        for g in walk_own(f_.node):
            if isinstance(g, ast.If) and any(isinstance(s_, ast.Raise) for s_ in g.body):
                for cmp in [x for x in ast.walk(g.test) if isinstance(x, ast.Compare) and len(x.ops) == 1]:
                    l, r, op = cmp.left, cmp.comparators[0], type(cmp.ops[0])
                    for (a_, b_, o_) in ((l, r, op), (r, l, {ast.Lt: ast.Gt, ast.Gt: ast.Lt, ast.LtE: ast.GtE, ast.GtE: ast.LtE}.get(op, op))):
                        if norm(a_) in lens and o_ in (ast.Gt, ast.GtE):
                            try:
                                c_ = ctx.folder.fold(b_, f_.module, cls=f_.cls)
                            except Exception:
                                c_ = None
                            if isinstance(c_, int) and not isinstance(c_, bool):
                                n_caps += 1
                                if c_ < top or (o_ is ast.GtE and c_ <= top):
                                    tight.append({"function": f_.qual, "test": norm(cmp), "bound": c_, "largest_written_length": top})
    ctx.check(not tight and isinstance(top, int), "C09.R1", fi, "no cap on the decoded length field below what the writer packs (Packet.MAX_CONTENT_SIZE)",
              "a datagram the sender legitimately fills to the last bytes must decode (%d length caps inspected)" % n_caps, witness=tight)


def _decode_by_evaluation(ctx, fb, fmt1, fmtn):
    """the message area decode of Packet.from_bytes decided by partial evaluation (engine/minieval.py) on datagrams whose message area
    is framed with the *writer's* formats: header and packet are stand-in records, AES-GCM is replaced by "cut the tag off", PendingMessage
    / SeqNum / PacketType by tuple builders.  One message: (seq, header type, body).  n messages: per message its own (length, seq, type)
    and exactly `length` bytes, in order - bodies that are empty, that look like a frame header, of different lengths.
    None when the function is outside the evaluator's fragment."""
    import struct
    from engine.minieval import MiniEval, Rec
    PH = ctx.repo.cls("connection:PacketHeader")
    SIZE, TAG = ctx.folder.class_attr(PH, "SIZE"), ctx.folder.class_attr(PH, "TAG_SIZE")
    stubs = {"crypto.decrypt_gcm": lambda key, iv, aad, data: bytes(data[:-TAG]) if len(data) >= TAG else b"", "Packet": lambda: Rec("pkt"),
             "PendingMessage": lambda *a: ("PM",) + tuple(a), "SeqNum": lambda x=0: ("Seq", x), "PacketType": lambda v: ("PT", v)}
    out = {"cases": 0, "single": [], "multi": []}

    def run(area, count):
        hdr = Rec("hdr", length=len(area), count=count, pkt_type=("PT", "hdr"), seq=("Seq", 1), ack=("Seq", 0), ack_bits=0, ctime=0, isServer=False)
        dg = bytes(SIZE) + area + bytes(TAG)
        r = MiniEval(ctx.repo, ctx.folder, fb, stubs=stubs).call([hdr, b"k" * 16, dg])
        if r[0] != "return" or not isinstance(r[1], Rec):
            return repr(r)[:100]
        return [m for m in r[1].attrs.get("msgs", [])]
    try:
        for seq, body in ((7, b"hello"), (65535, b""), (1, struct.pack(fmtn, 3, 9, 2) + b"abc")):
            out["cases"] += 1
            got = run(struct.pack(fmt1, seq) + body, 1)
            want = [("PM", ("Seq", seq), ("PT", "hdr"), body, None, 0)]
            if got != want:
                out["single"].append({"seq": seq, "body_length": len(body), "decoded": repr(got)[:160]})
        for msgs in ([(1, 2, b"ab"), (2, 2, b"")], [(10, 3, b""), (11, 2, struct.pack(fmtn, 1, 1, 1)), (12, 2, b"xyz" * 20)], [(5, 2, b"q")] * 3):
            out["cases"] += 1
            area = b"".join(struct.pack(fmtn, len(b), s_, t_) + b for (s_, t_, b) in msgs)
            got = run(area, len(msgs))
            want = [("PM", ("Seq", s_), ("PT", t_), b, None, 0) for (s_, t_, b) in msgs]
            if got != want:
                out["multi"].append({"messages": [(s_, t_, len(b)) for (s_, t_, b) in msgs], "decoded": repr(got)[:200]})
    except Undecided:
        return None
    return out


def _framing(ctx):
    cr, fb = ctx.fn(CR), ctx.fn(FB)
    packs = [s for s in struct_sites(cr, ctx.folder) if s.kind == "pack"]
    unpacks = [s for s in struct_sites(fb, ctx.folder) if s.kind in ("unpack", "unpack_from")]
    if any(s.fmt is None for s in packs + unpacks):
        raise Undecided("non-literal framing format")
    return cr, fb, packs, unpacks


def show_form(f):
    if f is None:
        return None
    cc, cl, k = f
    parts = []
    if cc:
        parts.append("c" if cc == 1 else "%d*c" % cc)
    if cl:
        parts.append("L" if cl == 1 else "%d*L" % cl)
    if k or not parts:
        parts.append(str(k))
    return " + ".join(parts)


def cursor_model(ctx, fb, un, b):
    """interpret the loop around the multi-message unpack site `un` -> dict(read_at, read_len, body, next, fields, pending,
    buffer, style) over linear forms (coefficient of c, coefficient of L, constant), or None when a statement is outside the
    fragment (assignments, augmented assignments, slices of the one buffer, conversions, the append)"""
    loops = [p for p in _parents(un.call, fb.node) if isinstance(p, ast.For)]
    if not loops:
        return None
    loop = loops[0]
    from engine.defuse import defuse_of
    du = defuse_of(fb)
    lnode = du.cfg.node_of(loop)
    buf = None          # name of the bytes variable that holds the datagram's message area
    cur = None          # name of an integer cursor variable, when the code walks by offset
    names = {x.id for x in ast.walk(loop) if isinstance(x, ast.Name)}
    for name in sorted(names):
        defs = [d for d in du.reaching(name, lnode.id) if d[0] != "ENTRY"] if lnode is not None else []
        # the definition made before the loop (definitions inside the loop reach its head over the back edge)
        inside = {id(x) for x in ast.walk(loop) if isinstance(x, (ast.expr, ast.stmt))}
        outer = [d for d in defs if isinstance(d[1], ast.AST) and id(d[1]) not in inside]
        if len(outer) == 1:
            v = outer[0][1]
            if norm(v).endswith(".msg"):
                buf = name
            elif isinstance(v, ast.Constant) and v.value == 0 and type(v.value) is int and any(
                    isinstance(x, ast.Name) and x.id == name and isinstance(x.ctx, ast.Store) for x in ast.walk(loop)):
                cur = name
    if buf is None:
        # the buffer is the name the unpack site slices, when that name is what the packet's message area is set from
        # (pkt.msg = payload; ... payload[pos:start]) - whichever branch bound it
        a0 = un.args[0] if un.args else None
        bname = a0.value.id if isinstance(a0, ast.Subscript) and isinstance(a0.value, ast.Name) else a0.id if isinstance(a0, ast.Name) else None
        if bname is not None and any(isinstance(n, ast.Assign) and isinstance(n.targets[0], ast.Attribute) and n.targets[0].attr == "msg" and isinstance(n.value, ast.Name)
                                     and n.value.id == bname for n in walk_own(fb.node)):
            buf = bname
    if buf is None:
        return None
    used_cur = cur is not None and any(isinstance(x, ast.Name) and x.id == cur for x in ast.walk(loop))
    ints = {}
    start = {buf: (1, 0, 0)}        # start offset of the buffer variable
    if used_cur:
        start[buf] = (0, 0, 0)
        ints[cur] = (1, 0, 0)
    out = {"read_at": None, "read_len": None, "body": None, "next": None, "fields": [], "pending": None, "buffer": buf, "style": "offset" if used_cur else "reslice"}
    conv = {}
    spans = {}

    def add(x, y, sign=1):
        return (x[0] + sign * y[0], x[1] + sign * y[1], x[2] + sign * y[2])

    def ev(e):
        if isinstance(e, ast.Name) and e.id in ints:
            return ints[e.id]
        if isinstance(e, ast.BinOp) and isinstance(e.op, (ast.Add, ast.Sub)):
            l, r = ev(e.left), ev(e.right)
            if l is None or r is None:
                return None
            return add(l, r, 1 if isinstance(e.op, ast.Add) else -1)
        v = fold_int(ctx, fb, e)
        if v is None and isinstance(e, ast.Name):
            # a named constant (prefix_size = 5) bound before the loop
            defs = [d for d in du.reaching(e.id, lnode.id) if d[0] != "ENTRY"] if lnode is not None else []
            if len(defs) == 1 and isinstance(defs[0][1], ast.AST):
                v = fold_int(ctx, fb, defs[0][1])
        if v is None:
            return None
        return (0, 0, v)

    def span(e):
        """(start, end|None) of buf[lo:hi]"""
        if isinstance(e, ast.Name) and e.id in start:
            return (start[e.id], None)
        if isinstance(e, ast.Subscript) and isinstance(e.value, ast.Name) and e.value.id in start and isinstance(e.slice, ast.Slice) and e.slice.step is None:
            lo = ev(e.slice.lower) if e.slice.lower is not None else (0, 0, 0)
            hi = ev(e.slice.upper) if e.slice.upper is not None else None
            if lo is None or (e.slice.upper is not None and hi is None):
                raise ValueError(norm(e))
            base = start[e.value.id]
            return (add(base, lo), add(base, hi) if hi is not None else None)
        raise ValueError(norm(e))
    try:
        for st in loop.body:
            if isinstance(st, ast.Assign) and len(st.targets) == 1:
                tg, v = st.targets[0], st.value
                if v is un.call:
                    out["fields"] = [norm(x) for x in tg.elts] if isinstance(tg, ast.Tuple) else [norm(tg)]
                    if un.kind == "unpack_from":
                        sp = span(un.args[0])
                        off = ev(un.args[1]) if len(un.args) > 1 else (0, 0, 0)
                        if off is None or sp[1] is not None:
                            return None
                        out["read_at"] = add(sp[0], off)
                    else:
                        sp = span(un.args[0])
                        out["read_at"] = sp[0]
                        out["read_len"] = add(sp[1], sp[0], -1) if sp[1] is not None else None
                        if sp[1] is None:
                            return None
                    if out["fields"]:
                        ints[out["fields"][0]] = (0, 1, 0)          # the length field
                    continue
                if isinstance(tg, ast.Name) and isinstance(v, ast.Call) and norm(v.func) in ("PacketType", "SeqNum") and len(v.args) == 1:
                    conv[tg.id] = "%s(%s)" % (norm(v.func), norm(v.args[0]))
                    continue
                if isinstance(tg, ast.Name) and tg.id in start and isinstance(v, ast.Subscript):
                    sp = span(v)
                    if sp[1] is not None:
                        return None
                    start[tg.id] = sp[0]
                    continue
                if isinstance(tg, ast.Name) and isinstance(v, ast.Subscript):
                    spans[tg.id] = span(v)
                    continue
                if isinstance(tg, ast.Name):
                    f = ev(v)
                    if f is None:
                        return None
                    ints[tg.id] = f
                    continue
                return None
            if isinstance(st, ast.AugAssign) and isinstance(st.target, ast.Name) and st.target.id in ints and isinstance(st.op, (ast.Add, ast.Sub)):
                f = ev(st.value)
                if f is None:
                    return None
                ints[st.target.id] = add(ints[st.target.id], f, 1 if isinstance(st.op, ast.Add) else -1)
                continue
            if isinstance(st, ast.Expr) and isinstance(st.value, ast.Call) and norm(st.value.func).endswith(".append") and st.value.args \
                    and isinstance(st.value.args[0], ast.Call) and norm(st.value.args[0].func) == "PendingMessage":
                args = []
                for x in st.value.args[0].args:
                    if isinstance(x, ast.Name) and x.id in spans:
                        out["body"] = spans[x.id]
                        args.append("<body>")
                    elif isinstance(x, ast.Subscript):
                        out["body"] = span(x)
                        args.append("<body>")
                    elif isinstance(x, ast.Name) and x.id in conv:
                        args.append(conv[x.id])
                    elif isinstance(x, ast.Call) and norm(x.func) in ("PacketType", "SeqNum") and len(x.args) == 1:
                        args.append("%s(%s)" % (norm(x.func), norm(x.args[0])))
                    else:
                        args.append(norm(x))
                out["pending"] = args
                continue
            if isinstance(st, ast.If) and any(isinstance(x, ast.Raise) for x in st.body) and not st.orelse:
                continue        # decode guards are judged separately
            if isinstance(st, (ast.Pass,)) or (isinstance(st, ast.Expr) and isinstance(st.value, ast.Constant)):
                continue
            return None
    except ValueError:
        return None
    out["next"] = add(start[buf], ints[cur]) if used_cur else start[buf]
    return out



def r2(ctx):
    cr, fb, packs, unpacks = _framing(ctx)
    cap = capacity(ctx)
    ctx.require("C09.R2", cr, "framing pack sites in Packet.create", len(packs), 2)
    # the CRC unpack is '>L'; the two framing unpacks are the others, in source order: single then multi
    crc = [s for s in unpacks if fmt_fields(s.fmt)[1] == ["L"]]
    fr = [s for s in unpacks if s not in crc]
    if not ctx.require("C09.R2", fb, "framing unpack sites in Packet.from_bytes", len(fr), 2) or len(packs) < 2:
        return
    packs.sort(key=lambda s: len(fmt_fields(s.fmt)[1]))
    fr.sort(key=lambda s: len(fmt_fields(s.fmt)[1]))
    (p1, pn), (u1, un) = packs[:2], fr[:2]
    for tag, p, u in (("single", p1, u1), ("multi", pn, un)):
        ctx.check(fmt_fields(p.fmt) == fmt_fields(u.fmt) and fmt_fields(p.fmt)[0] == ">", "C09.R2", fb, "%s-message framing: pack format == unpack format" % tag,
                  witness={"pack": p.fmt, "unpack": u.fmt}, line=u.lineno)
    a, b = fmt_size(p1.fmt), fmt_size(pn.fmt)
    # single: pack(A, msgs[0].seq) + msgs[0].payload  <->  unpack(A, pkt.msg[:a]) ; pkt.msg[a:]
    from .common import sym_text
    crcfg = cfg_of(cr)
    e = p1.call._parent
    at1 = crcfg.node_of(p1.call)
    ok = isinstance(e, ast.BinOp) and isinstance(e.op, ast.Add) and e.left is p1.call and sym_text(cr, e.right, at1) == "%s[0].payload" % cr.params[1] \
        and [sym_text(cr, x, at1) for x in p1.args] == ["%s[0].seq" % cr.params[1]]
    ctx.check(ok, "C09.R2", cr, "single: payload = pack(seq) + message bytes", witness=norm(e))
    sb = slice_bounds(u1.args[0])
    ok = sb is not None and sb[1] is None and fold_int(ctx, fb, sb[2]) == a
    pm1 = [c for c in calls_named(fb, "PendingMessage") if any(isinstance(x, ast.Subscript) and slice_bounds(x) and slice_bounds(x)[0] == (sb[0] if sb else "") for x in c.args)]
    body_ok = False
    if pm1 and sb:
        for x in pm1[0].args:
            s2 = slice_bounds(x) if isinstance(x, ast.Subscript) else None
            if s2 and s2[0] == sb[0] and s2[2] is None and fold_int(ctx, fb, s2[1]) == a:
                body_ok = True
        body_ok = body_ok and norm(pm1[0].args[1]).endswith("hdr.pkt_type")
    dev = _decode_by_evaluation(ctx, fb, p1.fmt, pn.fmt)
    if dev is not None:
        ctx.check(not dev["single"], "C09.R2", fb, "single: seq from msg[:a], body msg[a:], type from the header (a = calcsize = %d)" % a,
                  "the reader strips exactly what the writer prepended - the decode of Packet.from_bytes evaluated (engine/minieval) on %d message areas framed with the writer's formats" % dev["cases"],
                  witness=dev["single"][:2], line=u1.lineno)
    else:
        ctx.check(ok and body_ok, "C09.R2", fb, "single: seq from msg[:a], body msg[a:], type from the header (a = calcsize = %d)" % a,
                  "the reader strips exactly what the writer prepended", line=u1.lineno)
    # multi: pack(B, len(msg.payload), msg.seq, msg.type.value) then payload  <-> length, seq, typ = unpack(B, payload[:b]); msg = payload[b:b+length]; payload = payload[b+length:]
    pa = [norm(x) for x in pn.args]
    loopvar = None
    comp = None
    for p in _parents(pn.call, cr.node):
        if isinstance(p, ast.For):
            loopvar = norm(p.target)
        if isinstance(p, (ast.ListComp, ast.GeneratorExp)) and comp is None:
            comp = p
    if loopvar is None and comp is not None and comp.generators and norm(comp.generators[0].iter) == cr.params[1] and isinstance(comp.generators[0].target, ast.Name):
        loopvar = comp.generators[0].target.id
    ok = loopvar is not None and pa == ["len(%s.payload)" % loopvar, "%s.seq" % loopvar, "%s.type.value" % loopvar]
    ctx.check(ok, "C09.R2", cr, "multi: header = pack(len(payload), seq, type.value)", witness=pa)
    if loopvar and comp is not None:
        # [part for msg in msgs for part in (pack(...), msg.payload)]  joined: header then bytes per message, in queue order
        g = comp.generators
        ok = len(g) == 2 and not g[0].ifs and not g[1].ifs and isinstance(g[1].iter, (ast.Tuple, ast.List)) and len(g[1].iter.elts) == 2 \
            and g[1].iter.elts[0] is pn.call and norm(g[1].iter.elts[1]) == "%s.payload" % loopvar and isinstance(g[1].target, ast.Name) and norm(comp.elt) == g[1].target.id
        ctx.check(ok, "C09.R2", cr, "multi: for each message append header then bytes, in queue order", witness=norm(comp)[:120])
        j = [n for n in walk_own(cr.node) if isinstance(n, ast.Call) and norm(n.func) in ("b''.join", 'b"".join')]
        ctx.check(len(j) == 1, "C09.R2", cr, "multi: payload = b''.join(parts)")
    # appended in order: header then payload
    elif loopvar:
        loop = [p for p in _parents(pn.call, cr.node) if isinstance(p, ast.For)][0]
        apps = [s.value for s in loop.body if isinstance(s, ast.Expr) and isinstance(s.value, ast.Call) and norm(s.value.func).endswith(".append")]
        ok = len(apps) == 2 and apps[0].args[0] is pn.call and norm(apps[1].args[0]) == "%s.payload" % loopvar and norm(loop.iter) == cr.params[1]
        ctx.check(ok, "C09.R2", cr, "multi: for each message append header then bytes, in queue order", witness=[norm(x) for x in apps])
        j = [n for n in walk_own(cr.node) if isinstance(n, ast.Assign) and isinstance(n.value, ast.Call) and norm(n.value.func) in ("b''.join", 'b"".join')]
        ctx.check(len(j) == 1, "C09.R2", cr, "multi: payload = b''.join(parts)")
    # reader side: the loop body is interpreted over linear forms in (c, L): c = position of the cursor at the start of an
    # iteration, L = value of the length field.  Re-slicing the remainder (`payload = payload[b+length:]`) and walking with an
    # offset (`unpack_from(fmt, payload, offset)`; `offset += ...`) give the same forms.
    cm = cursor_model(ctx, fb, un, b) if dev is None else None
    sb = None
    if dev is not None:
        why_ = "the decode of Packet.from_bytes evaluated (engine/minieval) on %d message areas framed with the writer's formats" % dev["cases"]
        ctx.check(not dev["multi"], "C09.R2", fb, "multi: (length, seq, type) = unpack of the b = calcsize = %d bytes at the cursor" % b, why_, witness=dev["multi"][:2], line=un.lineno)
        ctx.check(not dev["multi"], "C09.R2", fb, "multi: body = payload[b:b+length]; advance payload = payload[b+length:]",
                  "each message is cut by its own length field and the cursor advances past it - " + why_, witness=dev["multi"][:2])
        ctx.check(not dev["multi"], "C09.R2", fb, "multi: PendingMessage(SeqNum(seq), PacketType(type), body)", why_, witness=dev["multi"][:2])
    elif cm is None:
        ctx.violated("C09.R2", fb, un.call, "multi: the decode loop is outside the cursor model (linear offsets over one buffer)", line=un.lineno)
    else:
        names = cm["fields"]
        ctx.check(len(names) == 3 and cm["read_at"] == (1, 0, 0) and cm["read_len"] in (None, (0, 0, b)), "C09.R2", fb,
                  "multi: (length, seq, type) = unpack of the b = calcsize = %d bytes at the cursor" % b,
                  witness={"targets": names, "read_at": show_form(cm["read_at"]), "slice_length": show_form(cm["read_len"]) if cm["read_len"] else None}, line=un.lineno)
        ok_body = cm["body"] == ((1, 0, b), (1, 1, b))
        ok_adv = cm["next"] == (1, 1, b)
        ctx.check(ok_body and ok_adv, "C09.R2", fb, "multi: body = payload[b:b+length]; advance payload = payload[b+length:]",
                  "each message is cut by its own length field and the cursor advances past it",
                  witness={"body": [show_form(x) for x in cm["body"]] if cm["body"] else None, "next_cursor": show_form(cm["next"]) if cm["next"] else None})
        if len(names) == 3:
            L, S, Ty = names
            pm = cm["pending"]
            okp = pm is not None and pm[:3] == ["SeqNum(%s)" % S, "PacketType(%s)" % Ty, "<body>"]
            ctx.check(okp, "C09.R2", fb, "multi: PendingMessage(SeqNum(seq), PacketType(type), body)", witness=pm)
        if cm["buffer"] and cm["style"] == "reslice":
            sb = (cm["buffer"], None, None)
    # decode-side length guards must not refuse anything the encoder produces: a raise guarded by a comparison of a remaining
    # length with a constant may only cover lengths below the minimum the writer emits at that point (a for the single form,
    # b for each message of the multi form - an empty last message leaves exactly b bytes)
    mins = {}
    if sb is not None:
        mins[sb[0]] = b           # multi-message cursor
    sb1 = slice_bounds(u1.args[0])
    if sb1 is not None:
        mins[sb1[0]] = a          # single-message body
    n_guards = 0
    for g in walk_own(fb.node):
        if isinstance(g, ast.If) and any(isinstance(x, ast.Raise) for x in g.body) and isinstance(g.test, ast.Compare) and len(g.test.ops) == 1:
            l, r, op = g.test.left, g.test.comparators[0], g.test.ops[0]
            flip = {ast.Lt: ast.Gt, ast.LtE: ast.GtE, ast.Gt: ast.Lt, ast.GtE: ast.LtE, ast.Eq: ast.Eq, ast.NotEq: ast.NotEq}
            if not (isinstance(l, ast.Call) and norm(l.func) == "len") and isinstance(r, ast.Call) and norm(r.func) == "len":
                l, r, op = r, l, flip[type(op)]()
            if isinstance(l, ast.Call) and norm(l.func) == "len" and norm(l.args[0]) in mins:
                c = fold_int(ctx, fb, r)
                if c is None:
                    continue
                n_guards += 1
                need = mins[norm(l.args[0])]
                # largest length that is refused
                if isinstance(op, ast.Lt):
                    top = c - 1
                elif isinstance(op, ast.LtE):
                    top = c
                elif isinstance(op, ast.Eq):
                    top = c
                else:
                    top = None      # refuses arbitrarily long remainders
                ok = top is not None and top < need
                ctx.check(ok, "C09.R2", fb, g.test, "a decode guard refuses only remainders shorter than the %d bytes the writer always emits there" % need,
                          witness={"refused_up_to": top if top is not None else "unbounded", "writer_minimum": need}, line=g.lineno)
    # which framing for which count - both sides
    crt = sorted(sym_text(cr, n.test, crcfg.node_of(n.test), allow_calls=("len",)) if crcfg.node_of(n.test) is not None else norm(n.test) for n in walk_own(cr.node) if isinstance(n, ast.If))
    fbt = sorted(norm(n.test) for n in walk_own(fb.node) if isinstance(n, ast.If) and isinstance(n.test, ast.Compare) and norm(n.test.left).endswith(".count")
                 and not any(isinstance(x, ast.Raise) for x in n.body))
    # writer side by value: the counts under which each framing is produced, from the path conditions of the statement that
    # produces it (however the three cases are ordered and whichever comparisons select them)
    from engine.cond import CondCtx as _CC, satisfiable as _sat
    wcc = _CC(ctx.folder, cr.module, cr.cls)
    lenx = "len(%s)" % cr.params[1]

    def counts_at(node_ast):
        nd = crcfg.node_of(node_ast)
        if nd is None:
            return None
        lits = []
        for (t, p) in crcfg.conditions_of(nd.id):
            tn = crcfg.node_of(t)
            e = ast.parse(sym_text(cr, t, tn, allow_calls=("len",)), mode="eval").body if tn is not None else t
            lits += wcc.literal(e, p)
        from engine.cond import Lit as _Lit
        lcall = ast.parse(lenx, mode="eval").body
        # (len(x) == 0 is read as the truth value of x by the literal theory: a count is stated both ways)
        return [k for k in (0, 1, 2, 3, 255) if _sat(lits + [_Lit("cmp", wcc.subject(lcall), ("==", k), True, ""), _Lit("truth", wcc.subject(lcall.args[0]), None, k != 0, "")])]
    empties = [n for n in walk_own(cr.node) if isinstance(n, (ast.Assign, ast.Return)) and isinstance(n.value, ast.Constant) and n.value.value == b""]
    got = {"single": counts_at(p1.call), "multi": counts_at(pn.call), "empty": sorted({k for n in empties for k in (counts_at(n) or [])}) if empties else None}
    # (an initial `payload = b''` in front of the cases holds for every count: then the cases themselves must be exhaustive)
    w_ok = got["single"] == [1] and got["multi"] == [2, 3, 255] and got["empty"] is not None and 0 in got["empty"]
    ctx.check(w_ok and [t.replace("pkt.hdr.", "hdr.").replace(fb.params[0] + ".", "hdr.") for t in fbt] == ["hdr.count == 1", "hdr.count > 1"], "C09.R2", cr,
              "framing selected by count: 0 -> empty, 1 -> single, >=2 -> multi, on both sides", witness={"create": got, "from_bytes": fbt})
    # overhead model
    P = ctx.repo.cls("connection:Packet")
    o = [cap.overhead(n) for n in range(0, 6)]
    ctx.check(o[0] == 0 and o[1] == a and all(o[n] == n * b for n in range(2, 6)), "C09.R2", cap.overhead_fn, "Packet.overhead(n) equals the real framing cost",
              "0 for none, calcsize(single) for one, n*calcsize(multi) for n>=2", witness={"overhead(0..5)": o, "a": a, "b": b})
    c1, cn = ctx.folder.class_attr(P, "MESSAGE_OVERHEAD_1"), ctx.folder.class_attr(P, "MESSAGE_OVERHEAD_N")
    ctx.check(c1 == a and cn == b, "C09.R2", P, "MESSAGE_OVERHEAD_1/N equal the format sizes", witness={"MESSAGE_OVERHEAD_1": c1, "a": a, "MESSAGE_OVERHEAD_N": cn, "b": b})
    # total_size mirrors to_bytes
    ts = ctx.fn("connection:Packet.total_size")
    rets = [norm(n.value) for n in walk_own(ts.node) if isinstance(n, ast.Return)]
    ctx.check(rets == ["len(self.msg) + PacketHeader.SIZE + PacketHeader.TAG_SIZE", "len(self.msg) + PacketHeader.SIZE + PacketHeader.CRC_SIZE"], "C09.R2", ts,
              "total_size = len(msg) + SIZE + (TAG_SIZE | CRC_SIZE)", witness=rets)
    to = ctx.fn("connection:Packet.to_bytes")
    crcp = [s for s in struct_sites(to, ctx.folder) if s.kind == "pack"]
    PH = ctx.repo.cls("connection:PacketHeader")
    ctx.check(len(crcp) == 1 and fmt_size(crcp[0].fmt) == ctx.folder.class_attr(PH, "CRC_SIZE") and fmt_fields(crcp[0].fmt) == fmt_fields(crc[0].fmt if crc else ""), "C09.R2", to,
              "CRC trailer: same format both sides, size == CRC_SIZE", witness={"pack": [s.fmt for s in crcp], "unpack": [s.fmt for s in crc]})


def _parents(node, stop):
    out = []
    p = getattr(node, "_parent", None)
    while p is not None and p is not stop:
        out.append(p)
        p = getattr(p, "_parent", None)
    return out


def r3(ctx):
    cap = capacity(ctx)
    bpi = cap.bpi
    for i, g in enumerate(cap.guards):
        tag = "resend" if i == 0 else "new"
        def slack(m, c, i=i):
            return (m["mtu"] - c.UDP - c.SIZE - c.TAG) - m["CAPS"][i]

        def sup_excess(m, c, i=i):
            """supremum over every case of (real encoded payload - accounted size); None if unbounded"""
            worst = None
            for case, ex in m["excess"][i].items():
                if ex.get("p", 0) > 0 or ex.get("S", 0) > 0 or ex.get("n", 0) > 0:
                    return None
                v = ex.get(1, 0) + (2 * ex.get("n", 0) if case == "n>=2" else 0)
                worst = v if worst is None else max(worst, v)
            return worst

        def exact(m, c, i=i):
            return m["uniform"] and all(not any(ex.get(k, 0) for k in ("p", "S", "n")) and ex.get(1, 0) == slack(m, c) for ex in m["excess"][i].values())
        sweep(ctx, "C09.R3", "U[%s] real encoded size <= MTU - UDP_HEADER_SIZE for every admitted message list" % tag,
              "no datagram handed to the socket exceeds MTU-28, whatever is queued (the accounted size, by induction over the admissions, never "
              "under-counts the real payload by more than CAP_true - CAP)",
              lambda m, c, i=i: sup_excess(m, c) is not None and sup_excess(m, c) <= slack(m, c),
              lambda m, c, i=i: {"CAP": m["CAPS"][i], "CAP_true": m["mtu"] - c.UDP - c.SIZE - c.TAG, "real_minus_accounted_per_case": {k: str(v) for k, v in m["excess"][i].items()}}, bpi)
        sweep(ctx, "C09.R3", "V[%s] accounted size == real size and CAP == CAP_true (no wasted capacity)" % tag,
              "messages that fit together into MTU-28 bytes are admitted together",
              lambda m, c, i=i: exact(m, c),
              lambda m, c, i=i: {"CAP": m["CAPS"][i], "CAP_true": m["mtu"] - c.UDP - c.SIZE - c.TAG, "real_minus_accounted_per_case": {k: str(v) for k, v in m["excess"][i].items()}}, bpi)
    sweep(ctx, "C09.R3", "MAX_SIZE == MTU - UDP_HEADER_SIZE", "setMTU derives the datagram limit from the MTU",
          lambda m, c: m["MAX_SIZE"] == m["mtu"] - c.UDP, lambda m, c: {"MAX_SIZE": m["MAX_SIZE"]}, cap.setmtu)
    # the size accounted for is the size produced: current_msg_length accumulates len(payload) of every appended message
    m0 = cap.at(MTUS[0])
    ctx.check(m0["uniform"], "C09.R3", bpi, "accounting variables %s follow one unit recurrence a' = a + u_case + v*p in both loops" % cap.accounting.vars,
              "both loops feed one message list: if they account differently at least one of them deviates from the real size", witness={k: v for k, v in m0["steps"].items()})
    # class-body defaults == setMTU(default MTU)
    P = ctx.repo.cls("connection:Packet")
    mtu0 = ctx.folder.class_attr(P, "MTU")
    if not isinstance(mtu0, int):
        ctx.undecided("C09.R3", P, "Packet.MTU default does not fold")
    ov = cap.overrides(mtu0)
    diffs = {}
    for k, v in ov.items():
        if k.startswith("Packet.") and k != "Packet.RECV_SIZE":
            d = ctx.folder.class_attr(P, k.split(".")[1])
            if d != v:
                diffs[k] = {"class_body": str(d), "setMTU(%d)" % mtu0: v}
    ctx.check(not diffs, "C09.R3", cap.setmtu, "setMTU(%d) reproduces the class-body defaults" % mtu0, "sibling constant programs agree", witness=diffs)
    sweep(ctx, "C09.R3", "RECV_SIZE >= MTU", "the receive buffer holds a full datagram",
          lambda m, c: c.overrides(m["mtu"]).get("Packet.RECV_SIZE", 0) >= m["mtu"], lambda m, c: {"RECV_SIZE": c.overrides(m["mtu"]).get("Packet.RECV_SIZE")}, cap.setmtu)


def r4(ctx):
    cap = capacity(ctx)
    bpi = cap.bpi
    tb, fb, packs, pack_attrs, u, unpack_attrs = c01._header_formats(ctx)
    fields = fmt_fields(u.fmt)[1]
    fmap = dict(zip(unpack_attrs, fields))
    count_max = INT_RANGE.get(fmap.get("count"), (0, -1))[1]
    length_max = INT_RANGE.get(fmap.get("length"), (0, -1))[1]

    # a guard without count cap admits by size only -> the joint count is bounded by the size bound of the largest CAP
    def joint2(m, c):
        size_bound = 0
        while c.overhead(size_bound + 1) <= max(m["CAPS"]):
            size_bound += 1
        caps = m["COUNT_CAPS"]
        if all(x is not None for x in caps):
            return min(size_bound, max(caps))
        return size_bound
    sweep(ctx, "C09.R4", "K messages per datagram <= capacity of the count field",
          "hundreds of empty or tiny messages per tick must not overflow the one-byte message count (struct.error in to_bytes, messages lost)",
          lambda m, c: c.admissible_empty(m) <= count_max, lambda m, c: {"admissible_messages": c.admissible_empty(m), "count_field_max": count_max, "count_guards": m["COUNT_CAPS"]}, bpi)
    sweep(ctx, "C09.R4", "H payload length <= capacity of the length field",
          "the packed payload length fits the 16-bit length field", lambda m, c: max(m["CAPS"]) <= length_max,
          lambda m, c: {"CAP": max(m["CAPS"]), "length_field_max": length_max}, bpi)
    # per-message length / seq / type fields of the multi framing
    cr, fbf, fpacks, funpacks = _framing(ctx)
    multi = [s for s in fpacks if len(fmt_fields(s.fmt)[1]) == 3]
    if multi:
        mf = fmt_fields(multi[0].fmt)[1]
        sweep(ctx, "C09.R4", "H per-message length <= capacity of its field", "multi framing length field",
              lambda m, c: max(m["CAPS"]) <= INT_RANGE[mf[0]][1], lambda m, c: {"CAP": max(m["CAPS"]), "field": mf[0]}, cr)
        PT = ctx.repo.cls("connection:PacketType")
        vals = {}
        for name in PT.consts:
            v = ctx.folder.class_attr(PT, name)
            if isinstance(v, EnumVal):
                vals[name] = v.value
        ctx.expect("C09.R4", "PacketType members", len(vals), 8)
        tmax = INT_RANGE[mf[2]][1]
        ctx.check(all(isinstance(v, int) and 0 <= v <= tmax and v <= INT_RANGE[fmap["pkt_type"]][1] for v in vals.values()), "C09.R4", PT,
                  "packet type values fit one byte (header and per-message field)", witness=vals)
        ctx.check(len(set(vals.values())) == len(vals), "C09.R4", PT, "packet type values are distinct", witness=vals)
        M = ctx.folder.class_attr(ctx.repo.cls("connection:SeqNum"), "_max_sequence")
        ctx.check(M <= INT_RANGE[mf[1]][1] and M <= INT_RANGE[fmap["seq"]][1] and M <= INT_RANGE[fmap["ack"]][1], "C09.R4", ctx.repo.cls("connection:SeqNum"),
                  "sequence numbers fit their 16-bit fields", witness={"M": M})
    # fragment id / seq types passed to pack are SeqNum instances: seq_message, seq_sending, seq_fragment initialised as SeqNum() and only += 1
    init = ctx.fn("connection:ConnectionBase.__init__")
    seqs = {norm(n.targets[0]): norm(n.value) for n in walk_own(init.node) if isinstance(n, ast.Assign) and norm(n.targets[0]) in ("self.seq_sending", "self.seq_message", "self.seq_fragment")}
    ctx.check(set(seqs.values()) == {"SeqNum()"} and len(seqs) == 3, "C09.R4", init, "the three counters are SeqNum ring values", witness=seqs)
    from engine.defuse import attr_accesses
    for attr in ("seq_message", "seq_fragment"):
        ws = [a for a in attr_accesses(ctx.repo, attr) if a.kind in ("store", "aug")]
        ok = all((a.kind == "store" and a.fi.name == "__init__") or (a.kind == "aug" and isinstance(a.stmt.op, ast.Add) and norm(a.stmt.value) == "1") for a in ws)
        ctx.check(ok, "C09.R4", init, "%s is only initialised and incremented by 1 (stays on the ring)" % attr, witness=[repr(a) for a in ws])
    # window width vs ack_bits field: C08.R4


def r5(ctx):
    c05.r5(_Sub(ctx, "C09.R5"))
    # send() never raises for bytes payloads up to the limit except the documented errors: covered by C06.R3


def r6(ctx):
    for q, writer in (("server:UdpServerThread.send", "sendto"), ("twisted:TwistedServer.sendPacketsUnsafe", "write")):
        fi = ctx.fn(q)
        pu = possibly_unbound(fi)
        un = unresolved_names(fi)
        seen = set()
        for (name, line, node) in pu:
            if name in seen:
                continue
            seen.add(name)
            ctx.violated("C09.R6", fi, "possibly unbound local `%s`" % name,
                         "after a failed encoding the send would use an unbound or stale value", witness={"name": name}, line=line)
        for (name, line, node) in un:
            ctx.violated("C09.R6", fi, "unresolved name `%s`" % name, "NameError in the send path", witness={"name": name}, line=line)
        if not pu and not un:
            ctx.holds("C09.R6", fi, "all names bound at every use")
        enc = [c for c in calls_named(fi, "to_bytes")]
        wr = [c for c in calls_named(fi, writer)]
        if ctx.require("C09.R6", fi, "to_bytes and %s calls" % writer, min(len(enc), len(wr)), 1):
            ctx.check(all(contained(c) for c in enc + wr), "C09.R6", fi, "encoding and socket write are contained per datagram (try/except Exception inside the loop)",
                      "one packet that cannot be encoded or sent must not lose the rest of the batch", line=wr[0].lineno)
            # the try is inside the for loop (containment is per datagram)
            from .common import enclosing_trys
            ok = True
            for c in enc + wr:
                t = enclosing_trys(c)
                ok = ok and bool(t) and any(isinstance(p, ast.For) for p in _parents(t[0], fi.node))
            ctx.check(ok, "C09.R6", fi, "the containing try is inside the per-datagram loop", line=wr[0].lineno)
    # client side: _encode_packet re-raises (the caller decides) - packing itself cannot raise for admitted messages (R4)


def r_idioms(ctx):
    from .common import repo_idioms
    repo_idioms(ctx, "C09.R7", ('connection', 'server', 'twisted'))


def r8(ctx):
    """'no sequence of send() calls can make packet construction ... lose queued messages': a queued message that can never be
    admitted into an empty datagram is lost for good - shared obligation C05.R1 (capacity liveness for every MTU)"""
    c05.r1(_Sub(ctx, "C09.R8"))

EXPLANATION = EXPLANATION + ' (R7) repository idioms; (R8) the capacity constants and fragment size per MTU (shared obligations C05.R1: an over-long fragment is a datagram above the MTU).'

RULES = [("C09.R1", r1), ("C09.R2", r2), ("C09.R3", r3), ("C09.R4", r4), ("C09.R5", r5), ("C09.R6", r6), ("C09.R7", r_idioms), ("C09.R8", r8)]
