"""C07 - send callbacks are truthful and fire exactly once."""
import ast
import re

from engine.index import norm, walk_own
from engine.cfg import cfg_of
from engine.cond import CondCtx, satisfiable
from engine.defuse import defuse_of, attr_accesses
from .common import calls_named, package_calls, node_lits, enclosing_trys, handler_catches, contained, resolve_arg, before, is_snapshot_of
from . import c01
from .c02 import _Sub

EXPLANATION = (
    "Static rules over _handle_ack_bits/_handle_ack/_handle_timeout, their callers, RetrySender.__call__, "
    "FragmentSender.callback and _build_packet_impl. Decides: (R1) ack and timeout resolution are sibling implementations with "
    "the same skeleton (contained callback calls, delete the callback entry, clean the retry tables, delete pending_acks[seq] on "
    "every path) and every caller resolves a sequence number at most once per pass over a snapshot; (R2) callbacks receive True "
    "only on the ack path, whose only caller tests the authenticated ack fields, and False only behind a comparison of the "
    "datagram's age with the message timeout; (R3) the guaranteed-send wrapper is one-shot: the success path tests and sets a "
    "flag that also silences later failures; (R4) every stored user callback attribute is called, the fragment callback exactly "
    "when every fragment is resolved and only once. Does not decide exactly-once over all schedules."
)
ASSUMPTIONS = [
    "ack fields are processed only for authenticated datagrams (C01.R4, evaluated here as shared obligation)",
    "ack bitmap geometry: C08.R4",
]

PROTO = ("connection", "client", "server", "context", "twisted", "handler")
ACK = "connection:ConnectionBase._handle_ack"
TMO = "connection:ConnectionBase._handle_timeout"
BITS = "connection:ConnectionBase._handle_ack_bits"


def _skeleton(fi):
    """normalised statement texts of a resolver with the boolean / counter / latency parts abstracted"""
    out = []
    for st in fi.body:
        t = norm(st)
        if isinstance(st, ast.Expr) and isinstance(st.value, ast.Constant):
            continue
        t = re.sub(r"\b(True|False)\b", "<BOOL>", t)
        t = re.sub(r"self\.stats\.\w+ \+= 1", "self.stats.<COUNTER> += 1", t)
        out.append(t)
    return out


def _resolver(ctx, fi, want_bool):
    cfg = cfg_of(fi)
    seq = fi.params[1]
    # callback calls
    loops = [n for n in walk_own(fi.node) if isinstance(n, ast.For) and norm(n.iter) == "self.pending_callbacks[%s]" % seq]
    if not ctx.require("C07.R1", fi, "loop over self.pending_callbacks[%s]" % seq, len(loops), 1):
        return
    loop = loops[0]
    var = norm(loop.target)
    calls = [c for c in ast.walk(loop) if isinstance(c, ast.Call) and norm(c.func) == var]
    ok = len(calls) == 1 and len(calls[0].args) == 1 and isinstance(calls[0].args[0], ast.Constant) and calls[0].args[0].value is want_bool
    ctx.check(ok, "C07.R2", fi, "callbacks are called with %s" % want_bool, "the resolver passes its own verdict", witness=[norm(c) for c in calls], line=loop.lineno)
    ctx.check(len(calls) == 1 and contained(calls[0]), "C07.R1", fi, "callback call is contained (try/except Exception without re-raise)",
              "a raising callback must not prevent the bookkeeping below", line=loop.lineno)
    # del self.pending_callbacks[seq] after the loop, same guard
    dels = [n for n in cfg.stmts((ast.Delete,)) if norm(n.ast.targets[0]) == "self.pending_callbacks[%s]" % seq]
    ok = len(dels) == 1 and cfg.node_of(loop).id in cfg.dominators(dels[0].id)
    ctx.check(ok, "C07.R1", fi, "del self.pending_callbacks[%s] follows the loop" % seq, "callbacks of a resolved datagram cannot be called again")
    # del self.pending_acks[seq] on every normal path
    pa = [n for n in cfg.stmts((ast.Delete,)) if norm(n.ast.targets[0]) == "self.pending_acks[%s]" % seq]
    ok = len(pa) == 1 and cfg.must_pass(cfg.entry, cfg.exit, {pa[0].id}, skip_labels=("exc",)) and not cfg.conditions_of(pa[0].id)
    ctx.check(ok, "C07.R1", fi, "del self.pending_acks[%s] on every path" % seq, "a datagram is resolved exactly once: it leaves pending_acks unconditionally")
    # exceptions before the del: only contained statements may raise realistically -> every call between entry and del is contained or a stats/latency update
    if len(pa) == 1:
        risky = []
        for n in cfg.nodes:
            if n.ast is None or n.kind not in ("stmt",) or n.id == pa[0].id:
                continue
            if pa[0].id in cfg.reachable(n.id, skip_labels=("exc", "raise")):
                for c in [x for x in ast.walk(n.ast) if isinstance(x, ast.Call)]:
                    f = norm(c.func)
                    if f == var and not contained(c):
                        risky.append(f)
        ctx.check(not risky, "C07.R1", fi, "no uncontained user call precedes the pending_acks deletion", witness=risky)
    # retry tables
    rt = [n for n in cfg.stmts((ast.Delete,)) if norm(n.ast.targets[0]) == "self.pending_retry[%s]" % seq]
    rt += [c for c in walk_own(fi.node) if isinstance(c, ast.Call) and norm(c.func) == "self.pending_retry.pop" and c.args and norm(c.args[0]) == seq]
    ctx.check(len(rt) == 1, "C07.R1", fi, "retry table entry of the datagram is removed")


def r1(ctx):
    ack, tmo = ctx.fn(ACK), ctx.fn(TMO)
    _resolver(ctx, ack, True)
    _resolver(ctx, tmo, False)
    s1, s2 = _skeleton(ack), _skeleton(tmo)
    # ack additionally measures latency: drop those statements before comparing
    s1c = [t for t in s1 if "rtt" not in t and "_update_latency" not in t]
    ctx.check(s1c == s2, "C07.R1", ack, "_handle_ack and _handle_timeout have the same skeleton",
              "sibling implementations must agree on bookkeeping (they differ only in the boolean, the counter and the latency sample)",
              witness={"only_in_ack": [t[:80] for t in s1c if t not in s2], "only_in_timeout": [t[:80] for t in s2 if t not in s1c]})
    # callers iterate a snapshot and resolve at most once per seq per pass
    for (q, name) in ((BITS, "_handle_ack_bits"), ("connection:ConnectionBase._check_timeout", "_check_timeout"), ("connection:ServerClientConnection.update", "update")):
        fi = ctx.fn(q)
        cfg = cfg_of(fi)
        res = [c for c in calls_named(fi, "_handle_ack") + calls_named(fi, "_handle_timeout")]
        for c in res:
            loops = [p for p in _parents(c, fi.node) if isinstance(p, (ast.For, ast.While))]
            ok = len(loops) == 1 and isinstance(loops[0], ast.For) and is_snapshot_of(loops[0].iter, "self.pending_acks") and norm(c.args[0]) == norm(loops[0].target)
            ctx.check(ok, "C07.R1", fi, c, "resolution iterates a snapshot of pending_acks and resolves the loop's own sequence number", line=c.lineno)
        # mutually exclusive per iteration
        if len(res) > 1:
            excl = True
            for i, a in enumerate(res):
                for b in res[i + 1:]:
                    na, nb = cfg.node_of(a).id, cfg.node_of(b).id
                    # b reachable from a without passing the loop header again?
                    loop = [p for p in _parents(a, fi.node) if isinstance(p, ast.For)][0]
                    head = cfg.node_of(loop).id
                    if nb in cfg.reachable(na, avoid={head}, skip_labels=("exc", "raise")) or na in cfg.reachable(nb, avoid={head}, skip_labels=("exc", "raise")):
                        excl = False
            ctx.check(excl, "C07.R1", fi, "at most one resolution per sequence number per pass", "ack and timeout of one datagram are exclusive branches")
    callers = sorted({f.qual for (f, c) in package_calls(ctx.repo, "_handle_ack")})
    ctx.check(callers == [BITS], "C07.R1", ack, "callers of _handle_ack", witness=callers)
    callers = sorted((f.qual) for (f, c) in package_calls(ctx.repo, "_handle_timeout"))
    ctx.check(callers == sorted([BITS, "connection:ConnectionBase._check_timeout", "connection:ServerClientConnection.update"]), "C07.R1", tmo, "callers of _handle_timeout", witness=callers)
    # nobody else deletes from pending_acks / rewrites pending_callbacks entries
    ws = [a for a in attr_accesses(ctx.repo, "pending_acks", PROTO) if a.kind in ("subdel", "substore", "store")]
    where = sorted({(a.fi.name, a.kind) for a in ws})
    ctx.check(where == sorted({("__init__", "store"), ("disconnect", "store"), ("_build_packet_impl", "substore"), ("_handle_ack", "subdel"), ("_handle_timeout", "subdel")}),
              "C07.R1", ack, "writers of pending_acks", "datagrams enter at construction and leave through the two resolvers (or disconnect)", witness=where)
    ws = [a for a in attr_accesses(ctx.repo, "pending_callbacks", PROTO) if a.kind in ("subdel", "substore", "store")]
    where = sorted({(a.fi.name, a.kind) for a in ws})
    ctx.check(where == sorted({("__init__", "store"), ("disconnect", "store"), ("_build_packet_impl", "substore"), ("_handle_ack", "subdel"), ("_handle_timeout", "subdel")}),
              "C07.R1", ack, "writers of pending_callbacks", witness=where)
    # registration: one pending_acks entry and one callback list per built datagram, keyed by the new seq
    bpi = ctx.fn("connection:ConnectionBase._build_packet_impl")
    regs = [n for n in walk_own(bpi.node) if isinstance(n, ast.Assign) and norm(n.targets[0]) in ("self.pending_acks[self.seq_sending]", "self.pending_callbacks[self.seq_sending]")]
    got = sorted((norm(n.targets[0]), norm(n.value)) for n in regs)
    ctx.check(got == [("self.pending_acks[self.seq_sending]", bpi.params[1]), ("self.pending_callbacks[self.seq_sending]", "callbacks")], "C07.R1", bpi,
              "each built datagram registers its send time and its callbacks under its own sequence number", witness=got)


def _parents(node, stop):
    out = []
    p = getattr(node, "_parent", None)
    while p is not None and p is not stop:
        out.append(p)
        p = getattr(p, "_parent", None)
    return out


def r2(ctx):
    bits = ctx.fn(BITS)
    cfg = cfg_of(bits)
    hp = bits.params[1]
    acks = calls_named(bits, "_handle_ack")
    if ctx.require("C07.R2", bits, "_handle_ack call in _handle_ack_bits", len(acks), 1):
        # diff := hdr.ack.diff(seqnum); every call of _handle_ack is control-dependent on a test of that offset against 0 or of
        # the peer's bitmap (the exact geometry of the test is decided on cells by the shared rule C08.R4 = C07.R9)
        for c in acks:
            dv = None
            for n in walk_own(bits.node):
                if isinstance(n, ast.Assign) and isinstance(n.value, ast.Call) and norm(n.value.func) == "%s.ack.diff" % hp and norm(n.value.args[0]) == norm(c.args[0]):
                    dv = norm(n.targets[0])
            # edge cut: without the true-outcomes of the leaf tests `diff == 0` and `... hdr.ack_bits ...` no path reaches the call
            cut = {}
            for n in cfg.nodes:
                if n.kind == "test" and n.ast is not None:
                    t = norm(n.ast)
                    if dv is not None and t in ("%s == 0" % dv, "0 == %s" % dv):
                        cut[n.id] = "T"
                    elif dv is not None and t in ("%s != 0" % dv, "0 != %s" % dv):
                        cut[n.id] = "F"
                    elif ("%s.ack_bits" % hp) in t:
                        cut[n.id] = "T"
            reach = cfg.reachable(cfg.entry, edge_ok=lambda a, b_, label: not (a.id in cut and label == cut[a.id]))
            ok = dv is not None and bool(cut) and cfg.node_of(c).id not in reach
            ctx.check(ok, "C07.R2", bits, "success is reported only under the ack test on the peer's (ack, ack_bits)",
                      witness=[norm(cfg.nodes[k].ast) for k in cut], line=c.lineno)
    tms = calls_named(bits, "_handle_timeout")
    for c in tms:
        conds = [(norm(t), p) for (t, p) in cfg.conditions_of(cfg.node_of(c).id)]
        ok = any(re.match(r"^self\.outgoing_timeout < .* - self\.pending_acks\[%s\]$" % re.escape(norm(c.args[0])), t) and p or
                 re.match(r"^.* - self\.pending_acks\[%s\] >=? self\.outgoing_timeout$" % re.escape(norm(c.args[0])), t) and p for (t, p) in conds)
        ctx.check(ok, "C07.R2", bits, c, "failure is reported only after the datagram's age exceeded the message timeout", witness=conds, line=c.lineno)
    # the two other timeout callers are checked by C05.R4 (_timeout_loop); repeat the comparison shape here
    from .c05 import _timeout_loop
    sub = _Sub(ctx, "C07.R2")
    _timeout_loop(sub, ctx.fn("connection:ConnectionBase._check_timeout"), "C07.R2")
    _timeout_loop(sub, ctx.fn("connection:ServerClientConnection.update"), "C07.R2")
    # pending_acks[seq] is the construction time of that datagram (checked in R1 registration) and is never refreshed
    ws = [a for a in attr_accesses(ctx.repo, "pending_acks", PROTO) if a.kind == "substore"]
    ctx.check(len(ws) == 1, "C07.R2", "connection:ConnectionBase._build_packet_impl", "the send time of a datagram is written once", witness=[repr(a) for a in ws])
    # _handle_ack_bits is called only for authenticated datagrams
    callers = package_calls(ctx.repo, "_handle_ack_bits")
    where = sorted(f.qual for f, c in callers)
    ctx.check(where == ["connection:ConnectionBase._recv_datagram"], "C07.R2", bits, "callers of _handle_ack_bits", witness=where)
    c01.r4(_Sub(ctx, "C07.R2"))
    for (f, c) in callers:
        ctx.check(len(c.args) == 1 and norm(c.args[0]) == f.params[1], "C07.R2", f, c, "the ack fields come from the header of the authenticated datagram", line=c.lineno)
    # wrappers pass the truth on
    rs = ctx.fn("connection:RetrySender.__call__")
    rcfg = cfg_of(rs)
    for c in [c for c in calls_named(rs, "callback") if norm(c.func) == "self.callback"]:
        conds = [(norm(t), p) for (t, p) in rcfg.conditions_of(rcfg.node_of(c).id)]
        ok = len(c.args) == 1 and norm(c.args[0]) == "True" and (rs.params[1], True) in conds
        ctx.check(ok, "C07.R2", rs, c, "a guaranteed send reports True only on the success path", witness=conds, line=c.lineno)
    fs = ctx.fn("connection:FragmentSender.callback")
    for c in [c for c in calls_named(fs, "user_callback") if norm(c.func) == "self.user_callback"]:
        ok = len(c.args) == 1 and norm(c.args[0]) == "all(self.acks)"
        ctx.check(ok, "C07.R2", fs, c, "a fragmented send reports success iff every fragment was acked", witness=norm(c), line=c.lineno)
    for n in walk_own(fs.node):
        if isinstance(n, ast.Assign) and norm(n.targets[0]) == "self.acks[%s]" % fs.params[1]:
            ctx.check(norm(n.value) == fs.params[2], "C07.R2", fs, n, "a fragment's result is the verdict of its datagram", line=n.lineno)


def r3(ctx):
    rs = ctx.fn("connection:RetrySender.__call__")
    init = ctx.fn("connection:RetrySender.__init__")
    cfg = cfg_of(rs)
    bpi = ctx.fn("connection:ConnectionBase._build_packet_impl")
    # the hazard exists: resend-origin messages register their callback again
    reg = [c for c in calls_named(bpi, "append") if norm(c.func.value) == "callbacks"]
    loop_over_msgs = any(isinstance(p, ast.For) and norm(p.iter) == "msgs" for c in reg for p in _parents(c, bpi.node))
    user = [c for c in calls_named(rs, "callback") if norm(c.func) == "self.callback"]
    if not ctx.require("C07.R3", rs, "self.callback(...) call in RetrySender.__call__", len(user), 1):
        return
    if not loop_over_msgs:
        ctx.holds("C07.R3", bpi, "callbacks are not registered for every message of a datagram", "registration shape changed: one-shot hazard not present")
        return
    # one-shot flag: an attribute F with  self.F = False in __init__,  tested false on the way to the user callback and set true before it
    flags = {norm(n.targets[0]) for n in walk_own(init.node) if isinstance(n, ast.Assign) and norm(n.value) == "False" and norm(n.targets[0]).startswith("self.")}
    U = cfg.node_of(user[0])
    conds = [(norm(t), p) for (t, p) in cfg.conditions_of(U.id)]
    tested = [f for f in flags if (f, False) in conds or ("not %s" % f, True) in conds]
    sets = [n for n in cfg.stmts((ast.Assign,)) if norm(n.ast.targets[0]) in tested and norm(n.ast.value) == "True"]
    # the set must happen on every path that calls the callback: set node dominates U, or U dominates the set and nothing can raise in between
    ok = bool(tested) and bool(sets) and any(cfg.dominates(s.id, U.id) for s in sets)
    ctx.check(ok, "C07.R3", rs, "success path tests and sets a one-shot flag before notifying the user",
              "the message can be carried by several datagrams (interval resend): each registers this sender; only the first ack may notify",
              witness={"def_use_path": "pending_retry_msg -> msgs -> callbacks.append(msg.callback)", "flags_initialised": sorted(flags), "conditions_at_callback": conds},
              line=user[0].lineno)
    pms = calls_named(rs, "PendingMessage")
    for pm in pms:
        c2 = [(norm(t), p) for (t, p) in cfg.conditions_of(cfg.node_of(pm).id)]
        ok2 = any((f, False) in c2 or ("not %s" % f, True) in c2 for f in tested)
        ctx.check(ok2, "C07.R3", rs, "failure path is silenced once the message was acked", "a datagram timing out after another copy was acked must not queue the message again",
                  witness=c2, line=pm.lineno)
    ws = [a for a in attr_accesses(ctx.repo, "done") if a.kind in ("store",) and a.fi.cls is not None and a.fi.cls.name == "RetrySender"] if "self.done" in tested else []
    if ws:
        ctx.check(sorted(a.fi.name for a in ws) == ["__call__", "__init__"], "C07.R3", rs, "the flag is written only by __init__ and __call__", witness=[a.fi.qual for a in ws])


def r4(ctx):
    repo = ctx.repo
    slots = [("callback", "PendingMessage"), ("callback", "RetrySender"), ("user_callback", "FragmentSender"), ("connection_callback", "ClientServerConnection")]
    # PendingMessage.callback: flows msg.callback -> callbacks -> pending_callbacks -> cbk(...)
    bpi = ctx.fn("connection:ConnectionBase._build_packet_impl")
    reg = [c for c in calls_named(bpi, "append") if norm(c.func.value) == "callbacks" and norm(c.args[0]).endswith(".callback")]
    ctx.check(len(reg) == 1, "C07.R4", bpi, "msg.callback is registered for the datagram that carries the message", witness=[norm(c) for c in reg])
    if reg:
        ifs = [p for p in _parents(reg[0], bpi.node) if isinstance(p, ast.If)]
        ok = all(norm(i.test) == norm(reg[0].args[0]) for i in ifs[:1]) and len([p for p in _parents(reg[0], bpi.node) if isinstance(p, ast.If)]) == 1
        ctx.check(ok, "C07.R4", bpi, "registration is conditional only on the callback being set", witness=[norm(i.test) for i in ifs])
    for (attr, cls) in slots[1:]:
        calls = [(f, c) for (f, c) in package_calls(repo, attr) if isinstance(c.func, ast.Attribute) and f.cls is not None and
                 any(k.name == cls for k in repo.mro(f.cls)) and norm(c.func.value) == "self"]
        ctx.check(len(calls) >= 1, "C07.R4", "connection:%s" % cls, "stored callback self.%s is called" % attr,
                  "a completion callback that is stored but never called can never fire", witness=[f.qual for f, c in calls])
        for (f, c) in calls:
            cfg = cfg_of(f)
            conds = [(norm(t), p) for (t, p) in cfg.conditions_of(cfg.node_of(c).id)]
            ctx.check(("self.%s" % attr, True) in conds, "C07.R4", f, c, "the optional callback is called only when set", witness=conds, line=c.lineno)
    # FragmentSender: called exactly when every fragment is resolved, once
    fs = ctx.fn("connection:FragmentSender.callback")
    cfg = cfg_of(fs)
    uc = [c for c in calls_named(fs, "user_callback") if norm(c.func) == "self.user_callback"]
    if ctx.require("C07.R4", fs, "self.user_callback(...) in FragmentSender.callback", len(uc), 1):
        U = cfg.node_of(uc[0])
        conds = [(norm(t), p) for (t, p) in cfg.conditions_of(U.id)]
        idx = fs.params[1]
        allres = [t for (t, p) in conds if p and t.startswith("all(") and "is not None" in t and "self.acks" in t]
        allres += [t for (t, p) in conds if not p and t.startswith("any(") and "is None" in t and "self.acks" in t]
        # (a list of None / True / False: `None not in self.acks` is the same test)
        allres += [t for (t, p) in conds if (p and t == "None not in self.acks") or (not p and t == "None in self.acks")]
        allres += [t for (t, p) in conds if (not p and t in ("self.acks.count(None) > 0", "self.acks.count(None) != 0", "self.acks.count(None)")) or (p and t == "self.acks.count(None) == 0")]
        # ... or a search loop that leaves the function at the first unresolved slot and dominates the call
        for L in walk_own(fs.node):
            if isinstance(L, ast.For) and not L.orelse and norm(L.iter) == "self.acks" and isinstance(L.target, ast.Name) and len(L.body) == 1 \
                    and isinstance(L.body[0], ast.If) and not L.body[0].orelse and norm(L.body[0].test) == "%s is None" % L.target.id \
                    and len(L.body[0].body) == 1 and isinstance(L.body[0].body[0], ast.Return) \
                    and not any(p is L for p in _parents(uc[0], fs.node)) and before(fs, L, uc[0]):
                allres.append("for %s in self.acks: if %s is None: return" % (L.target.id, L.target.id))
        ctx.check(bool(allres), "C07.R4", fs, "user callback waits for every fragment to be resolved", witness=conds, line=uc[0].lineno)
        once = ("self.acks[%s] is not None" % idx, False) in conds or ("self.acks[%s] is None" % idx, True) in conds
        ctx.check(once, "C07.R4", fs, "a fragment is resolved at most once (first result wins)", "otherwise the 'all resolved' branch - and the user callback - can run again", witness=conds, line=uc[0].lineno)
        st = [n for n in cfg.stmts((ast.Assign,)) if norm(n.ast.targets[0]) == "self.acks[%s]" % idx]
        ok = len(st) == 1 and cfg.dominates(st[0].id, U.id)
        ctx.check(ok, "C07.R4", fs, "the fragment's result is recorded before the completion test", line=uc[0].lineno)
        # acks sized with the fragments, initialised None
        bld = ctx.fn("connection:FragmentSender.build")
        init = [n for n in walk_own(bld.node) if isinstance(n, ast.Assign) and norm(n.targets[0]) == "self.acks"]
        from .common import sym_text as _sxa
        ctx.check(len(init) == 1 and _sxa(bld, init[0].value, cfg_of(bld).node_of(init[0]), allow_calls=("len",)) == "[None] * len(self.fragments)", "C07.R4", bld,
                  "acks = [None] * len(fragments)", witness=[norm(i.value) for i in init])
    # each fragment's callback is bound to its own index
    for q in ("connection:FragmentSender.build", "connection:FragmentSender.callback"):
        f = ctx.fn(q)
        lams = [n for n in walk_own(f.node) if isinstance(n, ast.Lambda)]
        # (whatever the bound parameter is called: a default argument whose value is the index, handed to self.callback in first place)
        ok = False
        if len(lams) == 1 and lams[0].args.defaults:
            la = lams[0].args
            bound = {a_.arg: norm(d_) for a_, d_ in zip(la.args[len(la.args) - len(la.defaults):], la.defaults)}
            b_ = lams[0].body
            ok = isinstance(b_, ast.Call) and norm(b_.func) == "self.callback" and len(b_.args) == 2 and isinstance(b_.args[0], ast.Name) and bound.get(b_.args[0].id) == "index" \
                and isinstance(b_.args[1], ast.Name) and la.args and b_.args[1].id == la.args[0].arg
        ctx.check(ok, "C07.R4", f, "per-fragment callback binds its own index (default argument)", "a late-bound index would resolve the wrong fragment", witness=[norm(l) for l in lams])
    # connection_callback(False) once on connect timeout: C12.R5


def r_enum(ctx):
    from .common import repo_idioms
    repo_idioms(ctx, "C07.R5", ('connection',))


def r6(ctx):
    """'success only after the peer accepted the whole message': for fragmented sends success is 'every fragment's datagram was
    acked', so the receiver must not discard a partially reassembled message afterwards (shared obligation C05.R7)"""
    from . import c05
    c05.r7(ctx, RULE="C07.R6")


EXPLANATION = EXPLANATION + ' (R5) repository idioms; (R6) = C05.R7: success may be reported for a fragmented message only if the receiver cannot have discarded fragments it acknowledged (known finding on the pinned tree, DESIGN 8.4).'

def r7(ctx):
    """'the callback ... fires exactly once' for every message size: a message (or fragment) that no datagram can ever admit
    stays in the queue for good and its callback never fires - shared capacity obligations C05.R1 (every MTU)"""
    from . import c05
    c05.r1(_Sub(ctx, "C07.R7"))


EXPLANATION = EXPLANATION + " (R7) every queued message or fragment of every size can be admitted into an empty datagram (shared capacity obligations C05.R1): one that cannot is never sent, and its callback never fires."


def r_shared_r8(ctx):
    """ack number and bitmap travel intact in the header, and every message keeps its number (shared C09.R1, C09.R2)"""
    from . import c09 as _m
    from .c02 import _Sub
    for _f in ['r1', 'r2']:
        getattr(_m, _f)(_Sub(ctx, "C07.R8"))


def r_shared_r9(ctx):
    """a pending datagram is resolved as acked exactly when the peer's receive window recorded it: header fill, decode geometry and duplicate cells (shared C08.R4, C08.R5)"""
    from . import c08 as _m
    from .c02 import _Sub
    for _f in ['r4', 'r5']:
        getattr(_m, _f)(_Sub(ctx, "C07.R9"))


EXPLANATION = EXPLANATION + " (R8) ack number and bitmap travel intact in the header, and every message keeps its number (shared C09.R1, C09.R2). (R9) a pending datagram is resolved as acked exactly when the peer's receive window recorded it: header fill, decode geometry and duplicate cells (shared C08.R4, C08.R5)."

def r_shared_r10(ctx):
    """an ack is success only if the peer accepted the message: the datagram is acknowledged before its messages are looked at, so a
    message that _recv_message then drops for any reason other than being a duplicate it has really seen is reported delivered and
    never is (shared C05.R8: the receiver refuses a message only in the DuplicationError handler of BitField.insert)"""
    from . import c05 as _m
    from .c02 import _Sub
    _m.r8(_Sub(ctx, "C07.R10"))


EXPLANATION = EXPLANATION + ' (R10) the receiver drops a message before dispatch only as a duplicate it has really seen (shared C05.R8): the datagram that carried it is acknowledged either way, so any other drop turns into a success report for a message the peer never accepted.'

def r_shared_r11(ctx):
    """a guaranteed send ends with True: the retry chain re-queues on every failure until the first success, fragments are re-sent
    while the caller's mode is not NONE and that remembered mode never changes (shared C05.R3)"""
    from . import c05 as _m
    from .c02 import _Sub
    _m.r3(_Sub(ctx, "C07.R11"))


EXPLANATION = EXPLANATION + (' (R11) the chain that makes a guaranteed send end with True is intact (shared C05.R3): RetrySender re-queues on every failure '
                             'until the first success, FragmentSender re-sends a failed fragment while the mode it was constructed with is not NONE, and nothing '
                             'but the constructors writes a retry mode.')

def r_shared_r12(ctx):
    """a retransmission carries the number the message was first sent under (shared C04.R3): a re-sent message or fragment under a
    number the peer has already recorded is dropped there as a duplicate while its datagram is acknowledged - the callback reports
    True for a message the peer never accepted"""
    from . import c04 as _m
    from .c02 import _Sub
    _m.r3(_Sub(ctx, "C07.R12"))


EXPLANATION = EXPLANATION + (' (R12) every retransmission carries the message number first used, per fragment in fragment order (shared C04.R3): under a number '
                             'the peer has already recorded the copy is dropped as a duplicate while its datagram is acknowledged, and True is reported for a '
                             'message that never arrived.')

RULES = [("C07.R1", r1), ("C07.R2", r2), ("C07.R3", r3), ("C07.R4", r4), ("C07.R5", r_enum), ("C07.R6", r6), ("C07.R7", r7), ("C07.R8", r_shared_r8), ("C07.R9", r_shared_r9),
         ("C07.R10", r_shared_r10), ("C07.R11", r_shared_r11), ("C07.R12", r_shared_r12)]
