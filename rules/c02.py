"""C02 - handshake authenticates the server, agrees one key, promotes on proof of key."""
import ast

from engine.index import norm, walk_own
from engine.cfg import cfg_of
from engine.cond import CondCtx, Lit, satisfiable
from engine.defuse import defuse_of, targets_of, attr_accesses
from engine.fold import UNKNOWN
from .common import (calls_named, package_calls, stmt_effects, node_lits, resolve_arg, enclosing_trys, known_absent)
from . import c01

EXPLANATION = (
    "Static rules over HandshakeServerHelloMessage.serialize/deserialize, ClientServerConnection._recvServerHello, "
    "ServerClientConnection._recvClientHello/_recvChallengeResponse, ServerContext._validateChallengeResponse/_onConnect and "
    "crypto.ecdh_server/ecdh_client. Decides: (R1) signature verification dominates every store of the signed fields, the "
    "fields are decoded from the verified bytes only, and the verifying key is the pinned key whenever one is configured; "
    "(R2) the client adopts key, token and CONNECTED only after the hello decoded (and verified) normally; (R3) no other "
    "package message class can impersonate the server hello; (R4) both HKDF derivations use the same parameters and a 16-byte "
    "key; (R5) promotion is control-dependent on the issued token, and a key-less CHALLENGE_RESP is unreachable (shared with "
    "C01.R5); (R7) the ECDSA verify/sign helpers are thin wrappers around the library primitive; (R8) one key and token per "
    "handshake: a pending handshake is registered only for an address in neither pool (a duplicated or replayed hello cannot "
    "replace the connection whose key the client adopted), the server-side key is written only while handling the client hello, "
    "and the temp pool hands only CHALLENGE_RESP-typed datagrams to the pending connection (shared with C01.R6). Does not decide "
    "ECDSA/ECDH/HKDF soundness; of reordering/duplication of handshake datagrams only the structural part named under R8."
)
ASSUMPTIONS = [
    "EllipticCurvePublicKey.verify raises on every (signature, payload) pair not produced by the matching private key",
    "application Serializable classes registered outside the package are not analysed (C02.R3)",
]

SH = "connection:HandshakeServerHelloMessage"
SIGNED_FIELDS = ("server_pubkey", "salt", "token")


def _self_stores(fi, names):
    cfg = cfg_of(fi)
    out = []
    for n in cfg.stmts((ast.Assign, ast.AugAssign, ast.AnnAssign)):
        for (t, v, how) in targets_of(n.ast):
            if isinstance(t, ast.Attribute) and isinstance(t.value, ast.Name) and t.value.id == "self" and t.attr in names:
                out.append((n, t.attr, v))
    return out


def _names(expr):
    return {n.id for n in ast.walk(expr) if isinstance(n, ast.Name)}


def r1(ctx):
    de = ctx.fn(SH + ".deserialize")
    cfg = cfg_of(de)
    du = defuse_of(de)
    ver = [c for c in calls_named(de, "verify")]
    if not ctx.require("C02.R1", de, "signature verification call (.verify) in HandshakeServerHelloMessage.deserialize", len(ver), 1):
        return
    v = ver[0]
    V = cfg.node_of(v)
    pre = cfg.reachable(cfg.entry, through_effect={V.id})
    stores = _self_stores(de, SIGNED_FIELDS)
    ctx.expect("C02.R1", "stores of signed fields", len(stores), 3)
    if len(v.args) != 2 or not all(isinstance(a, ast.Name) for a in v.args):
        ctx.undecided("C02.R1", de, "verify(signature, payload) shape")
    sig, payload = v.args[0].id, v.args[1].id
    # names derived from the verified payload only
    clean = set()
    stream_param = de.params[1] if len(de.params) > 1 else "stream"
    changed = True
    allowed_free = {"kwargs", "self", "BytesIO", "deserialize_value", "EllipticCurvePublicKey", "crypto"}
    while changed:
        changed = False
        for var, defs in du.defs.items():
            if var in clean or "." in var:
                continue
            ok = True
            for (nid, val, how) in defs:
                if not isinstance(val, ast.AST):
                    ok = False
                    break
                free = _names(val) - allowed_free
                if isinstance(val, ast.Call) and norm(val.func) == "BytesIO" and len(val.args) == 1 and norm(val.args[0]) == payload:
                    continue
                if not free or not free <= clean:
                    ok = False
                    break
            if ok and defs:
                clean.add(var)
                changed = True
    for (n, attr, val) in stores:
        ctx.check(n.id not in pre, "C02.R1", de, "self.%s stored after verify" % attr,
                  "the signed field is stored only after the signature verified", line=n.lineno)
        free = (_names(val) - allowed_free) if isinstance(val, ast.AST) else {"?"}
        ctx.check(bool(free) and free <= clean and stream_param not in free, "C02.R1", de, "self.%s decoded from the verified payload" % attr,
                  "the stored value derives only from the bytes that were verified", witness={"free_names": sorted(free), "verified_derived": sorted(clean)},
                  line=n.lineno)
    # payload / signature are not rebound between verify and use
    ctx.check(len(du.defs.get(payload, [])) == 1 and len(du.defs.get(sig, [])) == 1, "C02.R1", de, "payload and signature bound once",
              "the verified bytes are the decoded bytes")
    # the verifying key
    recv = v.func.value
    cc = CondCtx(ctx.folder, de.module, de.cls)
    from .common import node_lits_sym, sym_expr
    # the alternatives of the receiver's value: a name stands for each of its reaching definitions (under the conditions of the
    # defining statement), a conditional expression for its two arms (under the test and its negation)
    alts = []

    def alternatives(e, nid, lits, depth=0):
        if depth > 6:
            ctx.undecided("C02.R1", de, "verify receiver shape %s" % norm(recv))
        if isinstance(e, ast.IfExp):
            t = sym_expr(de, e.test, cfg.nodes[nid])
            alternatives(e.body, nid, lits + cc.literal(t, True), depth + 1)
            alternatives(e.orelse, nid, lits + cc.literal(t, False), depth + 1)
            return
        if isinstance(e, ast.Name):
            for (d, val, how) in du.reaching(e.id, nid):
                if d == "ENTRY":
                    alts.append((None, lits, 0))
                elif how != "assign" or not isinstance(val, ast.expr):
                    alts.append(("<%s %s>" % (how, e.id), lits + node_lits_sym(de, cfg, d, cc), cfg.nodes[d].lineno))
                else:
                    alternatives(val, d, lits + node_lits_sym(de, cfg, d, cc), depth + 1)
            return
        alts.append((norm(e), lits, cfg.nodes[nid].lineno))
    alternatives(recv, V.id, [])
    n_pinned = 0
    for (txt, lits, line) in alts:
        if txt is None:
            ctx.violated("C02.R1", de, "verifying key unbound", "verify key may be unbound")
        elif txt == "kwargs['server_public_key']":
            n_pinned += 1
            ctx.holds("C02.R1", de, "verify key := pinned key", "the configured server public key verifies the hello")
        else:
            ok = not satisfiable(lits + [Lit("set", "kwargs['server_public_key']", frozenset([repr(None)]), False, "")])
            ctx.check(ok, "C02.R1", de, "verify key := %s only when no key is pinned" % txt,
                      "a key carried in the message may verify it only when the client has no pinned key",
                      witness={"conditions": [repr(l) for l in lits]}, line=line)
    ctx.check(n_pinned >= 1, "C02.R1", de, "pinned key reaches verify", "the pinned key is used when configured")
    # serialize side: signer and signed bytes
    se = ctx.fn(SH + ".serialize")
    signs = calls_named(se, "sign")
    if not ctx.require("C02.R1", se, "signing call (.sign) in HandshakeServerHelloMessage.serialize", len(signs), 1):
        return
    s = signs[0]
    from .common import sym_text
    signer = sym_text(se, s.func.value, cfg_of(se).node_of(s))
    ctx.check(signer == "kwargs['server_root_key']", "C02.R1", se, "signer is the server root key", "hello is signed with the root key",
              witness=signer, line=s.lineno)
    signed = resolve_arg(se, s.args[0], s) if s.args else None
    temp = None
    if isinstance(signed, ast.Call) and norm(signed.func).endswith(".getvalue") and isinstance(signed.func.value, ast.Name):
        temp = signed.func.value.id
    written = []
    outer = []
    sp = se.params[1]
    for c in calls_named(se, "serialize_value"):
        if c.args and isinstance(c.args[0], ast.Name):
            if c.args[0].id == temp:
                written.append([a for a in SIGNED_FIELDS if ("self.%s" % a) in norm(c.args[1])])
            elif c.args[0].id == sp:
                outer.append(norm(resolve_arg(se, c.args[1], c)))
    ctx.check(temp is not None and written == [[f] for f in SIGNED_FIELDS], "C02.R1", se, "signed bytes carry (server_pubkey, salt, token)",
              "exactly the key-exchange fields are signed, in the order deserialize reads them", witness=written, line=s.lineno)
    read_order = []
    for c in calls_named(de, "deserialize_value"):
        p = c._parent
        if c.args and norm(c.args[0]) == stream_param and isinstance(p, ast.Assign):
            read_order.append(norm(p.targets[0]))
    ok = len(outer) == 3 and len(read_order) == 3 and outer[1].endswith(".getvalue()") and ".sign(" in outer[2] \
        and read_order[1] == payload and read_order[2] == sig
    ctx.check(ok, "C02.R1", se, "outer layout (root_pubkey, payload, signature) matches the reader",
              "writer and reader agree on which bytes are the signed payload and which the signature",
              witness={"written": outer, "read": read_order})


def r2(ctx):
    fi = ctx.fn("connection:ClientServerConnection._recvServerHello")
    cfg = cfg_of(fi)
    loads = [c for c in calls_named(fi, "loadb")]
    if not ctx.require("C02.R2", fi, "Serializable.loadb call in _recvServerHello", len(loads), 1):
        return
    L = loads[0]
    kw = {k.arg: norm(k.value) for k in L.keywords}
    ctx.check(kw.get("server_public_key") == "self.server_public_key", "C02.R2", fi, L,
              "the hello is decoded with the connection's pinned server public key", witness=kw, line=L.lineno)
    N = cfg.node_of(L)
    pre = cfg.reachable(cfg.entry, through_effect={N.id})
    bad = []
    for nid in sorted(pre):
        n = cfg.nodes[nid]
        if n.ast is None or nid == N.id or n.kind != "stmt":
            continue
        for (kind, text, node) in stmt_effects(n.ast):
            if kind == "store" and text == "self.status" and norm(n.ast.value).endswith("DISCONNECTED"):
                continue
            bad.append((n, kind, text))
    for (n, kind, text) in bad:
        ctx.violated("C02.R2", fi, n.ast, "state change before (or without) a verified server hello",
                     witness={"effect": "%s %s" % (kind, text)}, line=n.lineno)
    if not bad:
        ctx.holds("C02.R2", fi, "no key/token/status adoption before verification",
                  "only `status = DISCONNECTED` is reachable without normal completion of loadb")
    must_after = {"self.session_key_bytes": 0, "self.token": 0, "self.status": 0}
    for n in cfg.stmts((ast.Assign,)):
        for (t, v, how) in targets_of(n.ast):
            if norm(t) in must_after and n.id not in pre:
                must_after[norm(t)] += 1
    ctx.check(all(v >= 1 for v in must_after.values()), "C02.R2", fi, "key, token and status are adopted after verification",
              "the three adoptions exist and are dominated by the verified decode", witness=must_after)
    cb = [c for c in calls_named(fi, "connection_callback")]
    for c in cb:
        ctx.check(cfg.node_of(c).id not in pre, "C02.R2", fi, c, "the connect callback fires only after verification", line=c.lineno)
    # ecdh arguments
    ec = calls_named(fi, "ecdh_client")
    if not ctx.require("C02.R2", fi, "crypto.ecdh_client call in _recvServerHello", len(ec), 1):
        return
    msgvar = L._parent.targets[0].id if isinstance(L._parent, ast.Assign) and isinstance(L._parent.targets[0], ast.Name) else "msg"
    args = [norm(a) for a in ec[0].args]
    # (a value read back from the attribute it was stored in one statement earlier is that value: self.session_salt = msg.salt)
    for k_, a_ in enumerate(args):
        if a_.startswith("self.") and a_ != "self.session_key":
            sts = [n for n in cfg.stmts((ast.Assign,)) if len(n.ast.targets) == 1 and norm(n.ast.targets[0]) == a_]
            if len(sts) == 1 and cfg.dominates(sts[0].id, cfg.node_of(ec[0]).id) and sts[0].id != cfg.node_of(ec[0]).id:
                args[k_] = norm(sts[0].ast.value)
    ctx.check(args == ["self.session_key", "%s.server_pubkey" % msgvar, "%s.salt" % msgvar], "C02.R2", fi, ec[0],
              "the session key is derived from the own ephemeral key and the verified server key and salt", witness=args, line=ec[0].lineno)
    p = ec[0]._parent
    ctx.check(isinstance(p, ast.Assign) and norm(p.targets[0]) == "self.session_key_bytes", "C02.R2", fi, "session_key_bytes := ecdh_client(...)",
              "the adopted key is the derived key")
    # pinned key writers
    writers = [a for a in attr_accesses(ctx.repo, "server_public_key") if a.kind in ("store", "aug")
               and a.fi.cls is not None and a.fi.cls.name in ("ClientServerConnection",)]
    ok = all(a.fi.name in ("__init__", "setServerPublicKey") for a in writers)
    ctx.check(ok and len(writers) >= 2, "C02.R2", "connection:ClientServerConnection", "writers of server_public_key",
              "the pinned key is written only by __init__ and setServerPublicKey", witness=[a.fi.qual for a in writers])
    foreign = [a for a in attr_accesses(ctx.repo, "server_public_key") if a.kind in ("store", "aug") and a.recv != "self"]
    ctx.check(not foreign, "C02.R2", "connection:ClientServerConnection", "no foreign writer of server_public_key",
              "no other object overwrites the pinned key", witness=[repr(a) for a in foreign])
    # client passes its configured key
    cn = ctx.fn("client:UdpClient.connect")
    sp = calls_named(cn, "setServerPublicKey")
    ctx.check(len(sp) == 1 and norm(sp[0].args[0]) == "self.server_public_key", "C02.R2", cn, "UdpClient.connect pins the configured key",
              "the key given to UdpClient is the key the connection pins")


def _serializable_fields(ctx):
    """package Serializable subclasses -> set of annotated public field names"""
    repo = ctx.repo
    out = {}
    for ci in repo.classes.values():
        if any(c.name == "Serializable" for c in repo.mro(ci)[1:]):
            fields = set()
            for c in repo.mro(ci):
                for st in c.node.body:
                    if isinstance(st, ast.AnnAssign) and isinstance(st.target, ast.Name) and not st.target.id.startswith("_"):
                        fields.add(st.target.id)
                    elif isinstance(st, ast.Assign):
                        for t in st.targets:
                            if isinstance(t, ast.Name) and not t.id.startswith("_") and t.id != "type_id":
                                fields.add(t.id)
            out[ci.qual] = fields
    return out


def r3(ctx):
    fields = _serializable_fields(ctx)
    ctx.expect("C02.R3", "package Serializable classes", len(fields), 4)
    imp = [q for q, f in fields.items() if set(SIGNED_FIELDS) <= f]
    ctx.check(imp == [SH], "C02.R3", SH, "classes exposing (token, salt, server_pubkey)",
              "only the signed server hello can supply the fields _recvServerHello adopts", witness=imp)
    # and that class cannot skip verification: its deserialize is the one checked by R1 (no subclass overrides it)
    subs = [c.qual for c in ctx.repo.subclasses(ctx.repo.cls(SH))]
    ctx.check(not subs, "C02.R3", SH, "no subclass of the server hello", "no subclass overrides the verifying deserialize", witness=subs)


def _hkdf(ctx, fi):
    calls = calls_named(fi, "HKDF")
    ctx.expect("C02.R4", "HKDF call in %s" % fi.name, len(calls), 1)
    c = calls[0]
    kw = {k.arg: k.value for k in c.keywords}
    return c, kw


def r4(ctx):
    sv = ctx.fn("crypto:ecdh_server")
    cl = ctx.fn("crypto:ecdh_client")
    cs, ks = _hkdf(ctx, sv)
    cc, kc = _hkdf(ctx, cl)
    for name in ("algorithm", "length", "info"):
        a, b = ks.get(name), kc.get(name)
        ctx.check(a is not None and b is not None and norm(a) == norm(b), "C02.R4", sv, "HKDF %s agrees" % name,
                  "both sides derive with the same %s" % name, witness={"server": norm(a), "client": norm(b)})
    ln = ctx.folder.fold(ks["length"], sv.module) if "length" in ks else UNKNOWN
    ctx.check(ln == 16, "C02.R4", sv, "HKDF length == 16", "the session key is 16 bytes", witness=str(ln))
    # shared secret = own.key.exchange(ec.ECDH(), peer.key)
    for fi, own, peer in ((sv, sv.params[0], sv.params[1]), (cl, cl.params[0], cl.params[1])):
        ex = calls_named(fi, "exchange")
        ok = len(ex) == 1 and norm(ex[0].func.value) == "%s.key" % own and len(ex[0].args) == 2 and norm(ex[0].args[1]) == "%s.key" % peer
        ctx.check(ok, "C02.R4", fi, "ECDH exchange(own private, peer public)", "the shared secret is computed from the right keys",
                  witness=[norm(e) for e in ex])
        der = calls_named(fi, "derive")
        ok = len(der) == 1 and isinstance(ex[0]._parent, ast.Assign) and norm(der[0].args[0]) == norm(ex[0]._parent.targets[0])
        ctx.check(ok, "C02.R4", fi, "HKDF derives from the ECDH secret", "the key material is the exchanged secret")
    # salt flow: server returns (salt used, key); client passes msg.salt
    ctx.check(norm(ks.get("salt")) == "salt" and norm(kc.get("salt")) == cl.params[2], "C02.R4", sv, "salt arguments",
              "server uses the fresh salt it returns, client uses the salt parameter", witness={"server": norm(ks.get("salt")), "client": norm(kc.get("salt"))})
    rets = [n for n in walk_own(sv.node) if isinstance(n, ast.Return)]
    ok = len(rets) == 1 and isinstance(rets[0].value, ast.Tuple) and norm(rets[0].value.elts[0]) == "salt"
    ctx.check(ok, "C02.R4", sv, "ecdh_server returns (salt, key)", "the salt sent to the client is the salt used")
    saltdef = [n for n in walk_own(sv.node) if isinstance(n, ast.Assign) and norm(n.targets[0]) == "salt"]
    ok = len(saltdef) == 1 and norm(saltdef[0].value).startswith("os.urandom(")
    ctx.check(ok, "C02.R4", sv, "salt := os.urandom", "fresh random salt per handshake")
    # server side wiring in _recvClientHello
    ch = ctx.fn("connection:ServerClientConnection._recvClientHello")
    es = calls_named(ch, "ecdh_server")
    ctx.expect("C02.R4", "ecdh_server call", len(es), 1)
    # by value: on every path that calls ecdh_server, the attributes and the reply fields hold the elements of that one call
    # (however they travel: tuple unpacking into the attributes, through temporaries, or read back from the attributes)
    from .common import sym_paths
    paths = sym_paths(ch)
    if paths is None:
        ctx.undecided("C02.R4", ch, "_recvClientHello is outside the straight-line fragment: the flow of the derived key cannot be followed")
        return
    live = [(c, env, r) for (c, env, r) in paths if "ecdh_server(" in " ".join(env.values())]
    ctx.check(len(live) >= 1, "C02.R4", ch, "a path of _recvClientHello calls ecdh_server")
    for (c, env, r) in live:
        def elem(text, i):
            try:
                e = ast.parse(text, mode="eval").body
            except SyntaxError:
                return None
            if isinstance(e, ast.Subscript) and isinstance(e.slice, ast.Constant) and e.slice.value == i and isinstance(e.value, ast.Call) and norm(e.value.func).endswith("ecdh_server"):
                return e.value
            return None
        c0, c1 = elem(env.get("self.session_salt", ""), 0), elem(env.get("self.session_key_bytes", ""), 1)
        ok = c0 is not None and c1 is not None and norm(c0) == norm(c1)
        ctx.check(ok, "C02.R4", ch, "(session_salt, session_key_bytes) := ecdh_server(...)",
                  "the server adopts the derived key and remembers the salt", witness={k: env.get(k) for k in ("self.session_salt", "self.session_key_bytes")})
        if ok:
            args = [norm(a) for a in c1.args]
            ctx.check(len(args) == 2 and args[0] == "self.session_key" and args[1].endswith(".client_pubkey"), "C02.R4", ch,
                      "ecdh_server(own ephemeral key, client public key)", "arguments", witness=args)
        got = {k.rsplit(".", 1)[1]: v for k, v in env.items() if "." in k and k.rsplit(".", 1)[1] in ("salt", "server_pubkey", "token") and not k.startswith("self.")}
        # (fields given to the constructor by keyword: Serializable.__init__ stores the keyword arguments that name fields)
        for k, v in env.items():
            if "." in k or "HandshakeServerHelloMessage(" not in v:
                continue
            try:
                e = ast.parse(v, mode="eval").body
            except SyntaxError:
                continue
            if isinstance(e, ast.Call) and norm(e.func).endswith("HandshakeServerHelloMessage") and not e.args:
                for kw in e.keywords:
                    if kw.arg in ("salt", "server_pubkey", "token") and kw.arg not in got:
                        got[kw.arg] = norm(kw.value)
                si = ctx.fn("serializable:Serializable.__init__")
                kwp = si.node.args.kwarg.arg if si.node.args.kwarg else None
                sets = [c_ for lp in walk_own(si.node) if isinstance(lp, ast.For) and kwp and norm(lp.iter) == "%s.items()" % kwp and isinstance(lp.target, ast.Tuple) and len(lp.target.elts) == 2
                        for c_ in ast.walk(lp) if isinstance(c_, ast.Call) and norm(c_.func) == "setattr" and [norm(a_) for a_ in c_.args] == ["self", norm(lp.target.elts[0]), norm(lp.target.elts[1])]]
                ctx.check(len(sets) == 1, "C02.R4", si, "Serializable.__init__ stores its keyword arguments as attributes", "the reply's fields are given to the constructor by keyword")
        want = {"salt": env.get("self.session_salt"), "server_pubkey": "self.session_key.getPublicKey()", "token": env.get("self.token")}
        ctx.check(got == want and want["token"] is not None, "C02.R4", ch,
                  "reply carries the salt used, the ephemeral public key and the issued token", "reply fields", witness=got)
    dm = calls_named(ch, "dumpb")
    ok = len(dm) == 1 and {k.arg: norm(k.value) for k in dm[0].keywords} == {"server_root_key": "self.ctxt.server_root_key"}
    ctx.check(ok, "C02.R4", ch, "reply signed with the context's root key", "dumpb(server_root_key=self.ctxt.server_root_key)")


def r5(ctx):
    fi = ctx.fn("connection:ServerClientConnection._recvChallengeResponse")
    cfg = cfg_of(fi)
    cc = CondCtx(ctx.folder, fi.module, fi.cls)
    val = calls_named(fi, "_validateChallengeResponse")
    if not ctx.require("C02.R5", fi, "_validateChallengeResponse call in _recvChallengeResponse", len(val), 1):
        return
    v = val[0]
    ctx.check(len(v.args) == 2 and norm(v.args[0]) == "self" and norm(v.args[1]).endswith(".token"), "C02.R5", fi, v,
              "validation receives this connection and the token carried by the response", line=v.lineno)
    vtext = norm(v)
    promos = []
    for n in cfg.stmts((ast.Assign, ast.Expr)):
        if isinstance(n.ast, ast.Assign) and norm(n.ast.targets[0]) == "self.status" and norm(n.ast.value).endswith(".CONNECTED"):
            promos.append(n)
        if isinstance(n.ast, ast.Expr) and isinstance(n.ast.value, ast.Call) and norm(n.ast.value.func).endswith("._onConnect"):
            promos.append(n)
    ctx.expect("C02.R5", "promotion statements", len(promos), 2)
    for n in promos:
        conds = cfg.conditions_of(n.id)
        ok = any(norm(t) == vtext and pol for (t, pol) in conds)
        ctx.check(ok, "C02.R5", fi, n.ast, "promotion is control-dependent on the validated challenge response", line=n.lineno)
    # package-wide: CONNECTED stores on server connections only here
    stores = [a for a in attr_accesses(ctx.repo, "status") if a.kind == "store" and isinstance(a.stmt, ast.Assign)
              and norm(a.stmt.value).endswith(".CONNECTED") and a.fi.module.name in ("connection", "server", "context", "twisted", "client")]
    where = sorted(a.fi.qual for a in stores)
    ctx.check(where == ["connection:ClientServerConnection._recvServerHello", "connection:ServerClientConnection._recvChallengeResponse"],
              "C02.R5", fi, "status = CONNECTED stores in the protocol modules", "connections become CONNECTED only at the two handshake completion points",
              witness=where)
    # _validateChallengeResponse
    vf = ctx.fn("context:ServerContext._validateChallengeResponse")
    vcfg = cfg_of(vf)
    vcc = CondCtx(ctx.folder, vf.module, vf.cls)
    cparam, tparam = vf.params[1], vf.params[2]
    trues = [n for n in vcfg.stmts((ast.Return,)) if n.ast.value is not None and not (isinstance(n.ast.value, ast.Constant) and not n.ast.value.value)]
    ctx.expect("C02.R5", "truthy returns of _validateChallengeResponse", len(trues), 1)
    du = defuse_of(vf)
    for n in trues:
        ok = False
        if isinstance(n.ast.value, ast.Constant) and n.ast.value.value is True:
            for (t, pol) in vcfg.conditions_of(n.id):
                if isinstance(t, ast.Compare) and len(t.ops) == 1 and ((pol and isinstance(t.ops[0], ast.Eq)) or (not pol and isinstance(t.ops[0], ast.NotEq))):
                    sides = {norm(t.left), norm(t.comparators[0])}
                    other = [s for s in sides if s.endswith(".token")]
                    if tparam in sides and other:
                        ov = other[0][:-len(".token")]
                        src = resolve_arg(vf, ast.Name(id=ov, ctx=ast.Load()), t)
                        src_t = norm(src)
                        if src_t.startswith("self.temp_connections.get(%s.addr" % cparam) or src_t == "self.temp_connections[%s.addr]" % cparam:
                            ok = True
        ctx.check(ok, "C02.R5", vf, n.ast, "returns True only when the token equals the token of the temp connection registered for that address",
                  line=n.lineno)
    # _onConnect
    oc = ctx.fn("context:ServerContext._onConnect")
    ocfg = cfg_of(oc)
    occ = CondCtx(ctx.folder, oc.module, oc.cls)
    ins = [n for n in ocfg.stmts((ast.Assign,)) if norm(n.ast.targets[0]).startswith("self.connections[")]
    ctx.expect("C02.R5", "insertions into connections in _onConnect", len(ins), 1)
    for n in ins:
        lits = node_lits(ocfg, n.id, occ)
        ok = any(l.kind == "atom" and l.positive and l.subject == "%s.addr in self.temp_connections" % oc.params[1] for l in lits)
        ctx.check(ok, "C02.R5", oc, n.ast, "a client enters the connected pool only from the temp pool", line=n.lineno)
        ctx.check(norm(n.ast.targets[0]) == "self.connections[%s.addr]" % oc.params[1] and norm(n.ast.value) == oc.params[1], "C02.R5", oc,
                  "connections[client.addr] = client", "the promoted object is the validated connection, keyed by its address", line=n.lineno)
    # token provenance
    ch = ctx.fn("connection:ServerClientConnection._recvClientHello")
    writers = [a for a in attr_accesses(ctx.repo, "token") if a.kind in ("store", "aug") and a.fi.cls is not None
               and a.fi.cls.name == "ServerClientConnection" and a.recv == "self"]
    w = sorted((a.fi.name, norm(a.stmt.value)) for a in writers)
    ctx.check(w == [("__init__", "0"), ("_recvClientHello", "self.ctxt.get_token()")], "C02.R5", ch, "writers of the server-side token",
              "the token is issued by get_token during the hello and never rewritten", witness=w)
    foreign = [a for a in attr_accesses(ctx.repo, "token") if a.kind in ("store", "aug") and a.recv not in ("self", "reply")
               and a.fi.module.name in ("connection", "server", "context", "twisted")]
    ctx.check(not foreign, "C02.R5", ch, "no foreign writer of token", "nobody else overwrites a connection's token", witness=[repr(a) for a in foreign])
    # the challenge must have been decrypted under the connection's key: shared obligation C01.R5
    sub = _Sub(ctx, "C02.R5")
    c01.r5(sub)
    c01.r1(sub)
    # the client answers with the token it received
    rs = ctx.fn("connection:ClientServerConnection._recvServerHello")
    tok = [n for n in walk_own(rs.node) if isinstance(n, ast.Assign) and isinstance(n.targets[0], ast.Attribute) and n.targets[0].attr == "token"]
    got = sorted((norm(n.targets[0]), norm(n.value)) for n in tok)
    ctx.check(("reply.token", "self.token") in got and any(t == "self.token" and v.endswith(".token") for t, v in got), "C02.R5", rs,
              "client echoes the received token", "challenge response carries the token from the verified hello", witness=got)
    st = calls_named(rs, "_send_type")
    ok = len(st) == 1 and norm(st[0].args[0]).endswith("CHALLENGE_RESP")
    ctx.check(ok, "C02.R5", rs, "challenge response is sent as CHALLENGE_RESP", "packet type")
    # and the key is set before the response can be built (so it is encrypted): key store precedes _send_type
    if ok:
        cfg2 = cfg_of(rs)
        keyst = [n for n in cfg2.stmts((ast.Assign,)) if norm(n.ast.targets[0]) == "self.session_key_bytes"]
        ctx.check(bool(keyst) and all(cfg2.dominates(k.id, cfg2.node_of(st[0]).id) for k in keyst[:1]), "C02.R5", rs,
                  "key adopted before the challenge response is queued", "the response is sealed under the new key")


class _Sub(object):
    """re-labels the obligations of a shared rule under another rule id"""

    def __init__(self, ctx, rule):
        self._ctx = ctx
        self._rule = rule

    def __getattr__(self, name):
        return getattr(self._ctx, name)

    def holds(self, rule, *a, **k):
        return self._ctx.holds(self._rule, *a, **k)

    def violated(self, rule, *a, **k):
        return self._ctx.violated(self._rule, *a, **k)

    def check(self, ok, rule, *a, **k):
        return self._ctx.check(ok, self._rule, *a, **k)

    def expect(self, rule, *a, **k):
        return self._ctx.expect(self._rule, *a, **k)

    def undecided(self, rule, *a, **k):
        return self._ctx.undecided(self._rule, *a, **k)

    def require(self, rule, *a, **k):
        return self._ctx.require(self._rule, *a, **k)


def r_idioms(ctx):
    from .common import repo_idioms
    repo_idioms(ctx, "C02.R6", ('connection', 'crypto', 'context'))


def r7(ctx):
    """the signature helpers are thin wrappers around the library's ECDSA verify / sign"""
    from .common import thin_wrapper
    thin_wrapper(ctx, "C02.R7", "crypto:EllipticCurvePublicKey.verify", "verify", (1, 2), returns=False)
    thin_wrapper(ctx, "C02.R7", "crypto:EllipticCurvePrivateKey.sign", "sign", (1,))
    v = ctx.fn("crypto:EllipticCurvePublicKey.verify")
    s_ = ctx.fn("crypto:EllipticCurvePrivateKey.sign")
    for fi in (v, s_):
        c = [x for x in walk_own(fi.node) if isinstance(x, ast.Call) and isinstance(x.func, ast.Attribute) and x.func.attr in ("verify", "sign")][0]
        ctx.check(norm(c.func.value) == "self.key" and norm(c.args[-1]) == "ec.ECDSA(hashes.SHA256())", "C02.R7", fi, "%s uses self.key with ECDSA/SHA-256" % fi.name, witness=norm(c))

def r8(ctx):
    """one key and one token per handshake: a pending handshake's connection object (whose ephemeral key and token the client
    has adopted from the first server hello) is never replaced or re-keyed by a duplicated / replayed hello"""
    fi = ctx.fn("server:UdpServerThread.run")
    stores = []
    for f in ctx.repo.all_functions():
        if f.module.name not in ("server", "context", "connection", "twisted"):
            continue
        for n in walk_own(f.node):
            if isinstance(n, ast.Subscript) and isinstance(n.ctx, ast.Store) and isinstance(n.value, ast.Attribute) and n.value.attr == "temp_connections":
                stores.append((f, n))
    if not ctx.require("C02.R8", fi, "registration of a pending handshake (temp_connections[addr] = ...)", len(stores), 1):
        return
    for f, n in stores:
        cfg = cfg_of(f)
        cc = CondCtx(ctx.folder, f.module, f.cls)
        lits = node_lits(cfg, cfg.node_of(n).id, cc)
        key = norm(n.slice)
        pool = norm(n.value)
        conn = pool[:-len("temp_connections")] + "connections"
        not_temp = known_absent(f, cfg, cc, n, key, pool)
        not_conn = known_absent(f, cfg, cc, n, key, conn)
        ctx.check(not_temp, "C02.R8", f, n, "a pending handshake is registered only for an address with no pending handshake "
                  "(a duplicated hello cannot replace the key and token the client already adopted)", witness=[repr(l) for l in lits], line=n.lineno)
        ctx.check(not_conn, "C02.R8", f, n, "a pending handshake is registered only for an address that is not connected",
                  witness=[repr(l) for l in lits], line=n.lineno)
    # the server-side key is derived once per connection object: only _recvClientHello writes it, and the temp branch never
    # delivers a hello to an existing object (shared pool-branch obligations of C01.R6)
    writers = [a for a in attr_accesses(ctx.repo, "session_key_bytes") if a.kind in ("store", "aug") and a.fi.cls is not None
               and a.fi.cls.name == "ServerClientConnection"]
    w = sorted(a.fi.name for a in writers)
    ctx.check(w == ["__init__", "_recvClientHello"], "C02.R8", "connection:ServerClientConnection", "writers of the server-side session key",
              "the key is derived only while handling the client hello", witness=w)
    sub = _Sub(ctx, "C02.R8")
    c01.r6(sub)


def r9(ctx):
    """one ephemeral key per connection object: `session_key` (the private half whose public half travels in the hello, and which
    the ECDH on the answer uses) is written by the two constructors only.  A key that is regenerated when a hello is sent again
    makes the client derive, from the server's answer to the *first* hello, a session key the server does not hold: both sides
    consider themselves half-way connected under different keys."""
    writers = []
    for f in ctx.repo.funcs.values():
        if f.is_lambda or f.module.name not in ("connection", "client", "server", "context"):
            continue
        for n in walk_own(f.node):
            tg = n.targets if isinstance(n, ast.Assign) else [n.target] if isinstance(n, (ast.AugAssign, ast.AnnAssign)) else []
            for t in tg:
                for x in ast.walk(t):
                    if isinstance(x, ast.Attribute) and x.attr == "session_key" and isinstance(x.ctx, ast.Store):
                        writers.append((f.qual, norm(n.value) if getattr(n, "value", None) is not None else ""))
        for c in walk_own(f.node):
            if isinstance(c, ast.Call) and isinstance(c.func, ast.Name) and c.func.id == "setattr" and len(c.args) >= 2 and isinstance(c.args[1], ast.Constant) and c.args[1].value == "session_key":
                writers.append((f.qual, "setattr"))
    want = {"connection:ClientServerConnection.__init__", "connection:ServerClientConnection.__init__"}
    ctx.check({w[0] for w in writers} == want and all(w[1] == "EllipticCurvePrivateKey.new()" for w in writers), "C02.R9", ctx.fn("connection:ClientServerConnection.__init__"),
              "the ephemeral key pair of a connection is generated once, in its constructor", "both sides derive the session key from the key pair whose public half was sent", witness=sorted(writers))
    # ... and the hello carries the public half of exactly that key, the ECDH uses its private half
    sh = ctx.fn("connection:ClientServerConnection._sendClientHello")
    pub = [n for n in walk_own(sh.node) if isinstance(n, ast.Assign) and norm(n.targets[0]).endswith(".client_pubkey")]
    ctx.check(len(pub) == 1 and norm(pub[0].value) == "self.session_key.getPublicKey()", "C02.R9", sh, "the client hello carries the public half of self.session_key", witness=[norm(p_) for p_ in pub])


EXPLANATION = EXPLANATION + (" (R9) the ephemeral key pair of a connection is generated once, in its constructor, and the client hello carries its public half: a key "
                             "regenerated for a re-sent hello makes the client derive a key the server does not hold from the answer to the first hello.")

RULES = [("C02.R1", r1), ("C02.R2", r2), ("C02.R3", r3), ("C02.R4", r4), ("C02.R5", r5), ("C02.R6", r_idioms), ("C02.R7", r7), ("C02.R8", r8), ("C02.R9", r9)]
