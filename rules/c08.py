"""C08 - sequence-number ring and receive-window bookkeeping are exact."""
import ast

from engine.index import norm, walk_own, Undecided, clone_expr
from engine.cfg import cfg_of
from engine.cells import Explorer, Iv, Const, TOP
from engine.embedded import struct_sites, fmt_fields, INT_RANGE
from engine.fold import UNKNOWN
from .common import calls_named, package_calls
from . import c04, c01

EXPLANATION = (
    "Per-operation facts decided by interval (comparison-partition) analysis and constant agreement. (R1) SeqNum.__add__/__sub__: "
    "for every raw result in [1-M, 2M] the two wrap adjustments yield a value in [1, M] (never 0) and the net adjustment on every "
    "cell is 0, +M or -M; (R2) SeqNum.diff: for every raw difference in [-(M-1), M-1] the result lies in [-T, T] with adjustment "
    "0/+-M and M == 2T+1; (R3) newer_than/__lt__/__gt__ are defined through diff with the right orientation; (R4) the ack fields "
    "of every built header are the packet window's current number and bitmap, and the decoder's geometry equals the encoder's for "
    "every offset 1..W (W = window width, decode constant = 1 << (W-1), header field at least W bits, bit index (x-1) on all uses, "
    "the window only shifts right); (R5) a number is flagged duplicate exactly when it is the current one or its bit is set inside "
    "the window. Does not decide the sliding-bitmap invariant over arbitrary insertion histories."
)
ASSUMPTIONS = [
    "Python int arithmetic; SeqNum inherits int.__add__/__sub__ (the raw result is the integer sum / difference)",
]

SEQ = "connection:SeqNum"


def _consts(ctx):
    ci = ctx.repo.cls(SEQ)
    M = ctx.folder.class_attr(ci, "_max_sequence")
    T = ctx.folder.class_attr(ci, "_threshold")
    if not isinstance(M, int) or not isinstance(T, int):
        raise Undecided("SeqNum constants do not fold")
    return M, T


def _explore(ctx, fi, raw_cell, M, T):
    """explore a SeqNum arithmetic method with the raw int result bound to raw_cell"""
    ret_arg = []

    def hook(call, args, env):
        f = norm(call.func)
        if f in ("super().__add__", "super().__sub__", "int.__add__", "int.__sub__"):
            return Iv(raw_cell[0], raw_cell[1])
        if f in ("self.__class__", "SeqNum", "type(self)") and len(args) == 1:
            return args[0]
        return None
    sym = {"self._max_sequence": Iv(M), "self._threshold": Iv(T), "SeqNum._max_sequence": Iv(M), "SeqNum._threshold": Iv(T),
           "cls._max_sequence": Iv(M)}
    ex = Explorer(ctx.folder, fi, sym=sym, call_hook=hook, strict=("result",))
    return ex.explore({})


def _ring_op(ctx, rule, fi, M, T, cells, lo_out, hi_out, what):
    for (name, cell) in cells:
        outs = _explore(ctx, fi, cell, M, T)
        ctx.analysed["cells"] += 1
        rets = [o for o in outs if o.kind == "return"]
        bad = []
        for o in outs:
            if o.kind != "return" or not isinstance(o.value, Iv):
                bad.append("non-return / unknown: %r" % o)
                continue
            # which sub-cell of the input led here: env['result'] holds the *final* value; the adjustment is constant
            # on a path, so compare interval widths and offsets
            fin = o.value
            if not fin.within(lo_out, hi_out):
                bad.append("output %r outside [%d, %d] on path %s" % (fin, lo_out, hi_out, o.path))
        # net adjustment: sum of output widths equals input width, and each path's shift is in {0, +-M}
        total = sum((o.value.hi - o.value.lo + 1) for o in rets if isinstance(o.value, Iv))
        if total != cell[1] - cell[0] + 1:
            bad.append("paths do not partition the cell (covered %d of %d values)" % (total, cell[1] - cell[0] + 1))
        ctx.check(not bad, rule, fi, "%s raw in [%d, %d]" % (name, cell[0], cell[1]), what, witness=bad[:3])


def r1(ctx):
    M, T = _consts(ctx)
    cells = [("below range", (1 - M, 0)), ("in range", (1, M)), ("above range", (M + 1, 2 * M))]
    for q in (SEQ + ".__add__", SEQ + ".__sub__"):
        fi = ctx.fn(q)
        _ring_op(ctx, "C08.R1", fi, M, T, cells, 1, M, "the wrapped result lies in [1, M]: 0 is never produced and the ring is closed")
        _shifts(ctx, "C08.R1", fi, M, T, cells, {0, M, -M})
        hook_used = [c for c in calls_named(fi, "__add__" if q.endswith("__add__") else "__sub__") if norm(c.func).startswith("super()")]
        ctx.check(len(hook_used) == 1 and len(hook_used[0].args) == 1 and norm(hook_used[0].args[0]) == fi.params[1], "C08.R1", fi,
                  "raw result := int %s of self and other" % ("sum" if q.endswith("__add__") else "difference"), witness=[norm(c) for c in hook_used])
    ctx.check(M == 2 ** 16 - 1, "C08.R1", ctx.repo.cls(SEQ), "_max_sequence == 65535", "sequence numbers run 1..65535 (16-bit header field, 0 reserved)", witness=M)
    new = ctx.fn(SEQ + ".__new__")
    tests = sorted(norm(n.test) for n in walk_own(new.node) if isinstance(n, ast.If))
    ctx.check(any("> cls._max_sequence" in t for t in tests) and any("< 0" in t for t in tests), "C08.R1", new, "constructor refuses values outside [0, M]", witness=tests)


def _shifts(ctx, rule, fi, M, T, cells, allowed):
    """on singleton probes at every cell boundary the net adjustment (output - input) is in `allowed`"""
    probes = set()
    for (_, (lo, hi)) in cells:
        probes |= {lo, hi, lo + 1, hi - 1, (lo + hi) // 2}
    bad = []
    for p in sorted(probes):
        outs = _explore(ctx, fi, (p, p), M, T)
        ctx.analysed["cells"] += 1
        for o in outs:
            if o.kind == "return" and isinstance(o.value, Iv) and o.value.is_const():
                if (o.value.lo - p) not in allowed:
                    bad.append("raw %d -> %d (shift %d)" % (p, o.value.lo, o.value.lo - p))
            else:
                bad.append("raw %d -> %r" % (p, o))
    ctx.check(not bad, rule, fi, "net adjustment in {0, +M, -M} at every cell boundary", "the result is congruent to the raw value modulo M", witness=bad[:4])


def r2(ctx):
    M, T = _consts(ctx)
    fi = ctx.fn(SEQ + ".diff")
    cells = [("wrapped negative", (-(M - 1), -T - 1)), ("direct", (-T, T)), ("wrapped positive", (T + 1, M - 1))]
    _ring_op(ctx, "C08.R2", fi, M, T, cells, -T, T, "the signed distance lies in [-T, T]")
    _shifts(ctx, "C08.R2", fi, M, T, cells, {0, M, -M})
    ctx.check(M == 2 * T + 1, "C08.R2", ctx.repo.cls(SEQ), "_max_sequence == 2 * _threshold + 1",
              "'less than half the range apart' is decided correctly and antisymmetrically", witness={"M": M, "T": T})
    sub = [c for c in calls_named(fi, "__sub__") if norm(c.func).startswith("super()")]
    ctx.check(len(sub) == 1 and norm(sub[0].args[0]) == fi.params[1], "C08.R2", fi, "raw difference := int(self) - int(other)", witness=[norm(c) for c in sub])
    # antisymmetry on probes: diff(r) == -diff(-r)
    bad = []
    for r in (1, T, T + 1, M - 1, 2, T - 1, T + 2, M - 2, 12345):
        a = [o.value.lo for o in _explore(ctx, fi, (r, r), M, T) if o.kind == "return"]
        b = [o.value.lo for o in _explore(ctx, fi, (-r, -r), M, T) if o.kind == "return"]
        if len(a) != 1 or len(b) != 1 or a[0] != -b[0]:
            bad.append((r, a, b))
    ctx.check(not bad, "C08.R2", fi, "diff is antisymmetric on boundary probes", witness=bad[:3])


def r3(ctx):
    nt = ctx.fn(SEQ + ".newer_than")
    rets = [norm(n.value) for n in walk_own(nt.node) if isinstance(n, ast.Return)]
    o = nt.params[1]
    ctx.check(rets in (["self.diff(%s) > 0" % o], ["0 < self.diff(%s)" % o], ["%s.diff(self) < 0" % o]), "C08.R3", nt, "newer_than(other) == (self.diff(other) > 0)", witness=rets)
    for name, want in (("__lt__", "<"), ("__gt__", ">")):
        fi = ctx.fn(SEQ + "." + name)
        o = fi.params[1]
        rets = [n.value for n in walk_own(fi.node) if isinstance(n, ast.Return)]
        txt = [norm(r) for r in rets]
        # int.__lt__(self, self + X)  <=>  0 < X ;  int.__gt__(self, self + X) <=> X < 0   with X = other.diff(self)
        forms = {
            "__lt__": ["super().__lt__(super().__add__(%s.diff(self)))" % o, "%s.diff(self) > 0" % o, "self.diff(%s) < 0" % o, "0 < %s.diff(self)" % o],
            "__gt__": ["super().__gt__(super().__add__(%s.diff(self)))" % o, "%s.diff(self) < 0" % o, "self.diff(%s) > 0" % o, "0 > %s.diff(self)" % o],
        }[name]
        ctx.check(len(txt) == 1 and txt[0] in forms, "C08.R3", fi, "%s is defined through diff with the right orientation" % name,
                  "a %s b  <=>  b.diff(a) %s 0" % (want, ">" if want == "<" else "<"), witness=txt)
        guards = [norm(n.test) for n in walk_own(fi.node) if isinstance(n, ast.If)]
        ctx.check(guards == ["isinstance(%s, SeqNum)" % o], "C08.R3", fi, "%s only compares SeqNum with SeqNum" % name, witness=guards)


def r4(ctx):
    folder = ctx.folder
    bpi = ctx.fn("connection:ConnectionBase._build_packet_impl")
    cr = [c for c in calls_named(bpi, "create") if norm(c.func) == "PacketHeader.create"]
    if ctx.require("C08.R4", bpi, "PacketHeader.create call", len(cr), 1):
        args = [norm(a) for a in cr[0].args]
        ctx.check(args[4:6] == ["self.bitfield_pkt.current_seqnum", "self.bitfield_pkt.bits"], "C08.R4", bpi, "header (ack, ack_bits) := packet window (current_seqnum, bits)",
                  "every outgoing datagram names the newest received datagram and the bitmap of the window", witness=args[4:6], line=cr[0].lineno)
    create = ctx.fn("connection:PacketHeader.create")
    asg = {norm(n.targets[0]): norm(n.value) for n in walk_own(create.node) if isinstance(n, ast.Assign)}
    ctx.check(asg.get("hdr.ack") == create.params[4] and asg.get("hdr.ack_bits") == create.params[5] and asg.get("hdr.seq") == create.params[3], "C08.R4", create,
              "PacketHeader.create stores (seq, ack, ack_bits) from its parameters", witness={k: asg.get(k) for k in ("hdr.seq", "hdr.ack", "hdr.ack_bits")})
    # window width of the packet window
    init = ctx.fn("connection:ConnectionBase.__init__")
    W = None
    for n in walk_own(init.node):
        if isinstance(n, ast.Assign) and norm(n.targets[0]) == "self.bitfield_pkt" and isinstance(n.value, ast.Call):
            W = folder.fold(n.value.args[0], init.module) if n.value.args else 32
    if not isinstance(W, int):
        ctx.undecided("C08.R4", init, "bitfield_pkt width does not fold")
    # header field width
    tb, fb, packs, pack_attrs, u, unpack_attrs = c01._header_formats(ctx)
    fields = fmt_fields(u.fmt)[1]
    code = fields[unpack_attrs.index("ack_bits")] if "ack_bits" in unpack_attrs else None
    hi = INT_RANGE.get(code, (0, -1))[1]
    ctx.check(hi >= (1 << W) - 1, "C08.R4", fb, "ack_bits header field holds W=%d bits" % W, witness={"field": code, "max": hi})
    acode = fields[unpack_attrs.index("ack")] if "ack" in unpack_attrs else None
    M, T = _consts(ctx)
    ctx.check(INT_RANGE.get(acode, (0, -1))[1] >= M, "C08.R4", fb, "ack / seq header fields hold a sequence number", witness={"field": acode, "M": M})
    # decoder geometry == encoder geometry for every offset
    bits = ctx.fn("connection:ConnectionBase._handle_ack_bits")
    ins = ctx.fn("connection:BitField.insert")
    acks = calls_named(bits, "_handle_ack")
    if not ctx.require("C08.R4", bits, "_handle_ack call under the ack test", len(acks), 1):
        return
    ifs = [p for p in _parents(acks[0], bits.node) if isinstance(p, ast.If)]
    test = ifs[0].test
    hp = bits.params[1]
    dv = None
    for n in walk_own(bits.node):
        if isinstance(n, ast.Assign) and isinstance(n.value, ast.Call) and norm(n.value.func) == "%s.ack.diff" % hp:
            dv = norm(n.targets[0])
            ctx.check(norm(n.value.args[0]) == norm(acks[0].args[0]), "C08.R4", bits, "offset := hdr.ack.diff(pending seq)", "the offset is measured from the peer's newest received number",
                      witness=norm(n.value))
    if dv is None:
        ctx.undecided("C08.R4", bits, "no `diff = hdr.ack.diff(seqnum)` definition")
    vals = c04.bitfield_syms(ctx, W)
    # encoder mask expression(s) in BitField: every  self.onehot >> (<x> - 1)
    masks = [n for n in ast.walk(ins.node) if isinstance(n, ast.BinOp) and isinstance(n.op, ast.RShift) and norm(n.left) == "self.onehot"]
    con = ctx.fn("connection:BitField.contains")
    masks_c = [n for n in ast.walk(con.node) if isinstance(n, ast.BinOp) and isinstance(n.op, ast.RShift) and norm(n.left) == "self.onehot"]
    # (the newer-branch set, the older-branch set - and test, when the duplicate test is written with the mask - and the test in contains)
    ctx.check(len(masks) >= 2 and len(masks_c) >= 1, "C08.R4", ins, "the bit-index expression self.onehot >> (x - 1) is used in both branches of insert and in contains", witness=[norm(m) for m in masks + masks_c])
    idx_ok = all(isinstance(m.right, ast.BinOp) and isinstance(m.right.op, ast.Sub) and norm(m.right.right) == "1" and (isinstance(m.right.left, ast.Name) or (isinstance(m.right.left, ast.UnaryOp) and isinstance(m.right.left.op, ast.USub) and isinstance(m.right.left.operand, ast.Name)))
                 for m in masks + masks_c)
    ctx.check(idx_ok, "C08.R4", ins, "bit index is (x - 1) at every use", "offset d selects bit onehot >> (d-1) in insert (both branches) and contains", witness=[norm(m) for m in masks + masks_c])
    ctx.check(vals["onehot"] == 1 << (W - 1), "C08.R4", ctx.fn("connection:BitField.__init__"), "onehot == 1 << (nbits - 1)", witness={"onehot": vals["onehot"], "nbits": W})

    def enc(d):
        return vals["onehot"] >> (d - 1)

    loops = [p for p in _parents(acks[0], bits.node) if isinstance(p, (ast.For, ast.While))]
    scope = loops[0].body if loops else bits.node.body
    # call-free assignments in front of the loop (a mask derived from the bitmap once per header) belong to the decision
    if loops:
        top = loops[0]
        while getattr(top, "_parent", None) is not None and top._parent is not bits.node:
            top = top._parent
        before_loop = bits.node.body[:bits.node.body.index(top)] if top in bits.node.body else []
        scope = [st for st in before_loop if isinstance(st, ast.Assign) and not any(isinstance(x, ast.Call) for x in ast.walk(st))] + list(scope)

    def dec(d, word):
        """does the per-datagram code reach _handle_ack for offset d and bitmap `word`?  The body of the loop over the pending
        datagrams is explored on singleton cells (every test on the offset and the bitmap is definitive); however the ack
        test is spelled - one condition, nested ifs, several call sites - the answer is whether a path calls _handle_ack"""
        def hook(call, args, env):
            if isinstance(call.func, ast.Attribute) and call.func.attr == "diff" and norm(call.func.value) == "%s.ack" % hp:
                return Iv(d)
            return None
        ex = Explorer(folder, bits, sym={"%s.ack_bits" % hp: Iv(word)}, call_hook=hook, strict=(dv,))
        ex.outcomes = []
        rest = ex._block(scope, [({}, [], [])])
        evs = [o.events for o in ex.outcomes] + [ev for (_e, _p, ev) in rest]
        vs = {any("_handle_ack(" in e for e in ev) for ev in evs}
        if len(vs) != 1:
            raise Undecided("ack decision is not definitive for offset %d, bitmap %x" % (d, word))
        return vs.pop()
    bad = []
    n = 0
    for d in range(-2, W + 3):
        for word in ([enc(d)] if 1 <= d <= W else [0]) + [0, (1 << W) - 1, ((1 << W) - 1) ^ (enc(d) if 1 <= d <= W else 0)]:
            n += 1
            expect = d == 0 or (1 <= d <= W and bool(word & enc(d)))
            got = dec(d, word)
            if got != expect:
                bad.append({"offset": d, "ack_bits": hex(word), "decoder": got, "encoder_geometry": expect})
    ctx.analysed["cells"] += n
    ctx.check(not bad, "C08.R4", bits, "decode geometry == encode geometry for every offset -2..W+2 and bitmap pattern",
              "a pending datagram is acked exactly when the peer's window says it was received", witness=bad[:3], line=ifs[0].lineno)
    # window motion in the newer-branch of insert: shift right by n, set index n-1, under n <= nbits, else clear
    shifts_l = [n for n in ast.walk(ins.node) if (isinstance(n, ast.BinOp) and isinstance(n.op, ast.LShift)) or (isinstance(n, ast.AugAssign) and isinstance(n.op, ast.LShift))]
    ctx.check(not shifts_l, "C08.R4", ins, "the window is never shifted left", witness=[norm(s) for s in shifts_l])
    # the distance may be held in a temporary (n = -diff) or written out: events are compared with single-definition
    # temporaries of the function substituted
    temps = {}
    for a_ in walk_own(ins.node):
        if isinstance(a_, ast.Assign) and len(a_.targets) == 1 and isinstance(a_.targets[0], ast.Name):
            temps.setdefault(a_.targets[0].id, []).append(a_.value)
    temps = {k: v[0] for k, v in temps.items() if len(v) == 1 and k != "diff" and not any(isinstance(x, ast.Call) for x in ast.walk(v[0]))}

    class _S(ast.NodeTransformer):
        def visit_Name(self, node):
            if node.id in temps and isinstance(node.ctx, ast.Load):
                return ast.parse("(%s)" % ast.unparse(temps[node.id]), mode="eval").body
            return node

    def canon(text):
        try:
            return ast.unparse(_S().visit(ast.parse(text)))
        except SyntaxError:
            return text
    for nb in sorted(set(c04.window_widths(ctx))):
        for (name, cell, want_shift) in (("newer inside window", (-nb, -1), True), ("newer beyond window", (-T, -nb - 1), False)):
            outs, used, _ = c04.explore_insert(ctx, nb, cell)
            outs = [o for o in outs if not any(lab and "current_seqnum == 0" in lab and pol for (lab, pol) in o.path)]
            ok = bool(outs)
            for o in outs:
                ev = [canon(e) for e in o.events]
                final = bits_after(ev)
                if want_shift:
                    ok = ok and final in ("B >> -diff | self.onehot >> -diff - 1", "self.onehot >> -diff - 1 | B >> -diff")
                else:
                    ok = ok and final == "0"
            ctx.check(ok, "C08.R4", ins, "nbits=%d %s: %s" % (nb, name, "shift by n then set index n-1" if want_shift else "window cleared"),
                      "advancing by n moves the old current number to offset n", witness=[repr(o) for o in outs][:2])
    # n = -diff
    dd = [n for n in walk_own(ins.node) if isinstance(n, ast.Assign) and norm(n.targets[0]) == "diff"]
    ctx.check(len(dd) == 1 and norm(dd[0].value) == "self.current_seqnum.diff(%s)" % ins.params[1], "C08.R4", ins, "diff := current_seqnum.diff(seqnum)", witness=[norm(x.value) for x in dd])
    # message window width vs. decode: only the packet window is sent in headers; message window is local
    ctx.check(W == 32, "C08.R4", init, "packet window width is 32 (the documented 32-bit ack bitmap)", witness=W)


def bits_after(events):
    """the value of self.bits after the window-motion events of one path, as an expression over its initial value B:
    `self.bits >>= n; self.bits |= m`, `self.bits = (self.bits >> n) | m` and any other sequence of updates give one text"""
    cur = ast.Name(id="B", ctx=ast.Load())

    class _B(ast.NodeTransformer):
        def visit_Attribute(self, node):
            if ast.unparse(node) == "self.bits":
                return ast.parse(ast.unparse(cur), mode="eval").body
            return self.generic_visit(node)
    for e in events:
        try:
            st = ast.parse(e).body[0]
        except SyntaxError:
            continue
        if isinstance(st, ast.AugAssign) and ast.unparse(st.target) == "self.bits":
            cur = ast.BinOp(left=cur, op=st.op, right=_B().visit(st.value))
        elif isinstance(st, ast.Assign) and len(st.targets) == 1 and ast.unparse(st.targets[0]) == "self.bits":
            cur = _B().visit(st.value)
    return ast.unparse(ast.fix_missing_locations(ast.Expression(body=cur)).body)


def _parents(node, stop):
    out = []
    p = getattr(node, "_parent", None)
    while p is not None and p is not stop:
        out.append(p)
        p = getattr(p, "_parent", None)
    return out


def r5(ctx):
    c04.window_cells(ctx, "C08.R5", include_beyond=False)
    # contains() agrees with insert()'s duplicate test
    con = ctx.fn("connection:BitField.contains")
    T = _consts(ctx)[1]
    for nb in sorted(set(c04.window_widths(ctx))):
        vals = c04.bitfield_syms(ctx, nb)
        for (name, cell, expect) in (("newer", (-T, -1), {False}), ("current", (0, 0), {True}), ("inside", (1, nb), {True, False}), ("beyond", (nb + 1, T), {False})):
            def hook(call, args, env, cell=cell):
                if isinstance(call.func, ast.Attribute) and call.func.attr == "diff":
                    return Iv(cell[0], cell[1])
                return None
            ex = Explorer(ctx.folder, con, sym={"self.nbits": Iv(nb), "self.onehot": Iv(vals["onehot"]), "self.bits": Iv(0, (1 << nb) - 1)}, call_hook=hook, strict=("diff", "mask"))
            outs = ex.explore({})
            got = set()
            for o in outs:
                if o.kind == "return" and isinstance(o.value, Const):
                    got.add(o.value.v)
                else:
                    got.add(repr(o.value))
            ctx.analysed["cells"] += 1
            ctx.check(got == expect, "C08.R5", con, "contains: nbits=%d cell=%s -> %s" % (nb, name, sorted(expect)), witness=sorted(map(str, got)))


def r_idioms(ctx):
    from .common import repo_idioms
    repo_idioms(ctx, "C08.R6", ('connection',))


def r7(ctx):
    """'the ack fields name exactly the datagrams received': the receive window may record a sequence number only for a
    datagram that authenticated - shared obligation C01.R4 (no state effect before Packet.from_bytes completed normally)"""
    from .c02 import _Sub
    c01.r4(_Sub(ctx, "C08.R7"))


EXPLANATION = EXPLANATION + " (R7) the receive window is updated only for authenticated datagrams (shared C01.R4): a damaged or forged datagram must not be acknowledged nor make its intact copy look like a duplicate."

def r8(ctx):
    """the window only moves forward through its own operations: the state of a BitField (current_seqnum, bits) is written by
    BitField.__init__ and BitField.insert and by nothing else in the package, and the two window objects of a connection are bound
    in its constructor only.  Code that puts an earlier window back (an "undo" after a handler error) erases a datagram that was
    received, authenticated and partly delivered: later headers no longer name it, the peer's callback reports a loss for a
    delivered message, and its replay is accepted as new."""
    own = {"connection:BitField.__init__", "connection:BitField.insert"}
    writers, binds = [], []
    for f in ctx.repo.funcs.values():
        if f.is_lambda:
            continue
        for n in walk_own(f.node):
            tg = n.targets if isinstance(n, ast.Assign) else [n.target] if isinstance(n, (ast.AugAssign, ast.AnnAssign)) else []
            for t in tg:
                for x in ast.walk(t):
                    if isinstance(x, ast.Attribute) and isinstance(x.ctx, (ast.Store, ast.Del)):
                        recv = norm(x.value)
                        if x.attr in ("bits", "current_seqnum") and (recv.endswith(("bitfield_pkt", "bitfield_msg")) or (f.cls is not None and f.cls.name == "BitField" and recv == "self")):
                            writers.append(f.qual)
                        if x.attr in ("bitfield_pkt", "bitfield_msg"):
                            binds.append(f.qual)
            if isinstance(n, ast.Call) and isinstance(n.func, ast.Name) and n.func.id == "setattr" and len(n.args) >= 2 and isinstance(n.args[1], ast.Constant) \
                    and n.args[1].value in ("bits", "current_seqnum", "bitfield_pkt", "bitfield_msg"):
                writers.append(f.qual + " (setattr)")
    ctx.check(set(writers) == own, "C08.R8", ctx.fn("connection:BitField.insert"), "window state (current_seqnum, bits) is written by BitField.__init__ and BitField.insert only",
              "a received datagram is never taken out of the window again", witness=sorted(set(writers) - own) or sorted(set(writers)))
    ctx.check(set(binds) == {"connection:ConnectionBase.__init__"}, "C08.R8", ctx.fn("connection:ConnectionBase.__init__"), "the datagram and message windows are bound in the connection's constructor only",
              witness=sorted(set(binds)))


EXPLANATION = EXPLANATION + (" (R8) the state of a receive window is written by BitField.__init__ and BitField.insert only, and a connection's two windows are bound in its constructor "
                             "only: nothing puts an earlier window back, so a datagram once recorded stays acknowledged and stays a duplicate.")

RULES = [("C08.R1", r1), ("C08.R2", r2), ("C08.R3", r3), ("C08.R4", r4), ("C08.R5", r5), ("C08.R6", r_idioms), ("C08.R7", r7), ("C08.R8", r8)]
