"""C01 - only datagrams authenticated under the session key can affect a connection."""
import ast

from engine.index import norm, walk_own, AnchorMissing
from engine.cfg import cfg_of
from engine.cond import CondCtx, Lit, satisfiable
from engine.defuse import defuse_of, targets_of
from engine.embedded import struct_sites, fmt_fields, fmt_size
from engine.fold import UNKNOWN
from .common import (calls_named, package_calls, stmt_effects, node_lits, path_lits, enum_lit,
                     is_drop_only, handler_catches, slice_bounds, resolve_arg, fold_int, enclosing_trys)

EXPLANATION = (
    "Static rules over Packet.from_bytes/to_bytes, PacketHeader.to_bytes/from_bytes, "
    "ConnectionBase._recv_datagram/_recv_message and the three datagram entry points. Decides: (R1) every path "
    "that takes message bytes from the datagram without AES-GCM decryption has a path condition implying 'no key'; "
    "(R2) nonce = first 12 header bytes and AAD = the whole 20-byte header on both the seal and the open side, "
    "header pack/unpack formats and field order agree; (R3) the header object handed to _recv_datagram is parsed from "
    "the same bytes; (R4) no state effect in _recv_datagram before Packet.from_bytes completed normally, the failure "
    "handler only counts the drop; (R5) the key-less branch admits only a single hello message; (R6) the server loop "
    "gates packet types per pool. Does not decide that AES-GCM rejects forgeries (assumed) nor byte-level mutation "
    "outcomes, which follow from R1+R2 under that assumption."
)
ASSUMPTIONS = [
    "crypto.decrypt_gcm (cryptography AESGCM.decrypt) raises for every datagram not sealed with this key, nonce and AAD",
    "CRC32 needs no secret: any CRC-validated path is unauthenticated",
    "struct.pack/unpack semantics as documented",
]

FB = "connection:Packet.from_bytes"
HELLOS = ("CLIENT_HELLO", "SERVER_HELLO")


def _aliases(fi):
    """X.hdr = hdr  ->  'X.hdr' aliases 'hdr' (so pkt.hdr.count and hdr.count are one subject)"""
    al = {}
    for n in walk_own(fi.node):
        if isinstance(n, ast.Assign) and len(n.targets) == 1 and isinstance(n.targets[0], ast.Attribute) \
                and isinstance(n.value, ast.Name):
            al[norm(n.targets[0])] = n.value.id
    return al


class _AliasCtx(CondCtx):
    def __init__(self, folder, fi):
        CondCtx.__init__(self, folder, fi.module, fi.cls)
        self._al = _aliases(fi)

    def subject(self, node):
        s = norm(node)
        for k, v in self._al.items():
            if s == k or s.startswith(k + "."):
                s = v + s[len(k):]
        return s


def _msg_stores(ctx, fi):
    """CFG nodes that store the packet's message bytes, split into authenticated (result of
    decrypt_gcm) and unauthenticated (anything else)"""
    cfg = cfg_of(fi)
    auth, unauth = [], []
    for n in cfg.stmts((ast.Assign, ast.AugAssign, ast.AnnAssign)):
        for (t, v, how) in targets_of(n.ast):
            if isinstance(t, ast.Attribute) and t.attr == "msg":
                src = v if isinstance(v, ast.AST) else None
                if isinstance(src, ast.Name):
                    # the bytes come through a local that several branches may bind: each reaching definition is a source of its own
                    # (payload = decrypt_gcm(...) under the key, payload = datagram[...] without), judged where it is made
                    defs = defuse_of(fi).reaching(src.id, n.id)
                    if len(defs) > 1 and all(d[0] != "ENTRY" and isinstance(d[1], ast.AST) for d in defs):
                        for d in defs:
                            dn = cfg.nodes[d[0]]
                            if isinstance(d[1], ast.Call) and norm(d[1].func).endswith("decrypt_gcm"):
                                if dn not in auth:
                                    auth.append(dn)
                            elif dn not in unauth:
                                unauth.append(dn)
                        continue
                src = resolve_arg(fi, src, src) if isinstance(src, ast.Name) else src
                if isinstance(src, ast.Call) and norm(src.func).endswith("decrypt_gcm"):
                    auth.append(n)
                else:
                    unauth.append(n)
    return cfg, auth, unauth


def r1(ctx):
    fi = ctx.fn(FB)
    cfg, auth, unauth = _msg_stores(ctx, fi)
    ctx.require("C01.R1", fi, "message bytes taken from crypto.decrypt_gcm in Packet.from_bytes", len(auth), 1)
    params = fi.params
    if "key" not in params:
        ctx.undecided("C01.R1", fi, "parameter `key` not found in Packet.from_bytes%s" % (params,))
    cc = _AliasCtx(ctx.folder, fi)
    K = Lit("truth", "key", None, True, "key")
    if not unauth:
        ctx.holds("C01.R1", fi, "no unauthenticated message source", "every msg store is a decrypt_gcm result")
    for u in unauth:
        paths = cfg.paths(cfg.entry, {u.id}, skip_labels=("exc", "raise"))
        ctx.analysed["paths"] += len(paths)
        bad = None
        for p in paths:
            lits = path_lits(cfg, p, cc)
            if not satisfiable(lits):
                continue
            if satisfiable(lits + [K]):
                bad = lits
                break
        ctx.check(bad is None, "C01.R1", fi, u.ast,
                  "unauthenticated (CRC-only) message source must be unreachable when a key is set",
                  witness={"path_condition": [repr(l) for l in bad] + ["truthy(key)"]} if bad else None, line=u.lineno)
    # no way out of from_bytes with a packet, under a key, that did not pass the decryption: with the normal completion of the
    # decrypt statement(s) and the key-less outcome of every test of `key` removed, no return may remain reachable
    auth_ids = {a.id for a in auth}

    def keyed_edge(a, b, label):
        if a.kind == "test" and a.ast is not None:
            lits = cc.literal(a.ast, label == "T") if label in ("T", "F") else []
            if any(l.kind == "truth" and l.subject == "key" and not l.positive for l in lits):
                return False
            if any(l.kind == "set" and l.subject == "key" and l.positive and l.values <= frozenset([repr(None), repr(b""), repr(0), repr(False)]) for l in lits):
                return False
        return True
    reach = cfg.reachable(cfg.entry, skip_labels=("exc", "raise"), through_effect=auth_ids, edge_ok=keyed_edge)
    rets = [n for n in cfg.stmts((ast.Return,)) if n.id in reach]
    for r_ in rets:
        ctx.violated("C01.R1", fi, r_.ast, "from_bytes returns under a key without the datagram having passed decrypt_gcm",
                     witness={"path_condition": [norm(t) + ("" if pol else " is false") for (t, pol) in cfg.conditions_of(r_.id)]}, line=r_.lineno)
    if not rets and auth:
        ctx.holds("C01.R1", fi, "every return of from_bytes under a key is behind a completed decrypt_gcm", "edge cut: decrypt completion + key-less outcomes removed")
    # the key used for decryption is the parameter, and the call sites pass the connection's key
    for a in auth:
        call = [c for c in ast.walk(a.ast) if isinstance(c, ast.Call) and norm(c.func).endswith("decrypt_gcm")][0]
        ctx.check(len(call.args) == 4 and norm(call.args[0]) == "key", "C01.R1", fi, call,
                  "decrypt_gcm is keyed with the `key` parameter")
    sites = package_calls(ctx.repo, "from_bytes")
    sites = [(f, c) for (f, c) in sites if norm(c.func) == "Packet.from_bytes"]
    ctx.expect("C01.R1", "Packet.from_bytes call sites", len(sites), 1)
    for (f, c) in sites:
        ctx.analysed["call_sites"] += 1
        ctx.check(len(c.args) == 3 and norm(c.args[1]) == "self.session_key_bytes", "C01.R1", f, c,
                  "Packet.from_bytes is called with the connection's own session key")


def _header_formats(ctx):
    """(pack formats of PacketHeader.to_bytes, pack arg attr names, unpack format, unpack attr names)"""
    tb = ctx.fn("connection:PacketHeader.to_bytes")
    fb = ctx.fn("connection:PacketHeader.from_bytes")
    packs = [s for s in struct_sites(tb, ctx.folder) if s.kind == "pack"]
    unpacks = [s for s in struct_sites(fb, ctx.folder) if s.kind == "unpack"]
    ctx.expect("C01.R2", "header pack sites", len(packs), 1)
    ctx.expect("C01.R2", "header unpack sites", len(unpacks), 1)
    if any(s.fmt is None for s in packs + unpacks):
        ctx.undecided("C01.R2", tb, "non-literal header struct format")
    packs.sort(key=lambda s: s.lineno)
    # attribute each packed argument reads from the header object
    du = defuse_of(tb)
    pack_attrs = []
    for s in packs:
        for a in s.args:
            a2 = a
            # ident.value -> resolve ident
            names = [n for n in ast.walk(a2) if isinstance(n, ast.Name) and n.id != "self"]
            attrs = [n.attr for n in ast.walk(a2) if isinstance(n, ast.Attribute) and isinstance(n.value, ast.Name) and n.value.id == "self"]
            for nm in names:
                v = resolve_arg(tb, nm, s.call)
                attrs += [n.attr for n in ast.walk(v) if isinstance(n, ast.Attribute) and isinstance(n.value, ast.Name) and n.value.id == "self"]
            pack_attrs.append(attrs[0] if attrs else "?" + norm(a))
    # attribute each unpacked field ends up in
    u = unpacks[0]
    asg = u.call._parent
    targets = []
    if isinstance(asg, ast.Assign) and isinstance(asg.targets[0], (ast.Tuple, ast.List)):
        targets = asg.targets[0].elts
    elif isinstance(asg, ast.Assign) and isinstance(asg.targets[0], ast.Name):
        # the tuple is held in a temporary first: fields = struct.unpack(...); a, b, c = fields
        tmp = asg.targets[0].id
        later = [n for n in walk_own(fb.node) if isinstance(n, ast.Assign) and isinstance(n.value, ast.Name) and n.value.id == tmp and isinstance(n.targets[0], (ast.Tuple, ast.List))]
        if len(later) == 1:
            targets = later[0].targets[0].elts
    # where each unpacked value ends up, by value: the header attribute whose stored expression - read through temporaries -
    # mentions the unpacked name, directly or as the argument of a package factory (PacketHeader.create) that stores its parameter
    from .common import sym_expr
    from engine.cfg import cfg_of as _cfg
    fcfg = _cfg(fb)

    def mentions(e, at, name):
        e2 = sym_expr(fb, e, fcfg.node_of(at), allow_calls=("PacketType", "SeqNum"))
        return any(isinstance(x, ast.Name) and x.id == name for x in ast.walk(e2))

    def via_factory(name):
        for c in walk_own(fb.node):
            if not (isinstance(c, ast.Call) and isinstance(c.func, ast.Attribute) and isinstance(c.func.value, ast.Name)):
                continue
            owner = c.func.value.id
            if owner in ("cls", "self") and fb.cls is not None:
                owner = fb.cls.name
            callee = ctx.repo.funcs.get("%s:%s.%s" % (fb.module.name, owner, c.func.attr))
            if callee is None:
                continue
            params = callee.params[1:] if (callee.cls is not None and not callee.is_static) else callee.params
            bound = list(zip(params, c.args)) + [(k.arg, k.value) for k in c.keywords if k.arg]
            for p_, a_ in bound:
                if mentions(a_, c, name):
                    for n in walk_own(callee.node):
                        if isinstance(n, ast.Assign) and isinstance(n.targets[0], ast.Attribute) and any(isinstance(x, ast.Name) and x.id == p_ for x in ast.walk(n.value)):
                            return n.targets[0].attr
        return None
    unpack_attrs = []
    for t in targets:
        if isinstance(t, ast.Attribute):
            unpack_attrs.append(t.attr)
        elif isinstance(t, ast.Name):
            dest = None
            for n in walk_own(fb.node):
                if isinstance(n, ast.Assign) and isinstance(n.targets[0], ast.Attribute) and mentions(n.value, n, t.id):
                    dest = n.targets[0].attr
                    break
            if dest is None:
                dest = via_factory(t.id)
            unpack_attrs.append(dest or "?" + t.id)
        else:
            unpack_attrs.append("?")
    ctx._header_targets = targets
    return tb, fb, packs, pack_attrs, u, unpack_attrs


def decoded_header_values(ctx):
    """{header attribute: (text of the value the decoder stores there, read through temporaries and through a package factory
    that stores its parameters unchanged; name of the unpacked wire value at that field's position)}"""
    from .common import sym_expr
    from engine.cfg import cfg_of as _cfg
    tb, fb, packs, pack_attrs, u, unpack_attrs = _header_formats(ctx)
    targets = ctx._header_targets
    fcfg = _cfg(fb)
    wire = {a: (t.id if isinstance(t, ast.Name) else norm(t)) for a, t in zip(unpack_attrs, targets)}
    out = {}

    def val(e, at):
        return norm(sym_expr(fb, e, fcfg.node_of(at), allow_calls=("PacketType", "SeqNum")))
    for n in walk_own(fb.node):
        if isinstance(n, ast.Assign) and isinstance(n.targets[0], ast.Attribute):
            out[n.targets[0].attr] = val(n.value, n)
        if isinstance(n, ast.Assign) and isinstance(n.targets[0], (ast.Tuple, ast.List)):
            for t in n.targets[0].elts:
                if isinstance(t, ast.Attribute):
                    out[t.attr] = norm(t)        # unpacked straight into the attribute: the wire value itself
    for c in walk_own(fb.node):
        if not (isinstance(c, ast.Call) and isinstance(c.func, ast.Attribute) and isinstance(c.func.value, ast.Name)):
            continue
        owner = c.func.value.id
        if owner in ("cls", "self") and fb.cls is not None:
            owner = fb.cls.name
        callee = ctx.repo.funcs.get("%s:%s.%s" % (fb.module.name, owner, c.func.attr))
        if callee is None:
            continue
        params = callee.params[1:] if (callee.cls is not None and not callee.is_static) else callee.params
        bound = dict(list(zip(params, c.args)) + [(k.arg, k.value) for k in c.keywords if k.arg])
        for n in walk_own(callee.node):
            if isinstance(n, ast.Assign) and isinstance(n.targets[0], ast.Attribute) and isinstance(n.value, ast.Name) and n.value.id in bound and n.targets[0].attr not in out:
                out[n.targets[0].attr] = val(bound[n.value.id], c)
    return {a: (out.get(a), wire.get(a)) for a in set(out) | set(wire)}


def r2(ctx):
    repo, folder = ctx.repo, ctx.folder
    PH = repo.cls("connection:PacketHeader")
    SIZE = folder.class_attr(PH, "SIZE")
    IV = folder.class_attr(PH, "IV_SIZE")
    TAG = folder.class_attr(PH, "TAG_SIZE")
    crypto = repo.mod("crypto")
    civ = folder.module_attr(crypto, "ENCRYPTION_IV_LENGTH")
    ctag = folder.module_attr(crypto, "ENCRYPTION_TAG_LENGTH")
    if UNKNOWN in (SIZE, IV, TAG, civ, ctag):
        ctx.undecided("C01.R2", PH, "header size constants do not fold")
    tb, fb, packs, pack_attrs, u, unpack_attrs = _header_formats(ctx)
    order_p = set(fmt_fields(s.fmt)[0] for s in packs) | {fmt_fields(u.fmt)[0]}
    fields_p = sum((fmt_fields(s.fmt)[1] for s in packs), [])
    fields_u = fmt_fields(u.fmt)[1]
    ctx.check(fields_p == fields_u and len(order_p) == 1 and order_p != {"@"}, "C01.R2", tb, "header pack formats == parse format",
              "concatenated pack formats of PacketHeader.to_bytes equal the unpack format of from_bytes (explicit byte order)",
              witness={"pack": [s.fmt for s in packs], "unpack": u.fmt}, line=u.lineno)
    ctx.check(pack_attrs == unpack_attrs and not any(a.startswith("?") for a in pack_attrs), "C01.R2", fb, "header field order",
              "fields are packed and unpacked in the same order",
              witness={"pack": pack_attrs, "unpack": unpack_attrs}, line=u.lineno)
    ctx.check(fmt_size(u.fmt) == SIZE, "C01.R2", fb, "calcsize(parse format) == PacketHeader.SIZE",
              "parse format covers the whole header", witness={"calcsize": fmt_size(u.fmt), "SIZE": SIZE})
    ctx.check(fmt_size(packs[0].fmt) == IV == civ, "C01.R2", tb, "calcsize(first pack format) == IV_SIZE == ENCRYPTION_IV_LENGTH",
              "the nonce is exactly the first pack group", witness={"calcsize": fmt_size(packs[0].fmt), "IV_SIZE": IV, "crypto": civ})
    ctx.check(TAG == ctag, "C01.R2", PH, "TAG_SIZE == crypto.ENCRYPTION_TAG_LENGTH", "tag size agreement")
    # the slice the unpack reads
    sb = slice_bounds(u.args[0]) if u.args else None
    ok = sb is not None and sb[1] is None and fold_int(ctx, fb, sb[2]) == SIZE
    ctx.check(ok, "C01.R2", fb, "unpack reads datagram[:SIZE]", "header is parsed from the first SIZE bytes", line=u.lineno)

    # open side
    fi = ctx.fn(FB)
    decs = calls_named(fi, "decrypt_gcm")
    ctx.require("C01.R2", fi, "decrypt_gcm call in Packet.from_bytes", len(decs), 1)
    for c in decs:
        if len(c.args) != 4:
            ctx.undecided("C01.R2", fi, "decrypt_gcm arity")
        iv, aad, data = (resolve_arg(fi, a, c) for a in c.args[1:])
        dparam = fi.params[2] if len(fi.params) >= 3 else "datagram"
        from .common import flat_slice
        fs = flat_slice(ctx, fi, c.args[1], c)
        ctx.check(fs is not None and fs[:3] == (dparam, 0, IV),
                  "C01.R2", fi, "open: nonce == datagram[:IV_SIZE]", "decrypt nonce is the first 12 bytes of the received datagram",
                  witness=norm(iv), line=c.lineno)
        fs = flat_slice(ctx, fi, c.args[2], c)
        ctx.check(fs is not None and fs[:3] == (dparam, 0, SIZE),
                  "C01.R2", fi, "open: aad == datagram[:SIZE]", "the whole received header is authenticated",
                  witness=norm(aad), line=c.lineno)
        fs = flat_slice(ctx, fi, c.args[3], c)
        ctx.check(fs is not None and fs[0] == dparam and fs[1] == SIZE,
                  "C01.R2", fi, "open: ciphertext starts at datagram[SIZE:]", "ciphertext begins right after the header",
                  witness=norm(data), line=c.lineno)
    # seal side
    to = ctx.fn("connection:Packet.to_bytes")
    encs = calls_named(to, "encrypt_gcm")
    ctx.require("C01.R2", to, "encrypt_gcm call in Packet.to_bytes", len(encs), 1)
    for c in encs:
        if len(c.args) != 4:
            ctx.undecided("C01.R2", to, "encrypt_gcm arity")
        def whole_header(e, at):
            """the serialised header itself, or a slice of it that covers all SIZE bytes -> the to_bytes() call node"""
            e = resolve_arg(to, e, at)
            if isinstance(e, ast.Call) and norm(e.func).endswith("hdr.to_bytes"):
                return e
            b_ = slice_bounds(e) if isinstance(e, ast.Subscript) else None
            if b_ is not None and (b_[1] is None or fold_int(ctx, to, b_[1]) == 0) and b_[2] is not None and fold_int(ctx, to, b_[2]) == SIZE:
                return whole_header(e.value, at)
            return None
        iv, aad = resolve_arg(to, c.args[1], c), resolve_arg(to, c.args[2], c)
        aad_src = whole_header(c.args[2], c)
        ok_aad = aad_src is not None
        ctx.check(ok_aad, "C01.R2", to, "seal: aad == hdr.to_bytes()", "the whole serialised header is the AAD",
                  witness=norm(aad), line=c.lineno)
        sb = slice_bounds(iv)
        base_ok = False
        if sb is not None:
            base = resolve_arg(to, iv.value, c)
            base_ok = isinstance(base, ast.Call) and norm(base.func).endswith("hdr.to_bytes")
        ctx.check(sb is not None and base_ok and sb[1] is None and fold_int(ctx, to, sb[2]) == IV, "C01.R2", to,
                  "seal: nonce == hdr.to_bytes()[:IV_SIZE]", "the nonce is the header prefix", witness=norm(iv), line=c.lineno)
        ctx.check(norm(c.args[3]).endswith(".msg"), "C01.R2", to, "seal: plaintext == self.msg", "the message bytes are what is sealed",
                  witness=norm(c.args[3]), line=c.lineno)
        # emitted bytes = header + ciphertext
        asg = c._parent
        ok = False
        ct = asg.targets[0].id if isinstance(asg, ast.Assign) and isinstance(asg.targets[0], ast.Name) else None
        for r in walk_own(to.node):
            if isinstance(r, ast.Return) and isinstance(r.value, ast.BinOp) and isinstance(r.value.op, ast.Add) \
                    and ((ct is not None and norm(r.value.right) == ct) or r.value.right is c):
                left = whole_header(r.value.left, r)
                ok = left is not None and left is aad_src
        ctx.check(ok, "C01.R2", to, "seal: datagram == aad header + ciphertext", "the bytes sent are the authenticated header followed by the ciphertext",
                  line=c.lineno)


def r3(ctx):
    repo = ctx.repo
    sites = package_calls(repo, "_recv_datagram")
    ctx.expect("C01.R3", "_recv_datagram call sites", len(sites), 4)
    for (fi, call) in sites:
        ctx.analysed["call_sites"] += 1
        if len(call.args) != 2 or not all(isinstance(a, ast.Name) for a in call.args):
            ctx.violated("C01.R3", fi, call, "_recv_datagram must receive a header object and the datagram it was parsed from",
                         witness=norm(call), line=call.lineno)
            continue
        h, d = call.args[0].id, call.args[1].id
        du = defuse_of(fi)
        node = du.cfg.node_of(call)
        hdefs = du.reaching(h, node.id)
        ddefs = du.reaching(d, node.id)
        ok, why = False, ""
        if len(hdefs) == 1 and hdefs[0][0] != "ENTRY":
            v = hdefs[0][1]
            if isinstance(v, ast.Call) and norm(v.func) == "PacketHeader.from_bytes" and len(v.args) == 2 and norm(v.args[1]) == d:
                # datagram not rebound between the parse and the use
                hnode = hdefs[0][0]
                dd_at_parse = set(x[0] for x in du.reaching(d, hnode))
                ok = dd_at_parse == set(x[0] for x in ddefs)
                why = "hdr = PacketHeader.from_bytes(_, %s)" % d
            elif isinstance(v, tuple) and v[0] == "unpack" and len(ddefs) == 1 and isinstance(ddefs[0][1], tuple) \
                    and ddefs[0][0] == hdefs[0][0] and ddefs[0][1][2] is v[2]:
                # members of one tuple taken from the server queue
                ok, why = _queue_triple(ctx, fi, v[1], ddefs[0][1][1])
        ctx.check(ok, "C01.R3", fi, call, "header object and datagram bytes have the same origin (%s)" % why,
                  witness={"hdr_defs": [norm(x[1]) if isinstance(x[1], ast.AST) else str(x[1])[:60] for x in hdefs]}, line=call.lineno)


def _queue_triple(ctx, fi, hi, di):
    """the (addr, hdr, datagram) triple: positions hi/di of the tuple appended by
    UdpServerThread.append are its hdr/datagram parameters, and every caller of .append passes
    hdr = PacketHeader.from_bytes(True, datagram) with the same datagram"""
    repo = ctx.repo
    ap = ctx.fn("server:UdpServerThread.append")
    tup = None
    for c in calls_named(ap, "append"):
        if c.args and isinstance(c.args[0], ast.Tuple):
            tup = c.args[0]
    if tup is None or not all(isinstance(e, ast.Name) for e in tup.elts):
        return False, "UdpServerThread.append does not enqueue a tuple of its parameters"
    params = ap.params[1:]
    if [e.id for e in tup.elts] != params:
        return False, "queue tuple order differs from append() parameters"
    if not (isinstance(hi, int) and isinstance(di, int)) or hi >= len(params) or di >= len(params):
        return False, "tuple positions"
    n = 0
    for (f, c) in package_calls(repo, "append"):
        if len(c.args) == 3 and isinstance(c.func, ast.Attribute) and norm(c.func.value).endswith("thread"):
            n += 1
            ctx.analysed["call_sites"] += 1
            ha, da = c.args[hi], c.args[di]
            hv = resolve_arg(f, ha, c)
            if not (isinstance(hv, ast.Call) and norm(hv.func) == "PacketHeader.from_bytes" and len(hv.args) == 2
                    and norm(hv.args[1]) == norm(da) and norm(hv.args[0]) == "True"):
                return False, "%s passes a header not parsed from the same datagram" % f.qual
    if n < 2:
        raise AnchorMissing("C01.R3: callers of UdpServerThread.append: %d < 2" % n)
    return True, "queue triple (addr, hdr, datagram) produced by %d entry points" % n


def r4(ctx):
    fi = ctx.fn("connection:ConnectionBase._recv_datagram")
    cfg = cfg_of(fi)
    calls = [c for c in calls_named(fi, "from_bytes") if norm(c.func) == "Packet.from_bytes"]
    if not ctx.require("C01.R4", fi, "Packet.from_bytes call in _recv_datagram", len(calls), 1):
        return
    S = cfg.node_of(calls[0])
    pre = cfg.reachable(cfg.entry, through_effect={S.id})
    bad = []
    n_eff = 0
    for nid in sorted(pre):
        n = cfg.nodes[nid]
        if n.ast is None or nid == S.id or n.kind not in ("stmt", "test", "for", "with"):
            continue
        for (kind, text, node) in stmt_effects(n.stmt if n.kind != "stmt" else n.ast):
            n_eff += 1
            if kind == "store" and text.endswith("stats.dropped"):
                continue
            bad.append((n, kind, text))
    for (n, kind, text) in bad:
        ctx.violated("C01.R4", fi, n.ast, "state effect reachable before Packet.from_bytes completed normally",
                     witness={"effect": "%s %s" % (kind, text)}, line=n.lineno)
    if not bad:
        ctx.holds("C01.R4", fi, "effects before authentication: none (except stats.dropped)",
                  "%d node(s) reachable without normal completion of from_bytes carry no state effect" % len(pre))
    # the handler around the decode
    trys = enclosing_trys(calls[0])
    ok = bool(trys) and any(handler_catches(h) and is_drop_only(h.body) for h in trys[0].handlers)
    ctx.check(ok, "C01.R4", fi, "decode failure handler", "the try around Packet.from_bytes catches Exception, counts the drop and returns False",
              line=calls[0].lineno)
    # every effect after it is dominated by S (follows from the above) ; message dispatch iterates pkt.msgs only
    asg = calls[0]._parent
    pkt = asg.targets[0].id if isinstance(asg, ast.Assign) and isinstance(asg.targets[0], ast.Name) else None
    disp = calls_named(fi, "_recv_message")
    ctx.expect("C01.R4", "_recv_message dispatch sites", len(disp), 1)
    for c in disp:
        loop = c
        while loop is not None and not isinstance(loop, ast.For):
            loop = getattr(loop, "_parent", None)
        ok = loop is not None and pkt is not None and norm(loop.iter) == "%s.msgs" % pkt and isinstance(loop.target, ast.Name) and \
            all(isinstance(a, ast.Attribute) and isinstance(a.value, ast.Name) and a.value.id == loop.target.id for a in c.args) and \
            [a.attr for a in c.args] == ["type", "seq", "payload"]
        ctx.check(ok, "C01.R4", fi, c, "messages dispatched are exactly the decoded packet's messages (type, seq, payload)", line=c.lineno)
    # ack processing uses the header only after authentication
    for c in calls_named(fi, "_handle_ack_bits"):
        n = cfg.node_of(c)
        ctx.check(n.id not in pre, "C01.R4", fi, c, "ack fields are processed only after authentication", line=c.lineno)


def r5(ctx):
    fi = ctx.fn(FB)
    cfg, auth, unauth = _msg_stores(ctx, fi)
    cc = _AliasCtx(ctx.folder, fi)
    hdrp = fi.params[0]
    not_hello = enum_lit(ctx.folder, ctx.repo, "%s.pkt_type" % hdrp, "connection:PacketType", HELLOS, positive=False)
    many = Lit("cmp", "%s.count" % hdrp, (">", 1), True, "count > 1")
    for u in unauth:
        paths = cfg.paths(cfg.entry, {u.id}, skip_labels=("exc", "raise"))
        tails = cfg.paths(u.id, {cfg.exit}, skip_labels=("exc", "raise"))
        ctx.analysed["paths"] += len(paths) * max(1, len(tails))
        w_type = w_count = None
        for p in paths:
            for t in tails:
                lits = path_lits(cfg, p + t, cc)
                if not satisfiable(lits):
                    continue
                if w_type is None and satisfiable(lits + [not_hello]):
                    w_type = lits
                if w_count is None and satisfiable(lits + [many]):
                    w_count = lits
        ctx.check(w_type is None, "C01.R5", fi, "key-less branch: packet type in {CLIENT_HELLO, SERVER_HELLO}",
                  "a datagram accepted without a key must be typed as a handshake hello",
                  witness={"path_condition": [repr(l) for l in (w_type or [])] + [repr(not_hello)]}, line=u.lineno)
        ctx.check(w_count is None, "C01.R5", fi, "key-less branch: count <= 1",
                  "a datagram accepted without a key carries at most one message (inner types of multi-message payloads are arbitrary)",
                  witness={"path_condition": [repr(l) for l in (w_count or [])] + [repr(many)]}, line=u.lineno)
    # single-message packets dispatch on the header type; multi-message packets on the inner types
    pm = [c for c in calls_named(fi, "PendingMessage")]
    ctx.expect("C01.R5", "PendingMessage constructions in from_bytes", len(pm), 2)
    rm = ctx.fn("connection:ConnectionBase._recv_message")
    table = _dispatch_table(ctx, rm)
    expected = {"CLIENT_HELLO": "_recvClientHello", "SERVER_HELLO": "_recvServerHello", "CHALLENGE_RESP": "_recvChallengeResponse",
                "KEEP_ALIVE": "_recvKeepAlive", "DISCONNECT": "_recvDisconnect", "APP_FRAGMENT": "_recvAppFragment", "APP": "_recvApp"}
    for typ, meth in sorted(expected.items()):
        ctx.check(table.get(meth) == {typ}, "C01.R5", rm, "dispatch %s -> %s" % (typ, meth),
                  "each receive handler is dispatched for exactly its packet type", witness={"found": sorted(table.get(meth, []))})
    extra = set(table) - set(expected.values())
    ctx.check(not extra, "C01.R5", rm, "no other dispatch targets", "no receive handler outside the type table", witness=sorted(extra))


def _dispatch_table(ctx, rm):
    """method name -> set of PacketType members under which _recv_message calls it"""
    cfg = cfg_of(rm)
    cc = CondCtx(ctx.folder, rm.module, rm.cls)
    PT = ctx.repo.cls("connection:PacketType")
    members = [m for m in PT.consts if not m.startswith("_")]
    table = {}
    for n in walk_own(rm.node):
        if isinstance(n, ast.Call) and isinstance(n.func, ast.Attribute) and isinstance(n.func.value, ast.Name) \
                and n.func.value.id == "self" and n.func.attr.startswith("_recv"):
            node = cfg.node_of(n)
            lits = node_lits(cfg, node.id, cc)
            subj = rm.params[1]
            poss = set()
            for m in members:
                l = enum_lit(ctx.folder, ctx.repo, subj, "connection:PacketType", (m,), True)
                if satisfiable(lits + [l]):
                    poss.add(m)
            table.setdefault(n.func.attr, set()).update(poss)
    return table


def r6(ctx):
    fi = ctx.fn("server:UdpServerThread.run")
    cfg = cfg_of(fi)
    cc = CondCtx(ctx.folder, fi.module, fi.cls)
    recvs = calls_named(fi, "_recv_datagram")
    ctx.expect("C01.R6", "_recv_datagram sites in the server loop", len(recvs), 3)
    seen = {"connected": 0, "temp": 0, "new": 0}
    for c in recvs:
        node = cfg.node_of(c)
        lits = node_lits(cfg, node.id, cc)
        texts = [repr(l) for l in lits]
        in_conn = any(l.kind == "atom" and l.positive and l.subject.endswith("in self.ctxt.connections") for l in lits)
        in_temp = any(l.kind == "atom" and l.positive and l.subject.endswith("in self.ctxt.temp_connections") for l in lits)
        not_conn = any(l.kind == "atom" and not l.positive and l.subject.endswith("in self.ctxt.connections") for l in lits)
        not_temp = any(l.kind == "atom" and not l.positive and l.subject.endswith("in self.ctxt.temp_connections") for l in lits)
        recv = norm(c.func.value)
        if in_conn:
            seen["connected"] += 1
            src = resolve_arg(fi, c.func.value, c)
            ctx.check(norm(src).startswith("self.ctxt.connections["), "C01.R6", fi, c,
                      "connected branch: the connection object is looked up in the connected pool", witness=norm(src), line=c.lineno)
        elif in_temp and not_conn:
            seen["temp"] += 1
            want = enum_lit(ctx.folder, ctx.repo, "hdr.pkt_type", "connection:PacketType", ("CHALLENGE_RESP",), False)
            ctx.check(not satisfiable(lits + [want]), "C01.R6", fi, c,
                      "temp pool: only CHALLENGE_RESP-typed datagrams reach the temp connection", witness=texts, line=c.lineno)
        elif not_conn and not_temp:
            seen["new"] += 1
            want = enum_lit(ctx.folder, ctx.repo, "hdr.pkt_type", "connection:PacketType", ("CLIENT_HELLO",), False)
            ctx.check(not satisfiable(lits + [want]), "C01.R6", fi, c,
                      "new address: only CLIENT_HELLO-typed datagrams create and reach a connection", witness=texts, line=c.lineno)
            for k in calls_named(fi, "ServerClientConnection"):
                kl = node_lits(cfg, cfg.node_of(k).id, cc)
                ctx.check(not satisfiable(kl + [want]), "C01.R6", fi, k,
                          "new address: connection objects are constructed only for CLIENT_HELLO-typed datagrams", line=k.lineno)
        else:
            ctx.violated("C01.R6", fi, c, "_recv_datagram outside the three pool branches", witness=texts, line=c.lineno)
    ctx.check(seen == {"connected": 1, "temp": 1, "new": 1}, "C01.R6", fi, "one _recv_datagram per pool branch",
              "connected / temp / new-address branches each hand the datagram to exactly one connection", witness=seen)
    hm = calls_named(fi, "handle_message")
    ctx.expect("C01.R6", "handle_message sites", len(hm), 1)
    for c in hm:
        lits = node_lits(cfg, cfg.node_of(c).id, cc)
        ok = any(l.kind == "atom" and l.positive and l.subject.endswith("in self.ctxt.connections") for l in lits)
        ctx.check(ok, "C01.R6", fi, c, "application messages are handed to the handler only in the connected branch", line=c.lineno)


def r_enum(ctx):
    from .common import repo_idioms
    repo_idioms(ctx, "C01.R7", ('connection', 'server', 'client'))


def r8(ctx):
    """the AES-GCM helpers are thin wrappers: the assumption 'decrypt_gcm raises for everything not sealed with this key, nonce
    and AAD' is about the library primitive, so the wrapper must not stand between the primitive's verdict and from_bytes"""
    from .common import thin_wrapper
    thin_wrapper(ctx, "C01.R8", "crypto:decrypt_gcm", "decrypt", (1, 3, 2), kw_names=("nonce", "data", "associated_data"))     # AESGCM(key).decrypt(iv, data, aad)
    thin_wrapper(ctx, "C01.R8", "crypto:encrypt_gcm", "encrypt", (1, 3, 2), kw_names=("nonce", "data", "associated_data"))
    for q in ("crypto:decrypt_gcm", "crypto:encrypt_gcm"):
        fi = ctx.fn(q)
        k = [c for c in walk_own(fi.node) if isinstance(c, ast.Call) and norm(c.func) == "AESGCM"]
        ctx.check(len(k) == 1 and [norm(a) for a in k[0].args] == [fi.params[0]], "C01.R8", fi, "%s keys AESGCM with its key parameter" % fi.name, witness=[norm(c) for c in k])

EXPLANATION = EXPLANATION + " (R8) decrypt_gcm / encrypt_gcm are thin wrappers: every exception of the AES-GCM primitive propagates to the caller, its result is returned unchanged and the arguments are the parameters in the primitive's order (the assumption about AES-GCM is about the primitive, so nothing may stand between its verdict and from_bytes)."

RULES = [("C01.R1", r1), ("C01.R2", r2), ("C01.R3", r3), ("C01.R4", r4), ("C01.R5", r5), ("C01.R6", r6), ("C01.R7", r_enum), ("C01.R8", r8)]
