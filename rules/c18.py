"""C18 - WebSocket frames round-trip per RFC 6455; TCP segmentation is harmless."""
import ast
import re

from engine.index import norm, walk_own, Undecided
from engine.cfg import cfg_of
from engine.cells import Explorer, Iv, Const, TOP
from engine.defuse import defuse_of
from engine.embedded import struct_sites, fmt_fields, fmt_size, INT_RANGE
from .common import calls_named, package_calls, sym_paths

EXPLANATION = (
    "Static writer/reader agreement for the WebSocket frame codec and a shape rule for the read path. Decides: (R1) by interval "
    "analysis over payload_length: serializeHeader and serializeDataHeader induce the same partition [0,125] / [126,65535] / "
    ">=65536 with forms (7-bit value, none) / (126, !H) / (127, !Q) and each cell fits its format; (R2) on the parse side the tests "
    "for 126 and 127 read the same definition of the 7-bit field (the 16-bit length never reaches the 127 test); (R3) pack/unpack "
    "layouts agree (BB, !H, !Q), flag shifts and masks agree pairwise between serializeHeader and parseHeader, the masking key is 4 "
    "bytes and unmasking indexes it with i % 4; (R4) the five frame factories set fin, opcode, payload and payload_length = "
    "len(payload) after the last payload assignment; (R5) segmentation discipline on Channel.dataReceived -> handler.__call__ -> "
    "readFrame -> recv: the frame read is inside a loop guarded by a non-consuming availability test whose size accounting equals "
    "the bytes the read path consumes, the buffer is FIFO. Does not decide RFC 6455 beyond the encoded layout nor actual chunkings."
)
ASSUMPTIONS = ["struct semantics; bytes slicing", "Channel.dataReceived delivers the TCP stream in order"]

F = "http_server:WebSocketFrame."
BOUNDS = (0, 125, 126, 127, 65535, 65536)


def _cells():
    big = 2 ** 63 - 1
    return [(0, 0), (1, 124), (125, 125), (126, 126), (127, 127), (128, 65534), (65535, 65535), (65536, 65536), (65537, big)]


def _hook(call, args, env):
    f = norm(call.func)
    if f == "struct.pack" or f.endswith(".append") or f.endswith(".join"):
        return TOP
    return None


def r1(ctx):
    sh = ctx.fn(F + "serializeHeader")
    sd = ctx.fn(F + "serializeDataHeader")
    rows = []
    packs_h = [s for s in struct_sites(sh, ctx.folder) if s.kind == "pack"]
    for cell in _cells():
        base = {"self.payload_length": Iv(cell[0], cell[1]), "self.flags.fin": Iv(0, 1), "self.flags.rsv1": Iv(0, 1),
                "self.flags.rsv2": Iv(0, 1), "self.flags.rsv3": Iv(0, 1), "self.flags.opcode.value": Iv(0, 15)}
        # the length byte that serializeHeader packs, for an unmasked and for a masked frame: whatever statements, conditional
        # expressions or temporaries compute it, its value on the cell is 126 / 127 / the payload length (+ 128 when masked)
        vals = set()
        maskbit = set()
        for mask in (0, 1):
            packed = []

            def hook(call, args, env, packed=packed):
                f = norm(call.func)
                if f == "struct.pack":
                    packed.append(args)
                    return TOP
                if f.endswith(".append") or f.endswith(".join"):
                    return TOP
                return None
            ex2 = Explorer(ctx.folder, sh, sym=dict(base, **{"self.flags.mask": Iv(mask)}), call_hook=hook)
            ex2.explore({})
            for a_ in packed:
                v = a_[-1] if a_ else None
                lo, hi = cell
                if isinstance(v, Iv) and v.is_const() and int(v.lo) - 128 * mask in (126, 127):
                    vals.add(int(v.lo) - 128 * mask)
                    maskbit.add(mask)
                elif isinstance(v, Iv) and v == Iv(lo + 128 * mask, hi + 128 * mask):
                    vals.add("value")
                    maskbit.add(mask)
                else:
                    vals.add(repr(v))
        ctx.analysed["cells"] += 1
        fmts = []

        def hook_d(call, args, env, fmts=fmts):
            f = norm(call.func)
            if f == "struct.pack":
                fmts.append(args[0].v if args and isinstance(args[0], Const) else repr(args[0]) if args else None)
                return TOP
            if f.endswith(".append") or f.endswith(".join"):
                return TOP
            return None
        ext = set()
        for mask in (0, 1):
            del fmts[:]
            exd = Explorer(ctx.folder, sd, sym=dict(base, **{"self.flags.mask": Iv(mask)}), call_hook=hook_d)
            outs = exd.explore({})
            # one tuple of formats per path: the hook sees the calls of all paths of this exploration in order; on a cell every
            # test on the length is definitive, so there is one path
            ext.add(tuple(fmts) if len(outs) <= 1 else ("several paths",) + tuple(fmts))
        rows.append((cell, vals, ext, maskbit))
    for (cell, vals, ext, maskbit) in rows:
        lo, hi = cell
        if hi <= 125:
            want_v, want_e = {"value"} if lo != hi else {"value", lo}, {()}
            okv = vals <= {"value", lo} and len(vals) == 1
        elif hi <= 65535:
            want_v, want_e = {126}, {("!H",)}
            okv = vals == {126}
        else:
            want_v, want_e = {127}, {("!Q",)}
            okv = vals == {127}
        oke = ext == want_e
        ctx.check(okv and oke, "C18.R1", sd if okv else sh, "payload_length in [%d, %d]: header form %s, data header %s" % (lo, hi, sorted(map(str, want_v)), sorted(want_e)),
                  "the length form announced in the header is the one written after it",
                  witness={"serializeHeader": sorted(map(str, vals)), "serializeDataHeader": sorted(map(str, ext))})
    ctx.check(INT_RANGE["H"][1] == 65535 and INT_RANGE["Q"][1] >= 2 ** 63 - 1, "C18.R1", sd, "cells fit their formats (!H up to 65535, !Q beyond)")
    # the mask bit is bit 7 of the length byte: decided above (the packed byte is the form + 128 exactly when the mask flag is 1)
    ctx.check(all(mb == {0, 1} for (_c, _v, _e, mb) in rows), "C18.R1", sh, "mask flag is bit 7 of the length byte",
              witness=[sorted(mb) for (_c, _v, _e, mb) in rows][:3])
    ctx.check(len(packs_h) == 1 and fmt_fields(packs_h[0].fmt)[1] == ["B", "B"], "C18.R1", sh, "the header is two bytes: flags/opcode, mask bit + length form",
              witness=[p_.fmt for p_ in packs_h])
    mk = [n for n in walk_own(sd.node) if isinstance(n, ast.If) and norm(n.test) == "self.flags.mask"]
    ok = len(mk) == 1 and any("self.masking_key" in norm(s) for s in mk[0].body)
    ctx.check(ok, "C18.R1", sd, "the masking key follows the extended length iff the mask flag is set")


def r2(ctx):
    rd = ctx.fn(F + "readDataHeader")
    cfg = cfg_of(rd)
    du = defuse_of(rd)
    tests = [n for n in cfg.nodes if n.kind == "test" and isinstance(n.ast, ast.Compare) and isinstance(n.ast.left, ast.Name) and
             isinstance(n.ast.comparators[0], ast.Constant) and n.ast.comparators[0].value in (126, 127)]
    if not ctx.require("C18.R2", rd, "tests for the 126 / 127 length forms", len(tests), 2):
        return
    var = tests[0].ast.left.id
    for t in tests:
        defs = du.reaching(var, t.id)
        srcs = [norm(d[1]) if isinstance(d[1], ast.AST) else str(d[1])[:50] for d in defs]
        ok = all(isinstance(d[1], ast.AST) and norm(d[1]) == "self.flags.length" for d in defs) and bool(defs)
        ctx.check(ok, "C18.R2", rd, "test `%s` reads the 7-bit field" % norm(t.ast),
                  "an extended length that happens to equal 126/127 must not be re-interpreted as a form selector", witness={"reaching_definitions": srcs}, line=t.lineno)
    # forms: 126 -> !H from recv(2); 127 -> !Q from recv(8)
    # (by value: the format and the number of bytes received are read through the temporaries that hold them)
    from .common import sym_expr
    us = [s for s in struct_sites(rd, ctx.folder) if s.kind == "unpack"]
    got = {}
    decoded = {}
    for u in us:
        un = cfg.node_of(u.call)
        fmt = u.fmt if u.fmt is not None else ctx.folder.fold(sym_expr(rd, u.call.args[0], un), rd.module)
        data = sym_expr(rd, u.call.args[1], un, allow_calls=lambda t: t.endswith(".recv") or t == "struct.calcsize") if len(u.call.args) > 1 else None
        k = None
        if isinstance(data, ast.Call) and norm(data.func).endswith(".recv") and data.args:
            k = ctx.folder.fold(sym_expr(rd, data.args[0], un, allow_calls=("struct.calcsize",)), rd.module)
            if not isinstance(k, int) and isinstance(data.args[0], ast.Call) and norm(data.args[0].func) == "struct.calcsize":
                f2 = ctx.folder.fold(sym_expr(rd, data.args[0].args[0], un), rd.module)
                k = fmt_size(f2) if isinstance(f2, str) else None
        conds = [(norm(tt), p) for (tt, p) in cfg.conditions_of(un.id)]
        sel = [c for c in conds if c[1] and c[0].startswith("%s == " % var)]
        got[sel[0][0] if sel else "?"] = (fmt, k)
        decoded[sel[0][0] if sel else "?"] = u
    ctx.check(got == {"%s == 126" % var: ("!H", 2), "%s == 127" % var: ("!Q", 8)}, "C18.R2", rd, "126 -> !H from 2 bytes; 127 -> !Q from 8 bytes", witness=got)
    # payload_length: on the 126 / 127 paths the decoded value, otherwise the 7-bit field itself
    st = [n for n in walk_own(rd.node) if isinstance(n, ast.Assign) and norm(n.targets[0]) == "self.payload_length"]
    okp = bool(st)
    wit = []
    for n in st:
        nn = cfg.node_of(n)
        conds = [(norm(tt), p) for (tt, p) in cfg.conditions_of(nn.id)]
        sel = [c[0] for c in conds if c[1] and c[0].startswith("%s == " % var)]
        v = sym_expr(rd, n.value, nn, allow_calls=lambda t: t == "struct.unpack" or t.endswith(".recv") or t == "struct.calcsize")
        vt = norm(v)
        wit.append({"under": sel, "value": vt})
        if sel:
            okp = okp and vt.startswith("struct.unpack(") and vt.endswith("[0]")
        elif len(st) == 1:
            # one store after the branches: the variable that every branch has re-bound to its decoded value
            defs = du.reaching(norm(n.value), nn.id) if isinstance(n.value, ast.Name) else []
            okp = okp and isinstance(n.value, ast.Name) and len(defs) == 3
        else:
            okp = okp and vt in (var, "self.flags.length")
    ctx.check(okp and (len(st) == 1 or len(st) == 3), "C18.R2", rd, "payload_length := the decoded length", witness=wit)
    mk = [n for n in walk_own(rd.node) if isinstance(n, ast.If) and norm(n.test) == "self.flags.mask"]
    ok = len(mk) == 1 and any(norm(s) == "self.masking_key = %s.recv(4)" % rd.params[1] for s in mk[0].body)
    ctx.check(ok, "C18.R2", rd, "the 4-byte masking key is read iff the mask flag is set, after the extended length")


def r3(ctx):
    sh, ph = ctx.fn(F + "serializeHeader"), ctx.fn(F + "parseHeader")
    sd, rd = ctx.fn(F + "serializeDataHeader"), ctx.fn(F + "readDataHeader")
    p = [s for s in struct_sites(sh, ctx.folder) if s.kind == "pack"]
    u = [s for s in struct_sites(ph, ctx.folder) if s.kind == "unpack"]
    ok = len(p) == 1 and len(u) == 1 and fmt_fields(p[0].fmt)[1] == fmt_fields(u[0].fmt)[1] == ["B", "B"]
    ctx.check(ok, "C18.R3", sh, "frame header: two unsigned bytes on both sides", witness={"pack": [s.fmt for s in p], "unpack": [s.fmt for s in u]})
    if ok:
        ctx.check([norm(a) for a in p[0].args] == ["flags", "length"] and [norm(e) for e in u[0].call._parent.targets[0].elts] == ["flags", "length"], "C18.R3", sh,
                  "(flags, length) in the same order on both sides")
    def formats(site):
        """the format(s) a pack / unpack site can use: a literal, or both arms of a conditional expression of literals"""
        if site.fmt is not None:
            return [site.fmt]
        a0 = site.call.args[0] if site.call.args else None
        if isinstance(a0, ast.Name):
            from .common import sym_expr as _se
            v_ = ctx.folder.fold(_se(site.fi, a0, cfg_of(site.fi).node_of(site.call)), site.fi.module)
            if isinstance(v_, str):
                return [v_]
        if isinstance(a0, ast.IfExp):
            arms = [ctx.folder.fold(x, site.fi.module) for x in (a0.body, a0.orelse)]
            if all(isinstance(x, str) for x in arms):
                return arms
        return ["?"]
    pe = sorted(fmt_fields(f_) for s in struct_sites(sd, ctx.folder) if s.kind == "pack" for f_ in formats(s))
    ue = sorted(fmt_fields(f_) for s in struct_sites(rd, ctx.folder) if s.kind == "unpack" for f_ in formats(s))
    ctx.check(pe == ue == [(">", ["H"]), (">", ["Q"])], "C18.R3", sd, "extended lengths: network-order H and Q on both sides", witness={"pack": pe, "unpack": ue})
    # flag geometry
    ser = {}
    flags_expr = [n for n in walk_own(sh.node) if isinstance(n, ast.Assign) and norm(n.targets[0]) == "flags"]
    if flags_expr:
        for n in ast.walk(flags_expr[0].value):
            if isinstance(n, ast.BinOp) and isinstance(n.op, ast.LShift) and isinstance(n.right, ast.Constant):
                name = norm(n.left).replace("self.flags.", "").replace(".value", "")
                ser[name] = n.right.value
    par = {}
    for n in walk_own(ph.node):
        if isinstance(n, ast.Assign) and norm(n.targets[0]).startswith("self.flags."):
            name = norm(n.targets[0])[len("self.flags."):]
            v = n.value
            inner = v.args[0] if isinstance(v, ast.Call) and v.args else v
            if isinstance(inner, ast.BinOp) and isinstance(inner.op, ast.RShift) and isinstance(inner.left, ast.BinOp) and isinstance(inner.left.op, ast.BitAnd):
                par[name] = (ctx.folder.fold(inner.left.right, ph.module), inner.right.value if isinstance(inner.right, ast.Constant) else None, norm(inner.left.left))
    want = {"fin": (0x80, 7), "rsv1": (0x40, 6), "rsv2": (0x20, 5), "rsv3": (0x10, 4), "opcode": (0x0F, 0)}
    # the parse side is decided by evaluating each field's expression for all 256 values of its byte (constant folding with the
    # byte bound to each value in turn): it must equal (byte & mask) >> shift, whatever mix of shifts and masks spells it
    unp = u[0].call._parent.targets[0].elts if ok and isinstance(u[0].call._parent, ast.Assign) and isinstance(u[0].call._parent.targets[0], ast.Tuple) else []
    b1, b2 = (unp[0].id, unp[1].id) if len(unp) == 2 and all(isinstance(e, ast.Name) for e in unp) else (None, None)
    pasg = {norm(n.targets[0])[len("self.flags."):]: n.value for n in walk_own(ph.node) if isinstance(n, ast.Assign) and norm(n.targets[0]).startswith("self.flags.")}

    def table(expr, byte):
        """[value of expr for byte = 0..255], None when it does not fold or reads anything else"""
        if expr is None or byte is None:
            return None
        if isinstance(expr, ast.Call) and norm(expr.func) == "WebSocketOpCode" and len(expr.args) == 1:
            expr = expr.args[0]
        if any(isinstance(x, ast.Name) and x.id != byte for x in ast.walk(expr)):
            return None
        out = []
        for v_ in range(256):
            r_ = ctx.folder.fold(expr, ph.module, cls=ph.cls, env={byte: v_})
            if isinstance(r_, bool):
                r_ = int(r_)
            if not isinstance(r_, int):
                return None
            out.append(r_)
        return out
    for name, (mask, shift) in want.items():
        tb = table(pasg.get(name), b1)
        okf = ser.get(name) == shift and tb is not None and tb == [(v_ & mask) >> shift for v_ in range(256)] and (mask >> shift) in (1, 15)
        bad = next((v_ for v_ in range(256) if tb is not None and tb[v_] != (v_ & mask) >> shift), None)
        ctx.check(okf, "C18.R3", ph, "flag %s: serialize << %d, parse (& 0x%02X) >> %d" % (name, shift, mask, shift), "RFC 6455 bit positions, same on both sides",
                  witness={"serialize_shift": ser.get(name), "parse": norm(pasg[name]) if name in pasg else None, "first_byte_value_that_differs": bad})
    tm, tl = table(pasg.get("mask"), b2), table(pasg.get("length"), b2)
    ctx.check(tm == [v_ >> 7 for v_ in range(256)] and tl == [v_ & 127 for v_ in range(256)], "C18.R3", ph, "mask = bit 7, 7-bit length = low bits of the second byte",
              witness={k: norm(pasg[k]) if k in pasg else None for k in ("mask", "length")})
    asg = {norm(n.targets[0]): norm(n.value) for n in walk_own(ph.node) if isinstance(n, ast.Assign)}
    ctx.check("WebSocketOpCode(" in asg.get("self.flags.opcode", ""), "C18.R3", ph, "opcode is decoded into the enum (serialize uses .value)")
    # unmasking
    rdata = ctx.fn(F + "readData")
    # every byte i of the payload becomes payload[i] ^ masking_key[i % 4]: the index loop with ^=, the enumerate loop with an
    # explicit store, in place; under the mask flag only
    loops = [n for n in walk_own(rdata.node) if isinstance(n, ast.For)]
    ok = len(loops) == 1
    wit = []
    if ok:
        l = loops[0]
        P, K = "self.payload", "self.masking_key"
        idx = val = None
        if norm(l.iter) == "range(len(%s))" % P and isinstance(l.target, ast.Name):
            idx = l.target.id
        elif norm(l.iter) == "enumerate(%s)" % P and isinstance(l.target, ast.Tuple) and len(l.target.elts) == 2 and all(isinstance(e, ast.Name) for e in l.target.elts):
            idx, val = l.target.elts[0].id, l.target.elts[1].id
        body = [st for st in l.body if not isinstance(st, ast.Pass)]
        wit = [norm(st) for st in body]
        ok = idx is not None and len(body) == 1
        if ok:
            st = body[0]
            key = "%s[%s %% 4]" % (K, idx)
            cur = {"%s[%s]" % (P, idx)} | ({val} if val else set())
            if isinstance(st, ast.AugAssign) and isinstance(st.op, ast.BitXor):
                ok = norm(st.target) == "%s[%s]" % (P, idx) and norm(st.value) == key
            elif isinstance(st, ast.Assign) and len(st.targets) == 1 and isinstance(st.value, ast.BinOp) and isinstance(st.value.op, ast.BitXor):
                sides = {norm(st.value.left), norm(st.value.right)}
                ok = norm(st.targets[0]) == "%s[%s]" % (P, idx) and key in sides and bool((sides - {key}) & cur)
            else:
                ok = False
        rcfg = cfg_of(rdata)
        conds = [(norm(t), p) for (t, p) in rcfg.conditions_of(rcfg.node_of(l).id)]
        ok = ok and ("self.flags.mask", True) in conds
    ctx.check(ok, "C18.R3", rdata, "payload[i] ^= masking_key[i % 4] for every byte, iff masked", witness=wit)
    rc = [c for c in calls_named(rdata, "recv")]
    ctx.check(len(rc) == 1 and norm(rc[0].args[0]) == "self.payload_length", "C18.R3", rdata, "the payload read takes exactly payload_length bytes")
    # order of the three reads / writes
    for q, want_order in (("http_server:readFrameFactory.readFrame", ["readHeader", "readDataHeader", "readData"]), ("http_server:writeFrameFactory.writeFrame", ["writeHeader", "writeDataHeader", "writeData"])):
        f = ctx.fn(q)
        # (through a method of the frame class that does the three steps, if the factory delegates to one)
        def steps(fn, depth=0):
            out = []
            for c in walk_own(fn.node):
                if not (isinstance(c, ast.Call) and isinstance(c.func, ast.Attribute)):
                    continue
                if c.func.attr in want_order:
                    out.append(c.func.attr)
                elif depth < 2:
                    cands = [m for m in ctx.repo.by_name_methods.get(c.func.attr, []) if m.cls is not None and m.cls.name == "WebSocketFrame"]
                    if len(cands) == 1 and cands[0] is not fn:
                        out += steps(cands[0], depth + 1)
            return out
        order = steps(f)
        ctx.check(order == want_order, "C18.R3", f, "frame parts are processed in wire order", witness=order)
    for w, s in (("writeHeader", "serializeHeader"), ("writeDataHeader", "serializeDataHeader")):
        f = ctx.fn(F + w)
        ok = len(calls_named(f, s)) == 1 and len(calls_named(f, "sendall")) == 1
        ctx.check(ok, "C18.R3", f, "%s sends what %s produced" % (w, s))


def _parents(node, stop):
    out = []
    p = getattr(node, "_parent", None)
    while p is not None and p is not stop:
        out.append(p)
        p = getattr(p, "_parent", None)
    return out


def r4(ctx):
    ops = {"Ping": "Ping", "Pong": "Pong", "Close": "Close", "Text": "Text", "Binary": "Binary"}
    n = 0
    envs = {}
    for name, op in ops.items():
        f = ctx.fn(F + name)
        n += 1
        paths = sym_paths(f)
        if paths is None:
            ctx.undecided("C18.R4", f, "factory %s is not a loop-free builder" % name)
            continue
        paths = [p for p in paths if not p[2].startswith("#raise")]
        ok = bool(paths) and f.is_static
        wit = []
        for (conds, env, ret) in paths:
            # the returned object is a fresh frame whose announced length is the length of the very bytes it carries
            var = [k for k, v in env.items() if v == "WebSocketFrame()" and k.isidentifier()]
            fr = var[0] if len(var) == 1 else "?"
            pay = env.get(fr + ".payload")
            good = ret == "WebSocketFrame()" and pay is not None and env.get(fr + ".payload_length") == "len(%s)" % pay \
                and env.get(fr + ".flags.fin") == "1" and env.get(fr + ".flags.opcode") == "WebSocketOpCode.%s" % op
            ok = ok and good
            wit.append({k: v for k, v in env.items() if k.startswith(fr + ".")})
            envs.setdefault(name, []).append(pay)
        ctx.check(ok, "C18.R4", f, "factory %s: fin=1, opcode=%s, payload_length=len(payload) after the payload is final" % (name, op), witness=wit)
    ctx.expect("C18.R4", "frame factories", n, 5)
    cl = ctx.fn(F + "Close")
    p = [s for s in struct_sites(cl, ctx.folder) if s.kind == "pack"]
    ctx.check(len(p) == 1 and fmt_fields(p[0].fmt) == (">", ["H"]), "C18.R4", cl, "close status is a network-order 16-bit prefix of the payload")
    tx = ctx.fn(F + "Text")
    utf8 = {"%s.encode('utf-8')", "%s.encode()", "%s.encode(encoding='utf-8')", "bytes(%s, 'utf-8')", "%s.encode('utf8')", "%s.encode('UTF-8')"}
    pays = envs.get("Text", [])
    ctx.check(bool(pays) and all(p in {u % tx.params[0] for u in utf8} for p in pays), "C18.R4", tx, "text payload is UTF-8", witness=pays)
    init = ctx.fn(F + "__init__")
    d = {norm(s.targets[0]): norm(s.value) for s in walk_own(init.node) if isinstance(s, ast.Assign)}
    # (the flag record may be filled through a local and attached afterwards)
    holder = d.get("self.flags") if "self.flags.mask" not in d and (d.get("self.flags") or "").isidentifier() else "self.flags"
    ctx.check(d.get("%s.mask" % holder) == "0" and d.get("self.payload_length") == "0", "C18.R4", init, "a new frame is unmasked and empty")


def r5(ctx):
    hd = ctx.fn("http_server:WebSocketTemporaryHandler.__call__")
    cfg = cfg_of(hd)
    rb = "http_server:WebSocketTemporaryRingBuffer."
    push = [c for c in calls_named(hd, "_push")]
    ctx.check(len(push) == 1 and norm(push[0].args[0]) == hd.params[1] and not cfg.conditions_of(cfg.node_of(push[0]).id), "C18.R5", hd, "every received chunk is appended to the buffer first")
    rf = [c for c in calls_named(hd, "_readFrame")]
    if not ctx.require("C18.R5", hd, "_readFrame() call in the data callback", len(rf), 1):
        return
    c = rf[0]
    loops = [p for p in _parents(c, hd.node) if isinstance(p, ast.While)]
    ctx.check(len(loops) == 1, "C18.R5", hd, "(b) frames are read in a loop", "several frames in one TCP read are all delivered; one frame per data callback would leave the rest buffered",
              line=c.lineno)
    avail = None
    if loops:
        t = loops[0].test
        if isinstance(t, ast.Call) and isinstance(t.func, ast.Attribute) and norm(t.func.value) == "self._buffer":
            avail = t.func.attr
    conds = [(norm(tt), p) for (tt, p) in cfg.conditions_of(cfg.node_of(c).id)]
    ctx.check(avail is not None and ("self._buffer.%s()" % avail, True) in conds, "C18.R5", hd, "(a) a frame is parsed only when the buffer reports a complete frame",
              "a frame split across TCP reads must not be parsed from a partial buffer: recv() on the buffer never blocks and returns short data",
              witness={"conditions_at_readFrame": conds, "unchecked_recv_sites": 5}, line=c.lineno)
    if avail is None or (rb + avail) not in ctx.repo.funcs:
        return
    hf = ctx.fn(rb + avail)
    # hasFrame: size := frameSize(); True only if size is not None and len(buf) >= size ; neither consumes
    consuming = [x for q in (rb + avail, rb + "frameSize") if q in ctx.repo.funcs for x in walk_own(ctx.repo.funcs[q].node)
                 if (isinstance(x, ast.Call) and norm(x.func).endswith(".recv")) or (isinstance(x, (ast.Assign, ast.AugAssign)) and "self.buf" in [norm(t) for t in (x.targets if isinstance(x, ast.Assign) else [x.target])])]
    ctx.check(not consuming, "C18.R5", hf, "the availability test does not consume buffered bytes", witness=[norm(x) for x in consuming])
    # by paths: every path returns False under `size is None`, or the comparison under `size is not None`, or their conjunction
    rets = [n for n in walk_own(hf.node) if isinstance(n, ast.Return)]
    hp = sym_paths(hf)
    S = "self.frameSize()"
    cmp_ = ("len(self.buf) >= %s" % S, "%s <= len(self.buf)" % S)
    ok = hp is not None and bool(hp)
    for (conds, env, ret) in (hp or []):
        cs = set(conds)
        known = ("%s is None" % S, False) in cs or ("%s is not None" % S, True) in cs
        unknown = ("%s is None" % S, True) in cs or ("%s is not None" % S, False) in cs
        good = (unknown and ret == "False") or (known and ret in cmp_) or (not cs and ret in tuple("%s is not None and %s" % (S, c_) for c_ in cmp_))
        ok = ok and good
    ctx.check(ok, "C18.R5", hf, "complete frame <=> frameSize() is known and len(buf) >= frameSize()", witness=[norm(r.value) for r in rets])
    fs = ctx.fn(rb + "frameSize")
    ev = _frame_size_by_evaluation(ctx, fs)
    if ev is not None:
        labels = [("sizes", "frameSize counts exactly the bytes the read path consumes (2 + 2|8 + 4 if masked)"),
                  ("incomplete", "frameSize = header bytes + payload length, or None while the header is incomplete"),
                  ("raises", "the extended length is peeked only when its bytes are buffered (test inside the 126 / 127 branch, after the size was advanced)"),
                  ("first_byte", "mask bit and 7-bit length are peeked from the second byte"),
                  ("values", "extended length peeked with the read path's formats and offsets")]
        for key, label in labels:
            ctx.check(not ev[key], "C18.R5", fs, label, "frameSize evaluated (engine/minieval) on %d header prefixes: every second byte, every buffered length up to the full header" % ev["cases"],
                      witness=ev[key][:3])
    else:
        # size accounting in frameSize equals what the read path consumes
        consumed = {}
        rh = ctx.fn(F + "readHeader")
        rdh = ctx.fn(F + "readDataHeader")
        for cc in calls_named(rh, "recv"):
            consumed["header"] = ctx.folder.fold(cc.args[0], rh.module)
        dcfg = cfg_of(rdh)
        for cc in calls_named(rdh, "recv"):
            cs = [x[0] for x in [(norm(tt), p) for (tt, p) in dcfg.conditions_of(dcfg.node_of(cc).id)] if x[1]]
            key = "126" if any(x.endswith("== 126") for x in cs) else "127" if any(x.endswith("== 127") for x in cs) else "mask" if "self.flags.mask" in cs else "?"
            consumed[key] = ctx.folder.fold(cc.args[0], rdh.module)
        acc = {}
        init = [n for n in walk_own(fs.node) if isinstance(n, ast.Assign) and norm(n.targets[0]) == "size"]
        if init:
            acc["header"] = ctx.folder.fold(init[0].value, fs.module)
        fcfg = cfg_of(fs)
        for n in fcfg.stmts((ast.AugAssign,)):
            if norm(n.ast.target) == "size" and isinstance(n.ast.op, ast.Add):
                cs = [x[0] for x in [(norm(tt), p) for (tt, p) in fcfg.conditions_of(n.id)] if x[1]]
                key = "126" if any(x.endswith("== 126") for x in cs) else "127" if any(x.endswith("== 127") for x in cs) else "mask" if any("& 128" in x for x in cs) else "?"
                acc[key] = ctx.folder.fold(n.ast.value, fs.module)
        ctx.check(acc == consumed == {"header": 2, "126": 2, "127": 8, "mask": 4}, "C18.R5", fs, "frameSize counts exactly the bytes the read path consumes (2 + 2|8 + 4 if masked)",
                  witness={"frameSize": acc, "read_path": consumed})
        rets = [norm(n.value) for n in walk_own(fs.node) if isinstance(n, ast.Return)]
        ctx.check(sorted(set(rets)) == ["None", "size + length"], "C18.R5", fs, "frameSize = header bytes + payload length, or None while the header is incomplete", witness=rets)
        # every peek of the extended length is preceded by a check that those bytes are buffered
        us = [s for s in struct_sites(fs, ctx.folder) if s.kind == "unpack"]
        okp = len(us) == 2
        why = []
        for u in us:
            un = fcfg.node_of(u.call)
            g = [(norm(tt), p) for (tt, p) in fcfg.conditions_of(un.id)]
            branch = [c for c in g if c[1] and (c[0].endswith("== 126") or c[0].endswith("== 127"))]
            # an availability test that is evaluated *inside* the branch (after the branch's `size += k`) and whose failure leaves
            good = False
            for t in fcfg.nodes:
                if t.kind == "test" and norm(t.ast) in ("len(self.buf) < size", "size > len(self.buf)") and fcfg.edge_dominates(t.id, "F", un.id):
                    tc = [(norm(tt), p) for (tt, p) in fcfg.conditions_of(t.id)]
                    if branch and all(b_ in tc for b_ in branch):
                        good = True
            if not good:
                why.append("%s peeked under %s without a buffered-length test inside that branch" % (u.fmt, [b_[0] for b_ in branch]))
            okp = okp and good
        ctx.check(okp, "C18.R5", fs, "the extended length is peeked only when its bytes are buffered (test inside the 126 / 127 branch, after the size was advanced)",
                  "a TCP read that ends inside the extended length field must not reach struct.unpack with a short slice", witness=why)
        first = [n for n in walk_own(fs.node) if isinstance(n, ast.Subscript) and norm(n.value) == "self.buf" and not isinstance(n.slice, ast.Slice)]
        idx_ok = all(norm(n.slice) == "1" for n in first)
        ctx.check(idx_ok and len(first) >= 2, "C18.R5", fs, "mask bit and 7-bit length are peeked from the second byte", witness=[norm(n) for n in first])
        fmts = sorted((s.fmt, norm(s.args[0])) for s in us)
        ctx.check(fmts == [("!H", "self.buf[2:4]"), ("!Q", "self.buf[2:10]")], "C18.R5", fs, "extended length peeked with the read path's formats and offsets", witness=fmts)
    # (c) FIFO buffer
    pu = ctx.fn(rb + "_push")
    rc = ctx.fn(rb + "recv")
    a = [norm(n) for n in walk_own(pu.node) if isinstance(n, (ast.Assign, ast.AugAssign))]
    b = [norm(n) for n in walk_own(rc.node) if isinstance(n, (ast.Assign, ast.AugAssign, ast.Return))]
    n_ = rc.params[1]
    # by value: recv returns the first n buffered bytes and leaves the rest, however the two slices are bound
    rp = sym_paths(rc)
    ok_rc = rp is not None and len(rp) == 1 and rp[0][2] == "self.buf[:%s]" % n_ and rp[0][1].get("self.buf") == "self.buf[%s:]" % n_ \
        and not rp[0][1].get("#effects")
    ctx.check(a == ["self.buf += %s" % pu.params[1]] and ok_rc, "C18.R5", rc,
              "(c) the buffer is FIFO: _push appends, recv removes a prefix", witness={"_push": a, "recv": b})
    # each complete frame is handed to the endpoint exactly once
    hf2 = [cc for cc in calls_named(hd, "_handleFrame")]
    ok = len(hf2) == 1 and hf2[0].args and hf2[0].args[0] is c
    if ok:
        hfn = ctx.fn("http_server:WebSocketTemporaryHandler._handleFrame")
        cb = [cc for cc in calls_named(hfn, "callback") if norm(cc.func) == "self._endpt.callback"]
        ok = len(cb) == 1 and not any(isinstance(p, (ast.For, ast.While)) for p in _parents(cb[0], hfn.node))
        # by value, per path: the endpoint gets (handler, the frame's opcode, what frame.payload holds at that point)
        hp_ = sym_paths(hfn)
        ok = ok and hp_ is not None
        fr = hfn.params[1]
        n_called = 0
        for (conds_, env_, ret_) in (hp_ or []):
            eff = env_.get("#effects", "")
            calls_ = [x for x in eff.split(";") if x.startswith("self._endpt.callback(")]
            if ret_.startswith("#raise") and not calls_:
                continue
            if len(calls_) != 1:
                ok = False
                continue
            n_called += 1
            try:
                ce = ast.parse(calls_[0], mode="eval").body
            except SyntaxError:
                ok = False
                continue
            want = ["self", "%s.flags.opcode" % fr, env_.get("%s.payload" % fr, "%s.payload" % fr)]
            ok = ok and isinstance(ce, ast.Call) and [norm(x) for x in ce.args] == want and not ce.keywords
        ok = ok and n_called >= 1
    else:
        cb = [cc for cc in calls_named(hd, "callback") if norm(cc.func) == "self._endpt.callback"]
        ok = len(cb) == 1
    ctx.check(ok, "C18.R5", hd, "each parsed frame is delivered to the endpoint once, with its opcode and payload")
    # the channel forwards raw reads in order
    ch = ctx.fn("http_server:HTTPFactory.__init__.Channel.dataReceived")
    cs = [cc for cc in walk_own(ch.node) if isinstance(cc, ast.Call) and norm(cc.func) == "self.websocket_callback"]
    ctx.check(len(cs) == 1 and norm(cs[0].args[0]) == ch.params[1], "C18.R5", ch, "Channel.dataReceived forwards every raw read to the handler")


def _frame_size_by_evaluation(ctx, fs):
    """frameSize decided by partial evaluation (engine/minieval, the program is not run) on every header prefix: second byte
    0..255, buffered lengths 0 .. header + 1, against what the read path consumes for that header (readHeader: 2 bytes;
    readDataHeader: the 126 / 127 forms and the 4-byte masking key).  None when the function is outside the evaluator's fragment."""
    from engine.minieval import MiniEval
    from engine.index import Undecided
    import struct
    forms = _read_forms(ctx)
    if forms is None:
        return None
    out = {"sizes": [], "incomplete": [], "raises": [], "first_byte": [], "values": [], "cases": 0}
    try:
        for b2 in range(256):
            code, mask = b2 & 0x7F, b2 >> 7
            fmt, ext = forms.get(code, (None, 0))
            extb = bytes(range(1, ext + 1))
            value = struct.unpack(fmt, extb)[0] if ext else code
            need = 2 + ext
            for first in ((0x82, 0xFF) if b2 in (0x05, 0x85, 0x7E, 0xFE, 0x7F, 0xFF) else (0x82,)):
                full = bytes([first, b2]) + extb + b"\x00" * 5
                for L in range(0, need + 2):
                    buf = full[:L]
                    out["cases"] += 1
                    r = MiniEval(ctx.repo, ctx.folder, fs, self_attrs={"buf": buf}).call([])
                    case = {"buffer": buf.hex(), "result": r[1] if r[0] == "return" else "raises %s" % r[1]}
                    if r[0] != "return":
                        out["raises"].append(case)
                        continue
                    if L < need:
                        if r[1] is not None:
                            out["incomplete"].append(dict(case, expected=None))
                        continue
                    want = need + 4 * mask + value
                    if r[1] != want:
                        kind = "first_byte" if first == 0xFF else "values" if (ext and isinstance(r[1], int) and r[1] - need - 4 * mask != value and (r[1] - value) != (want - value)) else "sizes"
                        # a wrong total with the right decoded value is an accounting error, otherwise a decoding error
                        if ext and isinstance(r[1], int) and (r[1] - (need + 4 * mask)) != value:
                            kind = "values" if first != 0xFF else "first_byte"
                        out[kind].append(dict(case, expected=want))
    except Undecided:
        return None
    return out


def _read_forms(ctx):
    """{126: (format, bytes), 127: (format, bytes)} of the read path (readDataHeader), by value; None when not of that shape"""
    from .common import sym_expr
    rd = ctx.fn(F + "readDataHeader")
    cfg = cfg_of(rd)
    forms = {}
    for c in walk_own(rd.node):
        if isinstance(c, ast.Call) and norm(c.func) == "struct.unpack" and c.args:
            fmt = ctx.folder.fold(sym_expr(rd, c.args[0], cfg.node_of(c)), rd.module)
            sel = None
            for (t, p) in cfg.conditions_of(cfg.node_of(c).id):
                if p and isinstance(t, ast.Compare) and len(t.ops) == 1 and isinstance(t.ops[0], ast.Eq) and isinstance(t.comparators[0], ast.Constant) and t.comparators[0].value in (126, 127):
                    sel = t.comparators[0].value
            if sel is None or not isinstance(fmt, str):
                return None
            try:
                import struct
                forms[sel] = (fmt, struct.calcsize(fmt))
            except Exception:
                return None
    return forms if set(forms) == {126, 127} else None


def r_idioms(ctx):
    from .common import repo_idioms
    repo_idioms(ctx, "C18.R6", ('http_server',))


RFC6455_OPCODES = {"Text": 0x1, "Binary": 0x2, "Close": 0x8, "Ping": 0x9, "Pong": 0xA}       # RFC 6455 section 5.2 / 11.8


def r7(ctx):
    """the opcode numbers are the protocol: 'encoded as RFC 6455 prescribes' fixes them (section 5.2), and a library that
    agrees with itself on swapped numbers still mis-reports every frame of a conforming peer"""
    ci = ctx.repo.cls("http_server:WebSocketOpCode")
    got = {}
    for name in RFC6455_OPCODES:
        v = ctx.folder.class_attr(ci, name)
        got[name] = getattr(v, "value", v)
    for name, want in RFC6455_OPCODES.items():
        ctx.check(got.get(name) == want, "C18.R7", ci, "opcode %s == 0x%X (RFC 6455)" % (name, want), witness=repr(got.get(name)))
    # the non-standard members must not collide with a standard number nor fit the 4-bit field of a real frame
    others = {}
    for st in ci.node.body:
        if isinstance(st, ast.Assign) and isinstance(st.targets[0], ast.Name) and st.targets[0].id not in RFC6455_OPCODES:
            v = ctx.folder.fold(st.value, ci.module)
            if isinstance(v, int):
                others[st.targets[0].id] = v
    ctx.check(all(v > 0xF for v in others.values()), "C18.R7", ci, "non-standard opcodes lie outside the 4-bit wire range", witness=others)


EXPLANATION = EXPLANATION + " (R7) the opcode constants are the RFC 6455 numbers (Text 1, Binary 2, Close 8, Ping 9, Pong 10); library-private opcodes lie outside the 4-bit wire range."

RULES = [("C18.R1", r1), ("C18.R2", r2), ("C18.R3", r3), ("C18.R4", r4), ("C18.R5", r5), ("C18.R6", r_idioms), ("C18.R7", r7)]
