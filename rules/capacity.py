"""Shared capacity model (C05, C06, C09): every quantity is extracted from the current
source and evaluated by the constant folder for each MTU; nothing is hard-coded."""
import ast

from engine.index import norm, walk_own, Undecided, AnchorMissing
from engine.fold import UNKNOWN
from engine.embedded import struct_sites, fmt_size, fmt_fields, INT_RANGE
from .common import calls_named

MTUS = range(512, 1501)


def _conjuncts(test):
    if isinstance(test, ast.BoolOp) and isinstance(test.op, ast.And):
        out = []
        for v in test.values:
            out += _conjuncts(v)
        return out
    return [test]


class Capacity(object):
    def __init__(self, ctx):
        self.ctx = ctx
        self._oh = {}
        repo, folder = ctx.repo, ctx.folder
        self.P = repo.cls("connection:Packet")
        self.PH = repo.cls("connection:PacketHeader")
        self.setmtu = ctx.fn("connection:Packet.setMTU")
        self.bpi = ctx.fn("connection:ConnectionBase._build_packet_impl")
        self.send = ctx.fn("connection:ConnectionBase.send")
        self.build = ctx.fn("connection:FragmentSender.build")
        self.overhead_fn = ctx.fn("connection:Packet.overhead")
        self.SIZE = self._const(self.PH, "SIZE")
        self.TAG = self._const(self.PH, "TAG_SIZE")
        self.CRC = self._const(self.PH, "CRC_SIZE")
        self.UDP = self._const(self.P, "UDP_HEADER_SIZE")
        self.FRAG_OVERHEAD = self._const(self.P, "FRAGMENT_OVERHEAD")
        self.MAX_FRAGMENTS = self._const(self.P, "MAX_FRAGMENTS")
        self._extract_guards()
        self._extract_send()
        self._extract_build()
        self._cache = {}

    def _const(self, ci, name):
        v = self.ctx.folder.class_attr(ci, name)
        if not isinstance(v, int) or isinstance(v, bool):
            raise Undecided("capacity model: %s.%s does not fold to an integer" % (ci.name, name))
        return v

    def overhead(self, n):
        if n in self._oh:
            return self._oh[n]
        self._oh[n] = self._overhead(n)
        return self._oh[n]

    def _overhead(self, n):
        v = self.ctx.folder.run_program(self.overhead_fn, {self.overhead_fn.params[0]: n})
        if not isinstance(v, int):
            raise Undecided("capacity model: Packet.overhead(%d) does not fold" % n)
        return v

    # ---- extraction ------------------------------------------------------

    def _extract_guards(self):
        """admission guards `size <= CAP` of _build_packet_impl (resend loop and new-message loop)"""
        fi = self.bpi
        self.guards = []     # (if_node, cap_expr, count_guard_expr|None, msg_var, source)
        size_defs = [n for n in walk_own(fi.node) if isinstance(n, ast.Assign) and isinstance(n.targets[0], ast.Name)
                     and n.targets[0].id == "size"]
        for sd in size_defs:
            terms = _sum_terms(sd.value)
            texts = sorted(norm(t) for t in terms)
            msgvar = None
            ok = len(terms) == 3
            kinds = set()
            for t in terms:
                tt = norm(t)
                if isinstance(t, ast.Call) and norm(t.func) == "len" and tt.endswith(".payload)"):
                    msgvar = norm(t.args[0].value)
                    kinds.add("payload")
                elif isinstance(t, ast.Call) and norm(t.func) == "Packet.overhead" and norm(t.args[0]) in ("1 + len(msgs)", "len(msgs) + 1"):
                    kinds.add("overhead")
                elif tt == "current_msg_length":
                    kinds.add("running")
            if not ok or kinds != {"payload", "overhead", "running"}:
                raise Undecided("capacity model: size expression has an unmodelled shape: %s" % norm(sd.value))
            # the guard following this definition in the same block
            blk = _block_of(sd)
            idx = blk.index(sd)
            guard = None
            for st in blk[idx + 1:]:
                if isinstance(st, ast.If) and any(isinstance(n, ast.Name) and n.id == "size" for n in ast.walk(st.test)):
                    guard = st
                    break
            if guard is None:
                raise Undecided("capacity model: no admission guard after %s" % norm(sd))
            cap = None
            count_guard = None
            for cj in _conjuncts(guard.test):
                if isinstance(cj, ast.Compare) and len(cj.ops) == 1:
                    l, r, op = cj.left, cj.comparators[0], cj.ops[0]
                    if norm(l) == "size" and isinstance(op, (ast.LtE, ast.Lt)):
                        cap = (r, 0 if isinstance(op, ast.LtE) else -1)
                    elif norm(r) == "size" and isinstance(op, (ast.GtE, ast.Gt)):
                        cap = (l, 0 if isinstance(op, ast.GtE) else -1)
                    elif norm(l) == "len(msgs)" and isinstance(op, (ast.Lt, ast.LtE)):
                        count_guard = (r, 0 if isinstance(op, ast.Lt) else 1)
                    elif norm(r) == "len(msgs)" and isinstance(op, (ast.Gt, ast.GtE)):
                        count_guard = (l, 0 if isinstance(op, ast.Gt) else 1)
                    else:
                        raise Undecided("capacity model: unmodelled admission conjunct %s" % norm(cj))
                else:
                    raise Undecided("capacity model: unmodelled admission conjunct %s" % norm(cj))
            if cap is None:
                raise Undecided("capacity model: admission guard does not bound size: %s" % norm(guard.test))
            self.guards.append({"if": guard, "cap": cap, "count": count_guard, "msg": msgvar, "size": sd})
        if len(self.guards) < 2:
            raise AnchorMissing("capacity model: admission guards in _build_packet_impl: %d < 2" % len(self.guards))

    def _extract_send(self):
        fi = self.send
        self.frag_test = None
        for n in walk_own(fi.node):
            if isinstance(n, ast.If) and any(isinstance(c, ast.Call) and norm(c.func) == "FragmentSender" for b in n.body for c in ast.walk(b)):
                t = n.test
                if isinstance(t, ast.Compare) and len(t.ops) == 1 and norm(t.left) == "len(%s)" % fi.params[1]:
                    if isinstance(t.ops[0], ast.Gt):
                        self.frag_test = (t.comparators[0], 0, n)
                    elif isinstance(t.ops[0], ast.GtE):
                        self.frag_test = (t.comparators[0], -1, n)
                if self.frag_test is None:
                    raise Undecided("capacity model: fragmentation test has an unmodelled shape: %s" % norm(t))
        if self.frag_test is None:
            raise AnchorMissing("capacity model: fragmentation branch in ConnectionBase.send")

    def _extract_build(self):
        fi = self.build
        p = fi.params[1]
        self.last_test = None
        self.slice_exprs = []
        self.limit_test = None
        for n in walk_own(fi.node):
            if isinstance(n, ast.If) and isinstance(n.test, ast.Compare) and len(n.test.ops) == 1 and norm(n.test.left) == "len(%s)" % p:
                op = n.test.ops[0]
                raises = any(isinstance(s, ast.Raise) for s in n.body)
                if raises and isinstance(op, (ast.Gt, ast.GtE)):
                    self.limit_test = (n.test.comparators[0], 0 if isinstance(op, ast.Gt) else -1, n)
                elif isinstance(op, (ast.Lt, ast.LtE)) and not raises:
                    self.last_test = (n.test.comparators[0], 0 if isinstance(op, ast.Lt) else 1, n)
            if isinstance(n, ast.Subscript) and norm(n.value) == p and isinstance(n.slice, ast.Slice):
                self.slice_exprs.append(n)
        if self.last_test is None or len(self.slice_exprs) < 2:
            raise Undecided("capacity model: FragmentSender.build has an unmodelled shape")
        pre = [s for s in struct_sites(fi, self.ctx.folder) if s.kind == "pack"]
        if len(pre) != 1 or pre[0].fmt is None:
            raise Undecided("capacity model: fragment prefix pack site")
        self.prefix_site = pre[0]

    # ---- evaluation ------------------------------------------------------

    def overrides(self, mtu):
        col = {}
        r = self.ctx.folder.run_program(self.setmtu, {self.setmtu.params[0]: mtu}, collect=col)
        if r is UNKNOWN:
            raise Undecided("capacity model: Packet.setMTU is not a constant program")
        bad = [k for k, v in col.items() if v is UNKNOWN]
        if bad:
            raise Undecided("capacity model: setMTU stores do not fold: %s" % bad)
        return col

    def at(self, mtu):
        if mtu in self._cache:
            return self._cache[mtu]
        folder = self.ctx.folder
        ov = self.overrides(mtu)

        def ev(expr, fi):
            v = folder.fold_with(expr, fi.module, cls=fi.cls, overrides=ov)
            if not isinstance(v, int) or isinstance(v, bool):
                raise Undecided("capacity model: %s does not fold at MTU %d" % (norm(expr), mtu))
            return v
        m = {"mtu": mtu}
        for k in ("Packet.MAX_SIZE", "Packet.MAX_PAYLOAD_SIZE", "Packet.MAX_FRAGMENT_SIZE", "Packet.MAX_SIZE_CRC"):
            if k not in ov:
                raise Undecided("capacity model: setMTU does not set %s" % k)
            m[k.split(".")[1]] = ov[k]
        m["T_frag"] = ev(self.frag_test[0], self.send) + self.frag_test[1]          # largest unfragmented payload
        caps = [ev(g["cap"][0], self.bpi) + g["cap"][1] for g in self.guards]
        m["CAPS"] = caps
        m["CAP"] = min(caps)
        m["L_last"] = ev(self.last_test[0], self.build) + self.last_test[1]        # last fragment: len < L_last
        m["LIMIT"] = (ev(self.limit_test[0], self.build) + self.limit_test[1]) if self.limit_test is not None else None   # largest accepted payload
        widths = set()
        for s in self.slice_exprs:
            b = s.slice.upper if s.slice.upper is not None else s.slice.lower
            widths.add(ev(b, self.build))
        m["F_set"] = sorted(widths)
        m["F"] = min(widths)
        cg = []
        for g in self.guards:
            if g["count"] is None:
                cg.append(None)
            else:
                cg.append(ev(g["count"][0], self.bpi) + g["count"][1])     # len(msgs) < K before append -> at most K messages
        m["COUNT_CAPS"] = cg
        self._cache[mtu] = m
        return m


def _sum_terms(e):
    if isinstance(e, ast.BinOp) and isinstance(e.op, ast.Add):
        return _sum_terms(e.left) + _sum_terms(e.right)
    return [e]


def _block_of(stmt):
    p = stmt._parent
    for field in ("body", "orelse", "finalbody"):
        blk = getattr(p, field, None)
        if isinstance(blk, list) and any(s is stmt for s in blk):
            return blk
    raise Undecided("cannot locate block of statement")


_CAP = {}


def capacity(ctx):
    k = id(ctx.repo)
    if k not in _CAP:
        _CAP[k] = Capacity(ctx)
    return _CAP[k]
