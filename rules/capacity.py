"""Shared capacity model (C05, C06, C09): every quantity is extracted from the current
source and evaluated by the constant folder for each MTU; nothing is hard-coded."""
import ast

from engine.index import norm, walk_own, Undecided, AnchorMissing
from engine.fold import UNKNOWN
from engine.embedded import struct_sites, fmt_size, fmt_fields, INT_RANGE
from .common import calls_named

MTUS = range(512, 1501)


def _parents_of(node, stop):
    out = []
    p = getattr(node, "_parent", None)
    while p is not None and p is not stop:
        out.append(p)
        p = getattr(p, "_parent", None)
    return out


def _conjuncts(test):
    if isinstance(test, ast.BoolOp) and isinstance(test.op, ast.And):
        out = []
        for v in test.values:
            out += _conjuncts(v)
        return out
    return [test]


class Capacity(object):
    def __init__(self, ctx):
        self.ctx = ctx
        self._oh = {}
        repo, folder = ctx.repo, ctx.folder
        self.P = repo.cls("connection:Packet")
        self.PH = repo.cls("connection:PacketHeader")
        self.setmtu = ctx.fn("connection:Packet.setMTU")
        self.bpi = ctx.fn("connection:ConnectionBase._build_packet_impl")
        self.send = ctx.fn("connection:ConnectionBase.send")
        self.build = ctx.fn("connection:FragmentSender.build")
        self.overhead_fn = ctx.fn("connection:Packet.overhead")
        self.SIZE = self._const(self.PH, "SIZE")
        self.TAG = self._const(self.PH, "TAG_SIZE")
        self.CRC = self._const(self.PH, "CRC_SIZE")
        self.UDP = self._const(self.P, "UDP_HEADER_SIZE")
        self.FRAG_OVERHEAD = self._const(self.P, "FRAGMENT_OVERHEAD")
        self.MAX_FRAGMENTS = self._const(self.P, "MAX_FRAGMENTS")
        self._extract_guards()
        self._extract_send()
        self._extract_build()
        self._cache = {}

    def _const(self, ci, name):
        v = self.ctx.folder.class_attr(ci, name)
        if not isinstance(v, int) or isinstance(v, bool):
            raise Undecided("capacity model: %s.%s does not fold to an integer" % (ci.name, name))
        return v

    def overhead(self, n):
        if n in self._oh:
            return self._oh[n]
        self._oh[n] = self._overhead(n)
        return self._oh[n]

    def _overhead(self, n):
        v = self.ctx.folder.run_program(self.overhead_fn, {self.overhead_fn.params[0]: n})
        from engine.fold import Raises
        from engine.index import ModelViolation
        if isinstance(v, Raises):
            # the packing loops evaluate Packet.overhead(1 + len(msgs)) *before* they test the message count: with MAX_MESSAGES messages
            # selected and one more queued the helper is asked about MAX_MESSAGES + 1
            raise ModelViolation(self.overhead_fn, "Packet.overhead(%d) raises %s" % (n, v.name),
                                 "the size helper must be total over every count the packing loops ask about (0 .. MAX_MESSAGES + 1): an exception there leaves "
                                 "packet construction with the already selected messages popped from their queues - they are lost", witness={"n": n, "raises": v.name})
        if not isinstance(v, int):
            raise Undecided("capacity model: Packet.overhead(%d) does not fold" % n)
        return v

    # ---- extraction ------------------------------------------------------

    def _extract_guards(self):
        """admission guards of _build_packet_impl (resend loop and new-message loop) and the linear accounting model of the two
        packing loops (see class Accounting).  Anchored on the admit statement `msgs.append(<message>)` inside a loop: the
        conditions under which it executes (CFG, leaf tests with polarity) give the size bound  E <= CAP  and the count bound
        len(msgs) < K  however they are spelled (one condition, nested ifs, guard clauses with continue); E is read through the
        temporaries that hold it; the statements that share the admit statement's block and conditions are the admit branch."""
        import types
        from engine.cfg import cfg_of
        from .common import sym_expr
        fi = self.bpi
        cfg = cfg_of(fi)
        self.guards = []
        admits = [c for c in walk_own(fi.node) if isinstance(c, ast.Call) and norm(c.func) == "msgs.append" and len(c.args) == 1 and isinstance(c.args[0], ast.Name)
                  and any(isinstance(p_, (ast.For, ast.While)) for p_ in _parents_of(c, fi.node))]
        flip = {ast.Lt: ast.Gt, ast.LtE: ast.GtE, ast.Gt: ast.Lt, ast.GtE: ast.LtE}
        compl = {ast.Lt: ast.GtE, ast.LtE: ast.Gt, ast.Gt: ast.LtE, ast.GtE: ast.Lt}
        for c in admits:
            node = cfg.node_of(c)
            msgvar = c.args[0].id
            cap = None
            count_guard = None
            size_expr = None
            texts = []
            for (t, pol) in cfg.conditions_of(node.id, loop_exits=False):
                tn = cfg.node_of(t)
                e = sym_expr(fi, t, tn, allow_calls=("len", "Packet.overhead"), keep=(msgvar, "msgs")) if tn is not None else t
                if not (isinstance(e, ast.Compare) and len(e.ops) == 1 and type(e.ops[0]) in flip):
                    if any(isinstance(x, ast.Name) and x.id == "msgs" for x in ast.walk(e)) or ".payload" in norm(e):
                        raise Undecided("capacity model: unmodelled admission conjunct %s" % norm(t))
                    continue
                l, r, op = e.left, e.comparators[0], type(e.ops[0])
                if not pol:
                    op = compl[op]
                texts.append("%s %s %s" % (norm(l), {ast.Lt: "<", ast.LtE: "<=", ast.Gt: ">", ast.GtE: ">="}[op], norm(r)))
                # orient: small side on the left
                if op in (ast.Gt, ast.GtE):
                    l, r, op = r, l, flip[op]
                measures = lambda x: any(isinstance(y, ast.Call) and norm(y.func) == "len" and y.args and norm(y.args[0]) == "%s.payload" % msgvar for y in ast.walk(x))
                if measures(l) and not measures(r):
                    if cap is not None:
                        raise Undecided("capacity model: two size bounds on one admission")
                    cap = (r, 0 if op is ast.LtE else -1)
                    size_expr = l
                elif norm(l) == "len(msgs)":
                    count_guard = (r, 0 if op is ast.Lt else 1)
                elif measures(r) or "len(msgs)" in norm(e):
                    raise Undecided("capacity model: unmodelled admission conjunct %s" % norm(t))
            if cap is None:
                raise Undecided("capacity model: the admission of %s is not bounded by a size test" % msgvar)
            # admit branch: the statements of the admit statement's block that execute under the same conditions
            st = c
            while not isinstance(st, ast.stmt):
                st = st._parent
            blk = _block_of(st)
            want = {(id(t), p_) for (t, p_) in cfg.conditions_of(node.id, loop_exits=False)}
            body = []
            for s_ in blk:
                sn = cfg.node_of(s_)
                if sn is None:
                    sn = next((cfg.node_of(x) for x in ast.walk(s_) if cfg.node_of(x) is not None), None)
                if sn is not None and {(id(t), p_) for (t, p_) in cfg.conditions_of(sn.id, loop_exits=False)} >= want:
                    body.append(s_)
            sd = ast.parse("size = %s" % norm(size_expr)).body[0]
            test = ast.parse(" and ".join("(%s)" % t_ for t_ in texts) or "True", mode="eval").body
            self.guards.append({"if": types.SimpleNamespace(test=test, body=body, lineno=st.lineno), "cap": cap, "count": count_guard, "msg": msgvar, "size": sd, "pre": [sd]})
        self.guards.sort(key=lambda g: g["if"].lineno)
        if len(self.guards) < 2:
            raise AnchorMissing("capacity model: admission guards in _build_packet_impl: %d < 2" % len(self.guards))
        self.accounting = Accounting(self)

    def _extract_send(self):
        """the fragmentation decision of ConnectionBase.send, anchored on the construction of the FragmentSender: the
        conditions under which it executes (CFG, leaf tests with polarity) contain one comparison of len(payload) with a
        bound, however the branch is spelled (if/else, guard clause with early return, mirrored or complemented comparison)"""
        from engine.cfg import cfg_of
        fi = self.send
        cfg = cfg_of(fi)
        self.frag_test = None
        flip = {ast.Lt: ast.Gt, ast.LtE: ast.GtE, ast.Gt: ast.Lt, ast.GtE: ast.LtE}
        compl = {ast.Lt: ast.GtE, ast.LtE: ast.Gt, ast.Gt: ast.LtE, ast.GtE: ast.Lt}
        ln = "len(%s)" % fi.params[1]
        ctors = [c for c in walk_own(fi.node) if isinstance(c, ast.Call) and norm(c.func) == "FragmentSender"]
        for c in ctors:
            node = cfg.node_of(c)
            for (t, pol) in cfg.conditions_of(node.id, loop_exits=False):
                if not (isinstance(t, ast.Compare) and len(t.ops) == 1 and ln in (norm(t.left), norm(t.comparators[0]))):
                    continue
                op = type(t.ops[0])
                if op not in flip:
                    raise Undecided("capacity model: fragmentation test has an unmodelled shape: %s" % norm(t))
                l, r = t.left, t.comparators[0]
                if norm(r) == ln:
                    l, r, op = r, l, flip[op]
                if not pol:
                    op = compl[op]
                if op is ast.Gt:
                    found = (r, 0, t, pol)
                elif op is ast.GtE:
                    found = (r, -1, t, pol)
                else:
                    raise Undecided("capacity model: the FragmentSender is built for payloads below a bound: %s" % norm(t))
                if self.frag_test is not None:
                    raise Undecided("capacity model: two length tests govern the fragmentation branch")
                self.frag_test = found
        if self.frag_test is None:
            raise AnchorMissing("capacity model: fragmentation branch in ConnectionBase.send")

    def send_calls(self, fragmented):
        """the _send_type calls of send() that execute on the fragmented (True) / unfragmented (False) side of the length test"""
        from engine.cfg import cfg_of
        cfg = cfg_of(self.send)
        t, pol = self.frag_test[2], self.frag_test[3]
        out = []
        for c in walk_own(self.send.node):
            if isinstance(c, ast.Call) and isinstance(c.func, ast.Attribute) and c.func.attr == "_send_type":
                conds = {(id(x), p_) for (x, p_) in cfg.conditions_of(cfg.node_of(c).id, loop_exits=False)}
                if (id(t), pol if fragmented else not pol) in conds:
                    out.append(c)
        return out

    def _extract_build(self):
        fi = self.build
        p = fi.params[1]
        self.last_test = None
        self.slice_exprs = []
        self.limit_test = None
        from engine.cfg import cfg_of
        from .common import sym_expr
        bcfg = cfg_of(fi)
        for n in walk_own(fi.node):
            if isinstance(n, ast.If) and isinstance(n.test, ast.Compare) and len(n.test.ops) == 1 and norm(n.test.left) == "len(%s)" % p:
                op = n.test.ops[0]
                raises = any(isinstance(s, ast.Raise) for s in n.body)
                tn = bcfg.node_of(n.test)
                rhs = sym_expr(fi, n.test.comparators[0], tn) if tn is not None else n.test.comparators[0]
                if raises and isinstance(op, (ast.Gt, ast.GtE)):
                    self.limit_test = (rhs, 0 if isinstance(op, ast.Gt) else -1, n)
                elif isinstance(op, (ast.Lt, ast.LtE)) and not raises:
                    self.last_test = (rhs, 0 if isinstance(op, ast.Lt) else 1, n)
            if isinstance(n, ast.Subscript) and norm(n.value) == p and isinstance(n.slice, ast.Slice):
                self.slice_exprs.append(n)
        # the if/else shape of the split loop is optional: when it is not recognised the split is decided by the length
        # abstraction (class SplitModel) alone
        self.build_shape = not (self.last_test is None or len(self.slice_exprs) < 2)
        self.split = SplitModel(self)
        pre = [s for s in struct_sites(fi, self.ctx.folder) if s.kind == "pack"]
        if len(pre) != 1 or pre[0].fmt is None:
            raise Undecided("capacity model: fragment prefix pack site")
        self.prefix_site = pre[0]

    # ---- evaluation ------------------------------------------------------

    def overrides(self, mtu):
        col = {}
        r = self.ctx.folder.run_program(self.setmtu, {self.setmtu.params[0]: mtu}, collect=col)
        if r is UNKNOWN:
            raise Undecided("capacity model: Packet.setMTU is not a constant program")
        bad = [k for k, v in col.items() if v is UNKNOWN]
        if bad:
            raise Undecided("capacity model: setMTU stores do not fold: %s" % bad)
        return col

    def at(self, mtu):
        if mtu in self._cache:
            return self._cache[mtu]
        folder = self.ctx.folder
        ov = self.overrides(mtu)

        def ev(expr, fi):
            v = folder.fold_with(expr, fi.module, cls=fi.cls, overrides=ov)
            if not isinstance(v, int) or isinstance(v, bool):
                raise Undecided("capacity model: %s does not fold at MTU %d" % (norm(expr), mtu))
            return v
        m = {"mtu": mtu}
        for k in ("Packet.MAX_SIZE", "Packet.MAX_PAYLOAD_SIZE", "Packet.MAX_FRAGMENT_SIZE", "Packet.MAX_SIZE_CRC"):
            if k not in ov:
                raise Undecided("capacity model: setMTU does not set %s" % k)
            m[k.split(".")[1]] = ov[k]
        m["T_frag"] = ev(self.frag_test[0], self.send) + self.frag_test[1]          # largest unfragmented payload
        caps = [ev(g["cap"][0], self.bpi) + g["cap"][1] for g in self.guards]
        m["CAPS"] = caps
        m["CAP"] = min(caps)
        m["L_last"] = (ev(self.last_test[0], self.build) + self.last_test[1]) if self.build_shape else None        # last fragment: len < L_last
        m["LIMIT"] = (ev(self.limit_test[0], self.build) + self.limit_test[1]) if self.limit_test is not None else None   # largest accepted payload
        widths = set()
        for s in (self.slice_exprs if self.build_shape else []):
            b = s.slice.upper if s.slice.upper is not None else s.slice.lower
            if b is not None:
                widths.add(ev(b, self.build))
        m["F_set"] = sorted(widths)
        m["F"] = min(widths) if widths else None
        m["ov"] = ov
        cg = []
        for g in self.guards:
            if g["count"] is None:
                cg.append(None)
            else:
                cg.append(ev(g["count"][0], self.bpi) + g["count"][1])     # len(msgs) < K before append -> at most K messages
        m["COUNT_CAPS"] = cg
        acc = self.accounting.evaluate(ov)
        m["alone"] = acc["alone"]          # per guard: (coefficient of p, constant) of `size` for an empty datagram
        m["excess"] = acc["excess"]        # per guard, per case: linear form  actual encoded payload - accounted size
        m["steps"] = acc["steps"]
        m["uniform"] = acc["uniform"]
        self._cache[mtu] = m
        return m

    def size_alone(self, m, i, p):
        sp, s0 = m["alone"][i]
        return sp * p + s0

    def admissible_empty(self, m):
        """how many empty messages the guards admit into one datagram (joint bound over both loops, by size and count guard)"""
        return self.accounting.count_bound(m)


class SplitModel(object):
    """Length abstraction of FragmentSender.build's split phase: a byte string is represented by its length (exact for the
    control flow, which only compares lengths and slices by constants).  split(l, ov) interprets the statements that precede
    the `for ... in enumerate(self.fragments)` loop and returns the list of fragment lengths, or ('raise', type) / Undecided."""

    MAX_STEPS = 400000

    def __init__(self, cap):
        self.cap = cap
        fi = cap.build
        self.fi = fi
        self.p = fi.params[1]
        body = [st for st in fi.node.body if not (isinstance(st, ast.Expr) and isinstance(st.value, ast.Constant))]
        self.stmts = []
        for st in body:
            if isinstance(st, ast.For) and "self.fragments" in norm(st.iter):
                break               # the emit loop over the finished fragment list
            self.stmts.append(st)
        self._consts = {}

    def const(self, e, ov):
        key = (id(e), id(ov))
        if key not in self._consts:
            v = self.cap.ctx.folder.fold_with(e, self.fi.module, cls=self.fi.cls, overrides=ov)
            if not isinstance(v, int) or isinstance(v, bool):
                raise Undecided("split model: %s does not fold" % norm(e))
            self._consts[key] = v
        return self._consts[key]

    def span(self, e, st, ov):
        """[start, end) offsets (into the original payload) of the bytes expression e"""
        s0, e0 = st["rng"]
        if isinstance(e, ast.Name) and e.id == self.p:
            return (s0, e0)
        bvars = st.get("bvars", {})
        if isinstance(e, ast.Name) and e.id in bvars:
            return bvars[e.id]
        if isinstance(e, ast.Subscript) and isinstance(e.value, ast.Name) and e.value.id in bvars and isinstance(e.slice, ast.Slice) and e.slice.step is None:
            s0, e0 = bvars[e.value.id]
            e = ast.Subscript(value=ast.Name(id=self.p, ctx=ast.Load()), slice=e.slice, ctx=ast.Load())
            return self.span(e, dict(st, rng=(s0, e0), bvars={}), ov)
        if isinstance(e, ast.Constant) and isinstance(e.value, (bytes, str)) and len(e.value) == 0:
            return (e0, e0)
        if isinstance(e, ast.Call) and norm(e.func) in ("bytes",) and not e.args:
            return (e0, e0)
        if isinstance(e, ast.Subscript) and isinstance(e.value, ast.Name) and e.value.id == self.p and isinstance(e.slice, ast.Slice) and e.slice.step is None:
            lo = self.ival(e.slice.lower, st, ov) if e.slice.lower is not None else 0
            hi = self.ival(e.slice.upper, st, ov) if e.slice.upper is not None else None
            if lo < 0 or (hi is not None and hi < 0):
                raise Undecided("split model: negative slice bound in %s" % norm(e))
            l = e0 - s0
            hi = l if hi is None else min(hi, l)
            lo = min(lo, l)
            if hi < lo:
                hi = lo
            return (s0 + lo, s0 + hi)
        raise Undecided("split model: %s is not a slice of the payload" % norm(e))

    def length(self, e, st, ov):
        a, b_ = self.span(e, st, ov)
        return b_ - a

    def ival(self, e, st, ov):
        """integer value of an expression over constants, integer locals, len(<payload slice>) and len(self.fragments)"""
        ints = st.setdefault("ints", {})
        if isinstance(e, ast.Name) and e.id in ints:
            return ints[e.id]
        if isinstance(e, ast.Call) and norm(e.func) == "len" and len(e.args) == 1:
            if norm(e.args[0]) == "self.fragments":
                return len(st["frags"])
            if isinstance(e.args[0], ast.Name) and e.args[0].id in st.get("lists", {}):
                return len(st["lists"][e.args[0].id])
            return self.length(e.args[0], st, ov)
        if isinstance(e, ast.Call) and norm(e.func) in ("min", "max") and e.args and not e.keywords:
            vals = [self.ival(a, st, ov) for a in e.args]
            return min(vals) if norm(e.func) == "min" else max(vals)
        if isinstance(e, ast.BinOp) and any(isinstance(x, ast.Name) and x.id in ints or (isinstance(x, ast.Call) and norm(x.func) == "len") for x in ast.walk(e)):
            a, b = self.ival(e.left, st, ov), self.ival(e.right, st, ov)
            if isinstance(e.op, ast.Add):
                return a + b
            if isinstance(e.op, ast.Sub):
                return a - b
            if isinstance(e.op, ast.Mult):
                return a * b
            if isinstance(e.op, ast.FloorDiv) and b != 0:
                return a // b
            if isinstance(e.op, ast.Mod) and b != 0:
                return a % b
            raise Undecided("split model: operator in %s" % norm(e))
        if isinstance(e, ast.UnaryOp) and isinstance(e.op, ast.USub):
            return -self.ival(e.operand, st, ov)
        if isinstance(e, ast.IfExp):
            return self.ival(e.body if self.test(e.test, st, ov) else e.orelse, st, ov)
        return self.const(e, ov)

    def _is_span_expr(self, e, st):
        """the payload, a byte-string local, or a slice of one"""
        if isinstance(e, ast.Name):
            return e.id == self.p or e.id in st.get("bvars", {})
        if isinstance(e, ast.Subscript) and isinstance(e.slice, ast.Slice) and isinstance(e.value, ast.Name):
            return e.value.id == self.p or e.value.id in st.get("bvars", {})
        return False

    def _is_int_expr(self, e, st):
        """an expression that is an integer by construction (no bytes value involved)"""
        ints = st.get("ints", {})
        for x in ast.walk(e):
            if isinstance(x, ast.Name) and (x.id == self.p or x.id in st.get("bvars", {})) and not (isinstance(getattr(x, "_parent", None), ast.Call) and norm(x._parent.func) == "len") \
                    and not isinstance(getattr(x, "_parent", None), ast.Subscript):
                return False
            if isinstance(x, ast.Subscript) and not (isinstance(getattr(x, "_parent", None), ast.Call) and norm(x._parent.func) == "len"):
                return False
            if isinstance(x, ast.Constant) and isinstance(x.value, (bytes, str)):
                return False
        return True

    def test(self, t, st, ov):
        if isinstance(t, ast.UnaryOp) and isinstance(t.op, ast.Not):
            return not self.test(t.operand, st, ov)
        if isinstance(t, ast.BoolOp):
            vals = [self.test(v, st, ov) for v in t.values]
            return all(vals) if isinstance(t.op, ast.And) else any(vals)
        if isinstance(t, ast.Name) and t.id == self.p:
            return st["rng"][1] > st["rng"][0]
        if isinstance(t, ast.Name) and t.id in st.get("bvars", {}):
            return st["bvars"][t.id][1] > st["bvars"][t.id][0]
        if isinstance(t, ast.Call) and norm(t.func) == "len" and len(t.args) == 1 and isinstance(t.args[0], ast.Name) and (t.args[0].id == self.p or t.args[0].id in st.get("bvars", {})):
            a_, b_ = self.span(t.args[0], st, ov)
            return b_ > a_
        if isinstance(t, ast.Compare) and len(t.ops) > 1:
            parts = [t.left] + list(t.comparators)
            return all(self.test(ast.Compare(left=parts[i], ops=[t.ops[i]], comparators=[parts[i + 1]]), st, ov) for i in range(len(t.ops)))
        if isinstance(t, ast.Compare) and len(t.ops) == 1:
            def val(x):
                return self.ival(x, st, ov)
            a, b = val(t.left), val(t.comparators[0])
            import operator
            ops = {ast.Lt: operator.lt, ast.LtE: operator.le, ast.Gt: operator.gt, ast.GtE: operator.ge, ast.Eq: operator.eq, ast.NotEq: operator.ne}
            if type(t.ops[0]) in ops:
                return ops[type(t.ops[0])](a, b)
        raise Undecided("split model: test %s is not modelled" % norm(t))

    def run(self, stmts, st, ov):
        for s in stmts:
            st["steps"] += 1
            if st["steps"] > self.MAX_STEPS:
                return ("nonterminating",)
            if isinstance(s, ast.If):
                r = self.run(s.body if self.test(s.test, st, ov) else s.orelse, st, ov)
                if r is not None:
                    return r
            elif isinstance(s, ast.While):
                while self.test(s.test, st, ov):
                    r = self.run(s.body, st, ov)
                    if r is not None:
                        if r == ("break",):
                            break
                        if r == ("continue",):
                            continue
                        return r
                    st["steps"] += 1
                    if st["steps"] > self.MAX_STEPS:
                        return ("nonterminating",)
            elif isinstance(s, ast.For) and isinstance(s.target, ast.Name) and isinstance(s.iter, ast.Call) and norm(s.iter.func) == "range" \
                    and 1 <= len(s.iter.args) <= 3 and not s.orelse:
                args = [self.ival(a, st, ov) for a in s.iter.args]
                if len(args) == 3 and args[2] == 0:
                    return ("raise", "ValueError")
                for v in range(*args):
                    st.setdefault("ints", {})[s.target.id] = v
                    r = self.run(s.body, st, ov)
                    if r is not None:
                        if r == ("break",):
                            break
                        if r == ("continue",):
                            continue
                        return r
                    st["steps"] += 1
                    if st["steps"] > self.MAX_STEPS:
                        return ("nonterminating",)
            elif isinstance(s, ast.AugAssign) and isinstance(s.target, ast.Name) and s.target.id in st.get("ints", {}) and isinstance(s.op, (ast.Add, ast.Sub)):
                d = self.ival(s.value, st, ov)
                st["ints"][s.target.id] += d if isinstance(s.op, ast.Add) else -d
            elif isinstance(s, ast.Raise):
                return ("raise", norm(s.exc.func) if isinstance(s.exc, ast.Call) else norm(s.exc))
            elif isinstance(s, ast.Break):
                return ("break",)
            elif isinstance(s, ast.Continue):
                return ("continue",)
            elif isinstance(s, ast.Pass):
                pass
            elif isinstance(s, ast.Assign) and len(s.targets) == 1:
                t = norm(s.targets[0])
                if t == self.p:
                    st["rng"] = self.span(s.value, st, ov)
                elif isinstance(s.targets[0], ast.Name) and (t in st.get("bvars", {}) or self._is_span_expr(s.value, st)):
                    # another local that holds a slice of the payload (remaining = payload; remaining = remaining[k:])
                    st.setdefault("bvars", {})[t] = self.span(s.value, st, ov)
                elif t == "self.fragments" or (isinstance(s.targets[0], ast.Name) and (isinstance(s.value, ast.List) or
                                                                                    (isinstance(s.value, ast.Name) and s.value.id in st.setdefault("lists", {})))):
                    # the fragment list itself, or a local list that will become it
                    lists = st.setdefault("lists", {})
                    if isinstance(s.value, ast.List):
                        val = [self.span(e_, st, ov) for e_ in s.value.elts]
                    elif isinstance(s.value, ast.Name) and s.value.id in lists:
                        val = lists[s.value.id]
                    elif norm(s.value) == "self.fragments":
                        val = st["frags"]
                    else:
                        raise Undecided("split model: %s" % norm(s))
                    if t == "self.fragments":
                        st["frags"] = val
                    else:
                        lists[t] = val
                elif t.startswith("self.") and t not in ("self.fragments",):
                    pass          # bookkeeping lists (acks, payloads, msgseqs) do not influence the split
                elif isinstance(s.targets[0], ast.Name) and self._is_int_expr(s.value, st):
                    st.setdefault("ints", {})[t] = self.ival(s.value, st, ov)
                else:
                    raise Undecided("split model: assignment %s is not modelled" % norm(s)[:60])
            elif isinstance(s, ast.Expr) and isinstance(s.value, ast.Call) and norm(s.value.func) == "self.fragments.append" and len(s.value.args) == 1:
                st["frags"].append(self.span(s.value.args[0], st, ov))
            elif isinstance(s, ast.Expr) and isinstance(s.value, ast.Call) and isinstance(s.value.func, ast.Attribute) and s.value.func.attr == "append" \
                    and isinstance(s.value.func.value, ast.Name) and s.value.func.value.id in st.get("lists", {}) and len(s.value.args) == 1:
                st["lists"][s.value.func.value.id].append(self.span(s.value.args[0], st, ov))
            elif isinstance(s, ast.Expr) and isinstance(s.value, ast.Constant):
                pass
            else:
                raise Undecided("split model: statement %s is not modelled" % norm(s)[:60])
        return None

    def split(self, l, ov):
        st = {"rng": (0, l), "frags": [], "steps": 0}
        r = self.run(self.stmts, st, ov)
        if r is not None:
            return r
        return list(st["frags"])        # [start, end) offsets of every fragment, in order

    def constants(self, ov):
        """integer constants the split phase compares / slices with (cut points of the length abstraction)"""
        out = set()
        for s in self.stmts:
            for n in ast.walk(s):
                if isinstance(n, (ast.Attribute, ast.BinOp, ast.Constant)) and not isinstance(getattr(n, "_parent", None), (ast.Attribute,)):
                    try:
                        v = self.cap.ctx.folder.fold_with(n, self.fi.module, cls=self.fi.cls, overrides=ov)
                    except Exception:
                        continue
                    if isinstance(v, int) and not isinstance(v, bool) and 0 < v < 10 ** 6:
                        out.add(v)
        return sorted(out)

    def lengths_to_probe(self, m, exhaustive):
        """payload lengths around every boundary of the split (all lengths of a few periods when exhaustive)"""
        T = m["T_frag"]
        cs = self.constants(m["ov"])
        ls = set(range(T + 1, T + 4))
        big = max(cs) if cs else 1024
        if exhaustive:
            ls |= set(range(T + 1, T + 1 + 4 * big + 8))
        for c in cs:
            for k in range(1, 5):
                for d in range(-2, 3):
                    ls.add(k * c + d)
            for c2 in cs:
                for d in range(-2, 3):
                    ls.add(c + c2 + d)
                    ls.add(2 * c + c2 + d)
        return sorted(x for x in ls if x > T)


class Accounting(object):
    """Linear accounting model of the packing loops (an abstract interpretation in the domain of linear forms over
    p = length of the candidate payload, n = messages already admitted, S = sum of the admitted payload lengths).

    Every local variable that an admit-branch updates is an *accounting variable*.  Its update must be a unit recurrence
    a' = a + u_c + v*p  on each case c in {n=0, n=1, n>=2}; the closed form  a(n, S) = init + u_0 + u_1 + (n-2)*u_2 + v*S  then
    follows by induction and is substituted into the guard's `size`.  The real encoded payload after the admission is
    S + p + overhead(n+1); `excess` = real - accounted must be a constant <= CAP_true - CAP (never positive in p, S or n).
    Anything outside this shape is Undecided (exit 2), never guessed."""

    CASES = ("n=0", "n=1", "n>=2")

    def __init__(self, cap):
        self.cap = cap
        fi = cap.bpi
        self.fi = fi
        # accounting variables: names assigned in an admit branch
        self.vars = []
        for g in cap.guards:
            for st in g["if"].body:
                for t in _assigned_names(st):
                    if t not in self.vars and t not in ("idx",):
                        self.vars.append(t)
        if not self.vars:
            raise Undecided("accounting model: no accounting variable is updated when a message is admitted")
        # initial values (assignments that precede both loops, at function level)
        self.init_exprs = {}
        for st in fi.node.body:
            if isinstance(st, ast.Assign) and isinstance(st.targets[0], ast.Name) and st.targets[0].id in self.vars:
                self.init_exprs[st.targets[0].id] = st.value
        missing = [v for v in self.vars if v not in self.init_exprs]
        if missing:
            raise Undecided("accounting model: accounting variable(s) %s are not initialised at function level" % missing)
        # linearity of Packet.overhead beyond 2 messages
        b = cap.overhead(3) - cap.overhead(2)
        for k in range(2, 301):
            if cap.overhead(k) != b * k:
                raise Undecided("accounting model: Packet.overhead is not linear for k >= 2 (k=%d)" % k)
        self.b = b

    # -- linear forms: dict symbol -> coefficient, key 1 = constant ----------------------------------------------------
    @staticmethod
    def _add(x, y, sign=1):
        out = dict(x)
        for k, v in y.items():
            out[k] = out.get(k, 0) + sign * v
        return {k: v for k, v in out.items() if v != 0 or k == 1}

    @staticmethod
    def _scale(x, c):
        return {k: v * c for k, v in x.items()}

    def _const(self, x):
        return all(k == 1 for k in x)

    def lin(self, e, env, case, g, ov):
        """linear form of expression e in case `case`; env: temporaries and 'A:<var>' placeholders"""
        cap = self.cap
        if isinstance(e, ast.Constant) and isinstance(e.value, int) and not isinstance(e.value, bool):
            return {1: e.value}
        if isinstance(e, ast.Name):
            if e.id in env:
                return env[e.id]
            if e.id in self.vars:
                return {"A:" + e.id: 1}
            raise Undecided("accounting model: unknown name %s in the size computation" % e.id)
        if isinstance(e, ast.Call) and norm(e.func) == "len" and len(e.args) == 1:
            t = norm(e.args[0])
            if t == "%s.payload" % g["msg"]:
                return {"p": 1}
            if t == "msgs":
                return {1: 0} if case == "n=0" else {1: 1} if case == "n=1" else {"n": 1}
            raise Undecided("accounting model: len(%s) is not modelled" % t)
        if isinstance(e, ast.BinOp) and isinstance(e.op, (ast.Add, ast.Sub)):
            return self._add(self.lin(e.left, env, case, g, ov), self.lin(e.right, env, case, g, ov), 1 if isinstance(e.op, ast.Add) else -1)
        if isinstance(e, ast.BinOp) and isinstance(e.op, ast.Mult):
            l, r = self.lin(e.left, env, case, g, ov), self.lin(e.right, env, case, g, ov)
            if self._const(l):
                return self._scale(r, l.get(1, 0))
            if self._const(r):
                return self._scale(l, r.get(1, 0))
            raise Undecided("accounting model: non-linear product %s" % norm(e))
        if isinstance(e, ast.IfExp):
            t = self.truth(e.test, case)
            return self.lin(e.body if t else e.orelse, env, case, g, ov)
        if isinstance(e, ast.Call) and norm(e.func) == "Packet.overhead" and len(e.args) == 1:
            a = self.lin(e.args[0], env, case, g, ov)
            if self._const(a):
                return {1: cap.overhead(a.get(1, 0))}
            if set(a) <= {"n", 1} and a.get("n") == 1 and a.get(1, 0) >= 0:
                return {"n": self.b, 1: self.b * a.get(1, 0)}          # overhead(n + j) = b*(n + j) for n >= 2
            raise Undecided("accounting model: Packet.overhead(%s) is not modelled" % norm(e.args[0]))
        v = cap.ctx.folder.fold_with(e, self.fi.module, cls=self.fi.cls, overrides=ov)
        if isinstance(v, int) and not isinstance(v, bool):
            return {1: v}
        raise Undecided("accounting model: %s is not a linear form" % norm(e))

    def truth(self, t, case):
        n0 = case == "n=0"
        txt = norm(t)
        table = {"msgs": not n0, "not msgs": n0, "len(msgs) == 0": n0, "len(msgs) > 0": not n0, "len(msgs) >= 1": not n0, "len(msgs) != 0": not n0,
                 "len(msgs) < 1": n0, "len(msgs)": not n0, "len(msgs) == 1": case == "n=1", "len(msgs) > 1": case == "n>=2", "len(msgs) >= 2": case == "n>=2"}
        if txt in table:
            return table[txt]
        raise Undecided("accounting model: test %s is not decidable per message-count case" % txt)

    def _body_forms(self, g, case, ov):
        """(size form, {var: updated form}) of one loop for one case, over placeholders A:<var>, p, n"""
        # temporaries are resolved on demand (only what `size` and the updates depend on)
        defs = {st.targets[0].id: st.value for st in g["pre"]}
        env = _LazyEnv(self, defs, case, g, ov)
        if "size" not in defs:
            raise Undecided("accounting model: `size` is not computed before the guard")
        upd = {}
        env2 = env
        from engine.cfg import cfg_of
        from .common import sym_expr
        cfg = cfg_of(self.fi)

        def value_of(st):
            # the update may read the payload length through a temporary bound earlier in the iteration
            at = cfg.node_of(st)
            if at is None:
                return st.value
            return sym_expr(self.fi, st.value, at, allow_calls=("len", "Packet.overhead"), keep=tuple(self.vars) + (g["msg"], "msgs"))
        for st in g["if"].body:
            if isinstance(st, ast.Assign) and isinstance(st.targets[0], ast.Name) and st.targets[0].id in self.vars:
                upd[st.targets[0].id] = self.lin(value_of(st), env2, case, g, ov)
            elif isinstance(st, ast.AugAssign) and isinstance(st.target, ast.Name) and st.target.id in self.vars and isinstance(st.op, (ast.Add, ast.Sub)):
                cur = upd.get(st.target.id, {"A:" + st.target.id: 1})
                upd[st.target.id] = self._add(cur, self.lin(value_of(st), env2, case, g, ov), 1 if isinstance(st.op, ast.Add) else -1)
            elif _assigned_names(st):
                raise Undecided("accounting model: unmodelled update %s" % norm(st)[:60])
        return env["size"], upd

    def evaluate(self, ov):
        if not hasattr(self, "_dep_texts"):
            txt = " ".join(norm(st.value) for g in self.cap.guards for st in g["pre"]) + " " + " ".join(norm(st) for g in self.cap.guards for st in g["if"].body) + \
                " " + " ".join(norm(e) for e in self.init_exprs.values())
            self._dep_texts = txt
        key = tuple(sorted((k, v) for k, v in ov.items() if isinstance(v, (int, float)) and k in self._dep_texts))
        if getattr(self, "_memo_key", None) == key:
            return self._memo
        cap = self.cap
        init = {}
        for v in self.vars:
            f = self.lin(self.init_exprs[v], {}, "n=0", cap.guards[0], ov)
            if not self._const(f):
                raise Undecided("accounting model: initial value of %s is not constant" % v)
            init[v] = f.get(1, 0)
        steps = []      # per guard: {case: {var: (u, v)}}
        sizes = []      # per guard: {case: size form over placeholders}
        for g in cap.guards:
            st, sz = {}, {}
            for case in self.CASES:
                size, upd = self._body_forms(g, case, ov)
                sz[case] = size
                st[case] = {}
                for v in self.vars:
                    f = upd.get(v, {"A:" + v: 1})
                    others = [k for k in f if k not in ("A:" + v, "p", 1)]
                    if f.get("A:" + v, 0) != 1 or others:
                        raise Undecided("accounting model: update of %s is not a unit recurrence in case %s: %r" % (v, case, f))
                    st[case][v] = (f.get(1, 0), f.get("p", 0))
            steps.append(st)
            sizes.append(sz)
        # both loops feed one list.  When their step functions agree the closed form is exact.  When they differ (or the payload
        # coefficient depends on the case) the accounting variable is only bounded from below: every admission adds at least
        # min(u) + min(v)*p.  The lower bound is what matters for "never under-counts" (`size` must grow with the variable).
        uniform = all(steps[i] == steps[0] for i in range(1, len(steps))) and \
            all(steps[0]["n=0"][v][1] == steps[0]["n=1"][v][1] == steps[0]["n>=2"][v][1] for v in self.vars)
        if not uniform:
            for sz in sizes:
                for case in self.CASES:
                    if any(c < 0 for k, c in sz[case].items() if isinstance(k, str) and k.startswith("A:")):
                        raise Undecided("accounting model: `size` decreases with an accounting variable and the loops differ")
            low = {}
            for case in self.CASES:
                low[case] = {v: (min(st[case][v][0] for st in steps), min(st[c2][v][1] for st in steps for c2 in self.CASES)) for v in self.vars}
            steps = [low for _ in steps]
        closed = {}     # case -> var -> linear form over n, S   (exact if uniform, else a lower bound)
        for v in self.vars:
            u0, v0 = steps[0]["n=0"][v]
            u1, v1 = steps[0]["n=1"][v]
            u2, v2 = steps[0]["n>=2"][v]
            closed.setdefault("n=0", {})[v] = {1: init[v]}
            closed.setdefault("n=1", {})[v] = {1: init[v] + u0, "S": v0}
            closed.setdefault("n>=2", {})[v] = {1: init[v] + u0 + u1 - 2 * u2, "n": u2, "S": v0}
        alone, excess = [], []
        for gi, g in enumerate(cap.guards):
            ex = {}
            for case in self.CASES:
                size = {1: 0}
                for k, c in sizes[gi][case].items():
                    if isinstance(k, str) and k.startswith("A:"):
                        size = self._add(size, self._scale(closed[case][k[2:]], c))
                    else:
                        size = self._add(size, {k: c})
                if case == "n=0":
                    actual = {"p": 1, 1: cap.overhead(1)}
                    alone.append((size.get("p", 0), size.get(1, 0)))
                    if [k for k in size if k not in ("p", 1)]:
                        raise Undecided("accounting model: size for an empty datagram depends on %r" % size)
                elif case == "n=1":
                    actual = {"S": 1, "p": 1, 1: cap.overhead(2)}
                else:
                    actual = {"S": 1, "p": 1, "n": self.b, 1: self.b}
                ex[case] = self._add(actual, size, -1)
            excess.append(ex)
        self._memo_key = key
        self._memo = {"alone": alone, "excess": excess, "steps": steps[0], "closed": closed, "sizes": sizes, "init": init, "uniform": uniform}
        return self._memo

    def count_bound(self, m):
        """largest number of empty messages the guards admit (by their own accounting), capped by the count guards"""
        cap = self.cap
        memo = self._memo
        best = 0
        for gi in range(len(cap.guards)):
            n = 0
            while n < 100000:
                case = "n=0" if n == 0 else "n=1" if n == 1 else "n>=2"
                size = 0
                for k, c in memo["sizes"][gi][case].items():
                    if isinstance(k, str) and k.startswith("A:"):
                        f = memo["closed"][case][k[2:]]
                        size += c * (f.get(1, 0) + f.get("n", 0) * n)
                    elif k == "n":
                        size += c * n
                    elif k == 1:
                        size += c
                if size > m["CAPS"][gi]:
                    break
                if m["COUNT_CAPS"][gi] is not None and n >= m["COUNT_CAPS"][gi]:
                    break
                n += 1
            best = max(best, n)
        return best


class _LazyEnv(object):
    def __init__(self, acc, defs, case, g, ov):
        self.acc, self.defs, self.case, self.g, self.ov = acc, defs, case, g, ov
        self.memo = {}
        self.active = set()

    def __contains__(self, name):
        return name in self.defs and name not in self.acc.vars

    def __getitem__(self, name):
        if name not in self.memo:
            if name in self.active:
                raise Undecided("accounting model: cyclic temporary %s" % name)
            self.active.add(name)
            self.memo[name] = self.acc.lin(self.defs[name], self, self.case, self.g, self.ov)
            self.active.discard(name)
        return self.memo[name]


def _assigned_names(st):
    out = []
    if isinstance(st, ast.Assign):
        for t in st.targets:
            if isinstance(t, ast.Name):
                out.append(t.id)
    elif isinstance(st, ast.AugAssign) and isinstance(st.target, ast.Name):
        out.append(st.target.id)
    return out


def _sum_terms(e):
    if isinstance(e, ast.BinOp) and isinstance(e.op, ast.Add):
        return _sum_terms(e.left) + _sum_terms(e.right)
    return [e]


def _block_of(stmt):
    p = stmt._parent
    for field in ("body", "orelse", "finalbody"):
        blk = getattr(p, field, None)
        if isinstance(blk, list) and any(s is stmt for s in blk):
            return blk
    raise Undecided("cannot locate block of statement")


PROBE_MTUS = sorted({512, 513, 514, 576, 768, 1000, 1024, 1094, 1095, 1096, 1097, 1098, 1099, 1100, 1280, 1400, 1499, 1500} | set(range(512, 1501, 97)))
EXHAUSTIVE_MTUS = (512, 1096, 1097, 1500)


def split_sweep(ctx):
    """run the length abstraction of the split over the probe lengths; returns (stats, findings by kind).
    quick: boundary lengths for PROBE_MTUS; thorough: boundary lengths for every MTU and every length of four periods for
    EXHAUSTIVE_MTUS."""
    if getattr(ctx, "_split_sweep", None) is not None:
        return ctx._split_sweep
    cap = capacity(ctx)
    sp = cap.split
    mtus = list(MTUS) if ctx.tier == "thorough" else PROBE_MTUS
    finds = {"sum": [], "empty": [], "too_big": [], "nonterminating": [], "raises": [], "count": []}
    n = 0
    for mtu in mtus:
        m = cap.at(mtu)
        ls = sp.lengths_to_probe(m, ctx.tier == "thorough" and mtu in EXHAUSTIVE_MTUS)
        for l in ls:
            n += 1
            r = sp.split(l, m["ov"])
            if isinstance(r, tuple):
                if r[0] == "nonterminating":
                    finds["nonterminating"].append((mtu, l, None))
                elif r[0] == "raise" and (m["LIMIT"] is None or l <= m["LIMIT"]):
                    finds["raises"].append((mtu, l, r[1]))
                continue
            # the fragments, in order, must tile [0, l) exactly: contiguous, starting at 0, ending at l
            pos = 0
            tiled = True
            for (a_, b_) in r:
                if a_ != pos:
                    tiled = False
                    break
                pos = b_
            if not tiled or pos != l:
                finds["sum"].append((mtu, l, r[:5]))
            lens = [b_ - a_ for (a_, b_) in r]
            if any(x == 0 for x in lens):
                finds["empty"].append((mtu, l, lens[-4:]))
            r = lens
            for i in range(len(cap.guards)):
                big = [x for x in r if cap.size_alone(m, i, x + cap.FRAG_OVERHEAD) > m["CAPS"][i]]
                if big:
                    finds["too_big"].append((mtu, l, {"fragment": big[0], "accounted_size_alone": cap.size_alone(m, i, big[0] + cap.FRAG_OVERHEAD), "CAP": m["CAPS"][i]}))
                    break
            if len(r) > cap.MAX_FRAGMENTS:
                finds["count"].append((mtu, l, len(r)))
    ctx.analysed["cells"] += n
    ctx._split_sweep = ({"mtus": len(mtus), "lengths": n}, finds)
    return ctx._split_sweep


_CAP = {}


def stale_copies(ctx, rule):
    """the size limits are class attributes of Packet that setMTU rewrites at run time; every consumer must read them where it
    uses them.  A copy that outlives the call that made it (an attribute, a class- or module-level name, a parameter default)
    keeps the value of the MTU that was configured when the copy was made."""
    setmtu = ctx.fn("connection:Packet.setMTU")
    live = set()
    for n in walk_own(setmtu.node):
        if isinstance(n, ast.Attribute) and isinstance(n.ctx, ast.Store) and norm(n.value) == "Packet":
            live.add(n.attr)
    if not ctx.require(rule, setmtu, "Packet.setMTU rewrites the size limits", len(live), 3):
        return

    def reads(expr):
        return sorted({x.attr for x in ast.walk(expr) if isinstance(x, ast.Attribute) and x.attr in live and norm(x.value) in ("Packet", "connection.Packet")})
    bad = []
    n_sites = 0
    for fi in ctx.repo.all_functions():
        if fi.is_lambda or fi.module.name not in ("connection", "client", "server", "context", "twisted", "handler"):
            continue
        if fi.qual == setmtu.qual:
            continue
        for n in walk_own(fi.node):
            if isinstance(n, (ast.Assign, ast.AnnAssign, ast.AugAssign)) and getattr(n, "value", None) is not None:
                r = reads(n.value)
                if not r:
                    continue
                n_sites += 1
                tgts = n.targets if isinstance(n, ast.Assign) else [n.target]
                for t in tgts:
                    for x in ast.walk(t):
                        if isinstance(x, ast.Attribute) and isinstance(x.ctx, ast.Store):
                            bad.append((fi, n, r, norm(x)))
        a = fi.node.args
        for d in a.defaults + [k for k in a.kw_defaults if k is not None]:
            r = reads(d)
            if r:
                bad.append((fi, d, r, "default argument"))
    for mod in ("connection", "client", "server", "context", "twisted", "handler"):
        m = ctx.repo.mod(mod)
        for cls_or_mod in [m.tree] + [c for c in ast.walk(m.tree) if isinstance(c, ast.ClassDef) and c.name != "Packet"]:
            for n in cls_or_mod.body:
                if isinstance(n, (ast.Assign, ast.AnnAssign)) and getattr(n, "value", None) is not None and reads(n.value):
                    bad.append((m, n, reads(n.value), "module / class level name"))
    for (where, n, r, tgt) in bad:
        ctx.violated(rule, where if hasattr(where, "qual") else "%s:<module>" % where.name, n,
                     "copy of the MTU-dependent limit %s kept in %s: a later Packet.setMTU() is not seen by its readers" % (", ".join("Packet." + x for x in r), tgt),
                     witness={"copied": r, "kept_in": tgt}, line=getattr(n, "lineno", 0))
    if not bad:
        ctx.holds(rule, setmtu, "no stored copy of an MTU-dependent limit (%s)" % ", ".join(sorted(live)),
                  "every consumer reads the limits where it uses them (%d local uses in assignments inspected)" % n_sites)


def capacity(ctx):
    k = id(ctx.repo)
    if k not in _CAP:
        _CAP[k] = Capacity(ctx)
    return _CAP[k]
