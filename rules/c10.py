"""C10 - server handler lifecycle: connect once, then messages, then disconnect once."""
import ast

from engine.index import norm, walk_own
from engine.cfg import cfg_of
from engine.cond import CondCtx, satisfiable
from engine.callgraph import CallGraph
from engine.defuse import defuse_of, attr_accesses, method_calls_on_attr
from .common import calls_named, package_calls, node_lits, contained, enclosing_trys, handler_catches, resolve_arg, before
from .c02 import _Sub
from . import c01, c02

EXPLANATION = (
    "Typestate and who-may-call rules over UdpServerThread.run, ServerContext and the Twisted entry points. Decides: (R1) the "
    "connected pool is written only by _onConnect (from the temp pool, followed by onConnect) and every removal is preceded in "
    "the same iteration by onDisconnect of the same client, every onDisconnect is followed on every path - including the "
    "exceptional ones - by that removal; connect/disconnect/handle_message have exactly one call site each, reached only from "
    "the validated handshake, the connection sweeps over a snapshot, and the connected branch; after the main loop every "
    "remaining client is disconnected and shutdown follows; (R2) every handler.<event>() call is inside try/except Exception "
    "without re-raise; (R3) no function reachable (call graph, unresolved receivers over-approximated) from the receive thread, "
    "the reactor callbacks or the HTTP stack reaches a handler call or a server-side _recv_datagram; (R4) the token uniqueness "
    "loop compares the candidate with the tokens of the values of both address-keyed pools. Does not decide interleavings."
)
ASSUMPTIONS = [
    "Thread.start() is a spawn, not a call edge; reactor.callFromThread runs its argument on the reactor thread",
    "logging calls do not raise",
]

RUN = "server:UdpServerThread.run"
EVENTS = ("starting", "shutdown", "connect", "disconnect", "update", "handle_message")
TYPE_HINTS = {"self.ctxt": "context:ServerContext", "ctxt": "context:ServerContext", "self.ctxt.handler": "handler:EventHandler",
              "self.handler": "handler:EventHandler", "self.server": "twisted:TwistedServer"}


def handler_calls(repo):
    out = []
    for fi in repo.all_functions():
        for c in walk_own(fi.node):
            if isinstance(c, ast.Call) and isinstance(c.func, ast.Attribute) and c.func.attr in EVENTS and norm(c.func.value).endswith("handler"):
                out.append((fi, c))
    return out


def _log_ok(n, d, label):
    """edge filter: exceptions are not assumed to leave logging statements"""
    if label in ("exc",) and n.ast is not None and n.kind == "stmt" and isinstance(n.ast, ast.Expr) and isinstance(n.ast.value, ast.Call):
        f = norm(n.ast.value.func)
        if ".log." in f or f.startswith("mplogger.") or ".access_log." in f:
            return False
    if label == "exc" and n.kind in ("test", "for", "except"):
        # evaluating a status comparison / iterating a snapshot list is not assumed to raise
        return False
    return True


def r1(ctx):
    repo = ctx.repo
    run = ctx.fn(RUN)
    cfg = cfg_of(run)
    # writers of the connected pool
    ws = [a for a in attr_accesses(repo, "connections", ("server", "context", "connection", "twisted", "guiserver", "handler")) if a.kind in ("substore", "store", "subdel", "del", "aug")]
    stores = sorted((a.fi.qual, a.kind) for a in ws if a.kind in ("substore", "store", "aug"))
    ctx.check(stores == sorted([("context:ServerContext.__init__", "store"), ("context:ServerContext._onConnect", "substore")]), "C10.R1", "context:ServerContext._onConnect",
              "clients enter the connected pool only in _onConnect", witness=stores)
    mut = method_calls_on_attr(repo, "connections", ("pop", "clear", "update", "setdefault", "popitem", "__setitem__", "__delitem__"))
    ctx.check(not mut, "C10.R1", "context:ServerContext._onConnect", "no mutating method call on the connected pool", witness=["%s: %s" % (f.qual, norm(c)) for f, c in mut])
    dels = [a for a in ws if a.kind in ("subdel", "del")]
    ctx.check(sorted(a.fi.qual for a in dels) == [RUN, RUN], "C10.R1", run, "clients leave the connected pool only in the server loop (sweep and shutdown)", witness=[a.fi.qual for a in dels])
    # _onConnect: del temp + store + onConnect on every path of the guarded branch
    oc = ctx.fn("context:ServerContext._onConnect")
    ocfg = cfg_of(oc)
    cp = oc.params[1]
    ins = [n for n in ocfg.stmts((ast.Assign,)) if norm(n.ast.targets[0]) == "self.connections[%s.addr]" % cp]
    dl = [n for n in ocfg.stmts((ast.Delete,)) if norm(n.ast.targets[0]) == "self.temp_connections[%s.addr]" % cp]
    on = [ocfg.node_of(c) for c in calls_named(oc, "onConnect") if norm(c.func) == "self.onConnect" and [norm(a) for a in c.args] == [cp]]
    ok = len(ins) == 1 and len(dl) == 1 and len(on) == 1
    if ok:
        ok = ocfg.must_pass(ins[0].id, ocfg.exit, {on[0].id}, edge_ok=_log_ok) and ocfg.dominates(ins[0].id, on[0].id) and ocfg.dominates(dl[0].id, on[0].id)
    ctx.check(ok, "C10.R1", oc, "promotion = leave temp pool, enter connected pool, then onConnect(client) on every path",
              "connect is reported exactly for clients that entered the connected pool")
    callers = sorted(f.qual for f, c in package_calls(repo, "onConnect") if norm(c.func).endswith(".onConnect"))
    ctx.check(callers == ["context:ServerContext._onConnect"], "C10.R1", oc, "callers of onConnect", witness=callers)
    callers = sorted(f.qual for f, c in package_calls(repo, "_onConnect"))
    ctx.check(callers == ["connection:ServerClientConnection._recvChallengeResponse"], "C10.R1", oc, "callers of _onConnect", witness=callers)
    c02.r5(_Sub(ctx, "C10.R1"))
    # handler event call sites
    hc = handler_calls(repo)
    table = {}
    for (f, c) in hc:
        table.setdefault(c.func.attr, []).append(f.qual)
    want = {"starting": [RUN], "update": [RUN], "handle_message": [RUN], "shutdown": [RUN], "connect": ["context:ServerContext.onConnect"], "disconnect": ["context:ServerContext.onDisconnect"]}
    ctx.check(table == want, "C10.R1", run, "handler.<event> call sites (one per event)", "each event is raised at exactly one place", witness=table)
    for (f, c) in hc:
        if c.func.attr in ("connect", "disconnect"):
            ctx.check([norm(a) for a in c.args] == [f.params[1]], "C10.R1", f, c, "the event carries the client it was raised for", line=c.lineno)
    # onDisconnect / del pairing in run()
    ods = [c for c in calls_named(run, "onDisconnect")]
    ctx.require("C10.R1", run, "onDisconnect call sites in run (connection sweep and shutdown sweep)", len(ods), 2)
    all_od = sorted(f.qual for f, c in package_calls(repo, "onDisconnect"))
    ctx.check(all_od == [RUN, RUN], "C10.R1", run, "callers of onDisconnect", witness=all_od)
    del_nodes = [n for n in cfg.stmts((ast.Delete,)) if norm(n.ast.targets[0]).startswith("self.ctxt.connections[")]
    for c in ods:
        loop = [p for p in _parents(c, run.node) if isinstance(p, ast.For)]
        ok_loop = bool(loop) and norm(loop[0].iter) == "list(self.ctxt.connections.values())" and [norm(a) for a in c.args] == [norm(loop[0].target)]
        ctx.check(ok_loop, "C10.R1", run, c, "disconnect is raised for clients taken from a snapshot of the connected pool", line=c.lineno)
        if not ok_loop:
            continue
        head = cfg.node_of(loop[0]).id
        N = cfg.node_of(c).id
        mine = [d for d in del_nodes if any(p is loop[0] for p in _parents(d.ast, run.node)) and norm(d.ast.targets[0]) == "self.ctxt.connections[%s.addr]" % norm(loop[0].target)]
        ok = len(mine) == 1
        if ok:
            D = mine[0].id
            # after onDisconnect, every path back to the loop head (or out of the function) passes the del
            after = all(cfg.must_pass(s, head, {D}, edge_ok=_log_ok) and cfg.must_pass(s, cfg.exit, {D}, edge_ok=_log_ok) and
                        cfg.must_pass(s, cfg.raise_exit, {D}, edge_ok=_log_ok) for (s, l) in cfg.succ[N])
            # the del is preceded, in the same iteration, by the onDisconnect
            passed_before = cfg.must_pass(head, D, {N}, skip_labels=())
            ok = after and passed_before
            ctx.check(after, "C10.R1", run, "onDisconnect(client) is followed by `del connections[client.addr]` on every path (also exceptional)",
                      "a client that saw disconnect can never see another event", line=c.lineno)
            ctx.check(passed_before, "C10.R1", run, "`del connections[client.addr]` is preceded by onDisconnect(client) in the same iteration",
                      "no client disappears without its disconnect event", line=mine[0].lineno)
        else:
            ctx.violated("C10.R1", run, c, "no matching `del connections[client.addr]` in the same loop", line=c.lineno)
    # sweep condition: DISCONNECTED or timed out
    sweep_od = [c for c in ods if any(isinstance(p, ast.While) for p in _parents(c, run.node))]
    for c in sweep_od:
        # the branch condition is a disjunction (or its De Morgan dual with the branches exchanged): neither leaf edge-dominates.
        # Edge cut: without the outcomes `status == DISCONNECTED` and `timedout(connection_timeout)` the disconnect is unreachable
        from .common import leaf_cut, reach_without
        def down(t):
            if t == "client.status == ConnectionStatus.DISCONNECTED" or t == "client.timedout(self.ctxt.connection_timeout)":
                return "T"
            if t == "client.status != ConnectionStatus.DISCONNECTED":
                return "F"
            return None
        cut = leaf_cut(cfg, down)
        loop = [p for p in _parents(c, run.node) if isinstance(p, ast.For)]
        head = cfg.node_of(loop[0]).id if loop else cfg.entry
        texts = sorted({norm(cfg.nodes[k].ast) for k in cut})
        ok = len(cut) >= 2 and any("timedout" in t for t in texts) and any("status" in t for t in texts) and cfg.node_of(c).id not in reach_without(cfg, head, cut)
        ctx.check(ok, "C10.R1", run, "disconnect on DISCONNECTED status or silence timeout", witness=texts, line=c.lineno)
    # DISCONNECTING -> client.disconnect() first
    dc = [c for c in calls_named(run, "disconnect") if norm(c.func) == "client.disconnect"]
    ok = len(dc) == 1 and any(norm(p.test) == "client.status == ConnectionStatus.DISCONNECTING" for p in _parents(dc[0], run.node) if isinstance(p, ast.If))
    ctx.check(ok, "C10.R1", run, "a peer disconnect (DISCONNECTING) is turned into DISCONNECTED before the removal test", witness=[norm(c) for c in dc])
    # after the main loop: every remaining client, then shutdown
    post = [c for c in ods if not any(isinstance(p, ast.While) for p in _parents(c, run.node))]
    sh = [c for (f, c) in hc if c.func.attr == "shutdown"]
    ok = len(post) == 1 and len(sh) == 1
    if ok:
        main = [n for n in run.node.body if isinstance(n, ast.While)]
        ok = len(main) == 1 and cfg.dominates(cfg.node_of(post[0]._parent if False else [p for p in _parents(post[0], run.node) if isinstance(p, ast.For)][0]).id, cfg.node_of(sh[0]).id) \
            and before(run, main[0], post[0]) and "ctxt._active" in norm(main[0].test)
    ctx.check(ok, "C10.R1", run, "after the main loop: disconnect every remaining client, then handler.shutdown()", "server shutdown raises disconnect for all connected clients")
    st = [c for (f, c) in hc if c.func.attr == "starting"]
    if st and len([n for n in run.node.body if isinstance(n, ast.While)]) == 1:
        main = [n for n in run.node.body if isinstance(n, ast.While)][0]
        ctx.check(before(run, st[0], main), "C10.R1", run, "handler.starting() precedes the main loop")
    # handle_message: client from connections[addr], messages from that client's queue, queue cleared afterwards
    hm = [c for (f, c) in hc if c.func.attr == "handle_message"]
    for c in hm:
        loop = [p for p in _parents(c, run.node) if isinstance(p, ast.For)]
        ok = bool(loop) and norm(loop[0].iter) == "client.incoming_messages" and isinstance(loop[0].target, ast.Tuple) and \
            [norm(a) for a in c.args] == ["client"] + [norm(e) for e in loop[0].target.elts]
        ctx.check(ok, "C10.R1", run, c, "handle_message(client, seqnum, msg) for each message of that client's queue", line=c.lineno)
        if ok:
            trys = enclosing_trys(c)
            inside = bool(trys) and any(p is loop[0] for p in _parents(trys[0], run.node)) and any(handler_catches(h) for h in trys[0].handlers)
            ctx.check(inside, "C10.R1", run, "the try/except around handle_message is inside the per-message loop",
                      "an error raised for one message must neither skip the client's remaining messages nor the reset of the queue (they would be delivered again with the next datagram)",
                      witness=norm(trys[0])[:120] if trys else None, line=c.lineno)
            src = resolve_arg(run, ast.Name(id="client", ctx=ast.Load()), c)
            ctx.check(norm(src) == "self.ctxt.connections[addr]", "C10.R1", run, "the message's client is the connected client of the datagram's address", witness=norm(src), line=c.lineno)
            from .capacity import _block_of
            blk = _block_of(loop[0])
            i = blk.index(loop[0])
            nxt = blk[i + 1] if i + 1 < len(blk) else None
            ctx.check(nxt is not None and norm(nxt) == "client.incoming_messages = []", "C10.R1", run, "the queue is emptied right after delivery", "no message is handed to the handler twice",
                      witness=norm(nxt) if nxt is not None else None, line=c.lineno)
    # temp connections never reach the handler: their sweep only deletes from temp_connections
    tdel = [n for n in cfg.stmts((ast.Delete,)) if norm(n.ast.targets[0]).startswith("self.ctxt.temp_connections[")]
    ctx.check(len(tdel) == 1, "C10.R1", run, "temp pool sweep removes timed out handshakes without an event", witness=[norm(t.ast) for t in tdel])


def _parents(node, stop):
    out = []
    p = getattr(node, "_parent", None)
    while p is not None and p is not stop:
        out.append(p)
        p = getattr(p, "_parent", None)
    return out


def r2(ctx):
    hc = handler_calls(ctx.repo)
    ctx.expect("C10.R2", "handler.<event> call sites", len(hc), 6)
    for (f, c) in hc:
        ok = contained(c)
        # the handler of that try must not leave the enclosing loop
        if ok:
            t = enclosing_trys(c)[0]
            for h in t.handlers:
                if handler_catches(h):
                    ok = ok and not any(isinstance(s, (ast.Break, ast.Return)) for s in ast.walk(h))
        ctx.check(ok, "C10.R2", f, c, "handler.%s() is contained: try/except Exception, no re-raise, no break/return" % c.func.attr,
                  witness=norm(c), line=c.lineno)


def thread_entries(ctx):
    repo = ctx.repo
    foreign = ["twisted:TwistedServer.datagramReceived", "twisted:TwistedServer.sendPackets", "twisted:TwistedServer.sendPacketsUnsafe",
               "twisted:TwistedServer.run", "twisted:TwistedServer.stop", "twisted:TwistedServer._handle_signal", "twisted:TwistedServer.listenTCP",
               "twisted:ThreadedServer.run", "twisted:ThreadedServer.stop", "server:_UdpServer.run", "server:UdpServerThread.append", "server:UdpServerThread._wake"]
    for q in list(repo.funcs):
        if q.startswith("http_server:") and (".Channel." in q or q.endswith(".process") or "RequestFactory" in q or q.startswith("http_server:Router.")
                                              or "WebSocketTemporaryHandler" in q):
            foreign.append(q)
    return [q for q in foreign if q in repo.funcs]


def r3(ctx):
    repo = ctx.repo
    cg = CallGraph(repo, type_hints=TYPE_HINTS)
    hc = handler_calls(repo)
    sinks = {f.qual for (f, c) in hc} | {"connection:ConnectionBase._recv_datagram"}
    # server-side message handlers
    sinks |= {q for q in repo.funcs if q.startswith("handler:EventHandler.")}
    entries = thread_entries(ctx)
    ctx.expect("C10.R3", "foreign thread entry points", len(entries), 10)
    # spawn points are not call edges: UdpServerThread.run is entered only through Thread.start()
    direct_run = [e for e in cg.callers(RUN)]
    ctx.check(not [e for e in direct_run if not e.approx] , "C10.R3", ctx.fn(RUN), "UdpServerThread.run is never called directly (only spawned by start())",
              witness=[repr(e) for e in direct_run if not e.approx])
    seen = cg.reachable(entries, stop={RUN})
    ctx.analysed["call_sites"] += len(cg.edges)
    bad = sorted(q for q in seen if q in sinks)
    for q in bad:
        ctx.violated("C10.R3", q, "reachable from a foreign thread entry point", "handler events and datagram processing must run on the server loop thread only",
                     witness={"call_chain": cg.chain(seen, q)})
    if not bad:
        ctx.holds("C10.R3", ctx.fn(RUN), "no handler call / _recv_datagram reachable from %d foreign entry points" % len(entries),
                  "%d functions reachable over %d call edges (%d by-name over-approximated)" % (len(seen), len(cg.edges), sum(1 for e in cg.edges if e.approx)))
    # positive control: the same reachability from the server loop does reach every sink that has a call site
    seen2 = cg.reachable([RUN])
    must = {f.qual for (f, c) in hc} | {"connection:ConnectionBase._recv_datagram"}
    missing = sorted(q for q in must if q not in seen2)
    ctx.check(not missing, "C10.R3", ctx.fn(RUN), "positive control: every sink is reachable from UdpServerThread.run", "the call graph sees the edges the rule forbids elsewhere", witness=missing)
    # the two threads share only the queue, under its lock
    ap = ctx.fn("server:UdpServerThread.append")
    withs = [n for n in walk_own(ap.node) if isinstance(n, ast.With)]
    ok = len(withs) == 1 and norm(withs[0].items[0].context_expr) == "self.lk_queue" and all(any(p is withs[0] for p in _parents(c, ap.node)) for c in calls_named(ap, "append"))
    ctx.check(ok, "C10.R3", ap, "the receive thread hands datagrams over under the queue lock")
    run = ctx.fn(RUN)
    takes = [n for n in walk_own(run.node) if isinstance(n, ast.Assign) and norm(n.targets[0]) == "self.queue"]
    ok = len(takes) == 1 and any(isinstance(p, ast.With) and norm(p.items[0].context_expr) == "self.lk_queue" for p in _parents(takes[0], run.node))
    ctx.check(ok, "C10.R3", run, "the server loop takes the queue under the same lock")


def r4(ctx):
    gt = ctx.fn("context:ServerContext.get_token")
    cfg = cfg_of(gt)
    whiles = [n for n in walk_own(gt.node) if isinstance(n, ast.While)]
    if not ctx.require("C10.R4", gt, "uniqueness loop in get_token", len(whiles), 1):
        return
    test = whiles[0].test
    pools = {"connections", "temp_connections"}
    # kind mismatch: TOKEN-kind value tested for membership in an ADDR-keyed pool
    bad = []
    for n in ast.walk(test):
        if isinstance(n, ast.Compare) and any(isinstance(o, (ast.In, ast.NotIn)) for o in n.ops):
            for cmp in n.comparators:
                t = norm(cmp)
                if t in ("self.connections", "self.temp_connections") or t.endswith((".connections", ".temp_connections", ".connections.keys()", ".temp_connections.keys()")):
                    bad.append(norm(n))
    for b in bad:
        ctx.violated("C10.R4", gt, b, "a token is tested for membership in a pool that is keyed by address: a collision can never be detected",
                     witness={"key_kind_of_pool": "ADDR (every store/lookup uses client.addr / addr)", "tested_kind": "TOKEN"}, line=whiles[0].lineno)
    # both pools' values' tokens are compared
    covered = set()
    for n in ast.walk(gt.node):
        if isinstance(n, (ast.GeneratorExp, ast.SetComp, ast.ListComp)):
            for g in n.generators:
                it = norm(g.iter)
                for p in pools:
                    if it == "self.%s.values()" % p and isinstance(g.target, ast.Name):
                        elt = n.elt
                        names = [norm(x) for x in ast.walk(elt)]
                        if "%s.token" % g.target.id in names:
                            covered.add(p)
    ctx.check(covered == pools and not bad, "C10.R4", gt, "the candidate is compared with the tokens of the values of both pools", "simultaneously connected (and connecting) clients carry distinct tokens",
              witness={"pools_compared_by_value_token": sorted(covered)}, line=whiles[0].lineno)
    # the collected tokens feed the loop test
    names_in_test = {n.id for n in ast.walk(test) if isinstance(n, ast.Name)}
    du = defuse_of(gt)
    feeds = False
    for nm in names_in_test:
        for (nid, v, how) in du.defs.get(nm, []):
            if isinstance(v, ast.AST) and any(isinstance(x, (ast.GeneratorExp, ast.SetComp, ast.ListComp)) for x in ast.walk(v)):
                feeds = True
    # (or the set is built empty and filled from the comprehensions: issued = set(); issued.update(<tokens of a pool>))
    for c in ast.walk(gt.node):
        if isinstance(c, ast.Call) and isinstance(c.func, ast.Attribute) and c.func.attr in ("update", "extend", "__ior__") and isinstance(c.func.value, ast.Name) \
                and c.func.value.id in names_in_test and any(isinstance(x, (ast.GeneratorExp, ast.SetComp, ast.ListComp)) for a_ in c.args for x in ast.walk(a_)):
            feeds = True
    direct = any(isinstance(x, (ast.GeneratorExp, ast.SetComp, ast.ListComp)) for x in ast.walk(test))
    ctx.check(feeds or direct or bool(bad), "C10.R4", gt, "the token set is what the loop tests", witness=sorted(names_in_test))
    # key kind of the pools: every subscript / membership on the pools uses an address-kind key
    addr_kinds = ("addr", "client.addr", "self.addr", "key")
    wrong = []
    n_sites = 0
    for pool in pools:
        for a in attr_accesses(ctx.repo, pool, ("server", "context", "connection", "twisted")):
            p = getattr(a.node, "_parent", None)
            if isinstance(p, ast.Subscript) and p.value is a.node:
                n_sites += 1
                if norm(p.slice) not in addr_kinds:
                    wrong.append("%s: %s" % (a.fi.qual, norm(p)))
            elif isinstance(p, ast.Compare) and a.node in p.comparators:
                n_sites += 1
                if norm(p.left) not in addr_kinds and a.fi.name != "get_token":
                    wrong.append("%s: %s" % (a.fi.qual, norm(p)))
    ctx.expect("C10.R4", "keyed accesses to the pools", n_sites, 8)
    ctx.check(not wrong, "C10.R4", gt, "the pools are keyed by address at every other access (%d sites)" % n_sites, witness=wrong)
    # the generated token is never 0 and is re-drawn inside the loop
    redraw = [n for n in ast.walk(whiles[0]) if isinstance(n, ast.Call) and norm(n.func) == "os.urandom"]
    ctx.check(len(redraw) >= 1, "C10.R4", gt, "a colliding candidate is re-drawn inside the loop")
    rets = [n for n in walk_own(gt.node) if isinstance(n, ast.Return)]
    ctx.check(len(rets) == 1 and isinstance(rets[0].value, ast.Name) and rets[0].value.id in names_in_test and before(gt, whiles[0], rets[0]), "C10.R4", gt,
              "the token returned is the one that passed the loop", witness={"returned": [norm(r.value) for r in rets], "tested": sorted(names_in_test)})
    if len(rets) == 1 and isinstance(rets[0].value, ast.Name):
        tv = rets[0].value.id
        tnodes = [n for n in cfg.nodes if n.kind == "test" and n.stmt is whiles[0]]
        at_test = set()
        for tn in tnodes:
            at_test |= {d[0] for d in du.reaching(tv, tn.id)}
        at_ret = {d[0] for d in du.reaching(tv, cfg.node_of(rets[0]).id)}
        extra = sorted(norm(cfg.nodes[d].ast) for d in at_ret - at_test if d != "ENTRY")
        ctx.check(at_ret <= at_test, "C10.R4", gt, "the returned value is exactly the value the uniqueness loop tested (no re-binding after the loop)",
                  "masking or otherwise changing the candidate after the test can map it onto a token that is in use", witness={"definitions_after_the_test": extra}, line=rets[0].lineno)


def r_enum(ctx):
    from .common import repo_idioms
    repo_idioms(ctx, "C10.R5", ('server', 'context', 'connection', 'twisted'))


def r6(ctx):
    """'disconnect exactly once on silence timeout ... mixed with duplicated, stale and garbage datagrams': the silence clock
    may only be refreshed by datagrams that authenticated and passed the duplicate test (shared obligations C12.R4, C04.R2)"""
    from . import c12, c04
    c12.r4(_Sub(ctx, "C10.R6"))
    c04.r2(_Sub(ctx, "C10.R6"))

EXPLANATION = EXPLANATION + ' (R5) repository idioms; (R6) connection bookkeeping that the handler lifecycle depends on (liveness clock, statistics) is updated only after authentication and the duplicate test (shared C12.R4 + C04.R2).'

def r_shared_r7(ctx):
    """handler events keep flowing, and the shutdown sweep that owes every connected client its disconnect is reached, only while
    the server loop lives: its sweeps run over snapshots of the pools inside per-client containment, and no uncontained call of
    the loop can raise (shared C11.R2, C11.R3)"""
    from . import c11 as _m
    from .c02 import _Sub
    for _f in ['r2', 'r3']:
        getattr(_m, _f)(_Sub(ctx, "C10.R7"))


EXPLANATION = EXPLANATION + (" (R7) the loop that produces every handler event cannot be stopped by its own sweeps: both pools are swept over snapshots inside "
                             "per-client try/except that only logs, uncontained calls of the loop are on the closed non-raising list (shared C11.R2, C11.R3) - a dead "
                             "server thread delivers no further message and never runs the shutdown sweep that owes each client its disconnect.")

def r_shared_r8(ctx):
    """the server loop admits packet types per pool (shared C01.R6): a hello from a connected address goes to the connected session - a second handshake under the same address would replace the pool entry without a disconnect for the client that had its connect"""
    from . import c01 as _m
    from .c02 import _Sub
    for _f in ['r6']:
        getattr(_m, _f)(_Sub(ctx, "C10.R8"))


EXPLANATION = EXPLANATION + ' (R8) the server loop gates packet types per pool (shared C01.R6): a datagram from a connected address always goes to the connected session, so a pool entry is never replaced by a new handshake without the disconnect event of the old client.'

RULES = [("C10.R1", r1), ("C10.R2", r2), ("C10.R3", r3), ("C10.R4", r4), ("C10.R5", r_enum), ("C10.R6", r6), ("C10.R7", r_shared_r7), ("C10.R8", r_shared_r8)]
