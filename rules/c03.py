"""C03 - AES-GCM nonces never repeat; nothing but the hellos travels in clear."""
import ast

from engine.index import norm, walk_own
from engine.cfg import cfg_of
from engine.cond import CondCtx, Lit, satisfiable
from engine.defuse import defuse_of, targets_of, attr_accesses
from engine.embedded import struct_sites, fmt_fields, fmt_size
from engine.fold import UNKNOWN
from .common import calls_named, package_calls, node_lits, path_lits, enum_lit, resolve_arg, fold_int
from . import c01
from .c02 import _Sub

EXPLANATION = (
    "Static rules over PacketHeader.to_bytes/create, Packet.to_bytes, ConnectionBase._build_packet/_build_packet_impl/"
    "_encode_packet/send and the three socket-write sites. Decides the premises of the short lemma 'no nonce repeats': "
    "(R1) one header per `seq_sending += 1`, the increment has no other writer, every packet is encoded once; (R2) the nonce "
    "is the first 12 header bytes = (direction id, ctime, seq, ack); (R3) the two directions use distinct identifiers chosen "
    "by a constant isServer; (R4) the send-interval guard dominates packet construction and, with the folded constants, a full "
    "turn of the sequence ring takes longer than one second so ctime differs; (R5) the only clear-text exemption under a key is "
    "SERVER_HELLO; (R6) every socket write sends bytes produced by to_bytes under the owning connection's key; (R7) application "
    "messages are queued only when CONNECTED and CONNECTED implies a key. Does not decide actual wire traces."
)
ASSUMPTIONS = [
    "non-decreasing clock and ctime < 2**32 (stated by the property)",
    "AES-GCM is only insecure under nonce reuse with the same key; one key per session (C02)",
]

BPI = "connection:ConnectionBase._build_packet_impl"
BP = "connection:ConnectionBase._build_packet"
EMITTERS = ("client:UdpClient.update", "server:UdpServerThread.send", "twisted:TwistedServer.sendPacketsUnsafe")


def r1(ctx):
    fi = ctx.fn(BPI)
    cfg = cfg_of(fi)
    creates = [c for c in calls_named(fi, "create") if norm(c.func) == "PacketHeader.create"]
    if not ctx.require("C03.R1", fi, "PacketHeader.create call in _build_packet_impl", len(creates), 1):
        return
    # (the decoder may build the header object of a *received* datagram through the same factory: that header is never emitted)
    all_creates = [(f, c) for (f, c) in package_calls(ctx.repo, "create") if norm(c.func) == "PacketHeader.create" and f.qual != "connection:PacketHeader.from_bytes"]
    ctx.check(len(all_creates) == 1, "C03.R1", fi, "PacketHeader.create call sites in the package",
              "headers of emitted packets are created at exactly one site", witness=[f.qual for f, c in all_creates])
    incs = [n for n in cfg.stmts((ast.AugAssign,)) if norm(n.ast.target) == "self.seq_sending" and isinstance(n.ast.op, ast.Add)
            and fold_int(ctx, fi, n.ast.value) == 1]
    ctx.require("C03.R1", fi, "`self.seq_sending += 1` in _build_packet_impl", len(incs), 1)
    for c in creates:
        C = cfg.node_of(c)
        ctx.check(len(c.args) == 6 and norm(c.args[3]) == "self.seq_sending", "C03.R1", fi, c, "the header's seq is self.seq_sending",
                  witness=[norm(a) for a in c.args], line=c.lineno)
        ok = len(incs) == 1 and cfg.dominates(incs[0].id, C.id)
        # exactly one increment per header: no cycle through the increment that avoids... (no loop contains it)
        in_loop = len(incs) == 1 and incs[0].id in cfg.reachable(incs[0].id, skip_labels=()) - {incs[0].id} if False else False
        if len(incs) == 1:
            succs = set()
            for (d, l) in cfg.succ[incs[0].id]:
                if l not in ("exc", "raise"):
                    succs |= cfg.reachable(d, skip_labels=("exc", "raise"))
            in_loop = incs[0].id in succs
            c_in_loop = False
            for (d, l) in cfg.succ[C.id]:
                if l not in ("exc", "raise"):
                    c_in_loop = c_in_loop or C.id in cfg.reachable(d, skip_labels=("exc", "raise"))
            in_loop = in_loop or c_in_loop
        ctx.check(ok and not in_loop, "C03.R1", fi, "one `seq_sending += 1` dominates the header and neither is in a loop",
                  "every header gets a fresh sequence number", line=c.lineno)
        # ctime
        ctx.check(norm(c.args[1]) == "int(%s)" % fi.params[1] if len(c.args) > 1 else False, "C03.R1", fi, "ctime == int(current_time)",
                  "the header time is the construction time in whole seconds", witness=norm(c.args[1]) if len(c.args) > 1 else None, line=c.lineno)
    writers = [a for a in attr_accesses(ctx.repo, "seq_sending") if a.kind in ("store", "aug", "del")]
    w = sorted((a.fi.qual, a.kind) for a in writers)
    ctx.check(w == [("connection:ConnectionBase.__init__", "store"), (BPI, "aug")], "C03.R1", fi, "writers of seq_sending",
              "the sending sequence number is only initialised and incremented", witness=w)
    # every packet is encoded exactly once
    n_enc = 0
    for q in ("connection:ConnectionBase._encode_packet",) + EMITTERS[1:]:
        f = ctx.fn(q)
        tbs = [c for c in calls_named(f, "to_bytes") if not norm(c.func).startswith(("self.hdr", "PacketHeader"))]
        n_enc += len(tbs)
        ok = len(tbs) == 1
        if ok:
            c = tbs[0]
            loops = []
            p = c
            while p is not None and p is not f.node:
                if isinstance(p, (ast.For, ast.While)):
                    loops.append(p)
                p = getattr(p, "_parent", None)
            recv = norm(c.func.value)
            ok = all(isinstance(l, ast.For) and recv in [n.id for n in ast.walk(l.target) if isinstance(n, ast.Name)] for l in loops) and len(loops) <= 1
        ctx.check(ok, "C03.R1", f, "one to_bytes per packet", "each built packet is sealed once (a second seal would reuse its nonce)",
                  witness=[norm(c) for c in tbs])
    up = ctx.fn(EMITTERS[0])
    encs = calls_named(up, "_encode_packet")
    bps = calls_named(up, "_build_packet")
    ok = len(encs) == 1 and len(bps) == 1 and norm(encs[0].args[0]) == norm(bps[0]._parent.targets[0]) if encs and bps and isinstance(bps[0]._parent, ast.Assign) else False
    inloop = any(isinstance(p, (ast.For, ast.While)) for p in _parents(encs[0], up.node)) if encs else True
    ctx.check(ok and not inloop, "C03.R1", up, "client encodes the packet it just built, once", "UdpClient.update: pkt = _build_packet(); _encode_packet(pkt)")
    # total_size is not an encoding
    ts = ctx.fn("connection:Packet.total_size")
    ctx.check(not calls_named(ts, "encrypt_gcm") and not calls_named(ts, "to_bytes"), "C03.R1", ts, "total_size does not seal", "size computation only")
    # server: the batch is fresh every tick and sent once
    run = ctx.fn("server:UdpServerThread.run")
    sends = [c for c in calls_named(run, "send") if norm(c.func) == "self.send"]
    ctx.check(len(sends) == 1 and norm(sends[0].args[0]) == "sending", "C03.R1", run, "self.send(sending) once per tick", "one emission per batch",
              witness=[norm(c) for c in sends])
    inits = [n for n in walk_own(run.node) if isinstance(n, ast.Assign) and norm(n.targets[0]) == "sending"]
    ok = len(inits) == 1 and norm(inits[0].value) == "[]" and any(isinstance(p, ast.While) for p in _parents(inits[0], run.node))
    ctx.check(ok, "C03.R1", run, "sending = [] inside the main loop", "the batch never carries a packet over to the next tick")


def _parents(node, stop):
    out = []
    p = getattr(node, "_parent", None)
    while p is not None and p is not stop:
        out.append(p)
        p = getattr(p, "_parent", None)
    return out


def r2(ctx):
    tb, fb, packs, pack_attrs, u, unpack_attrs = c01._header_formats(ctx)
    PH = ctx.repo.cls("connection:PacketHeader")
    IV = ctx.folder.class_attr(PH, "IV_SIZE")
    ctx.check(fmt_size(packs[0].fmt) == IV == 12, "C03.R2", tb, "calcsize(first pack format) == IV_SIZE == 12", "the nonce is the first pack group",
              witness={"fmt": packs[0].fmt, "IV_SIZE": IV})
    n0 = len(fmt_fields(packs[0].fmt)[1])
    ctx.check(pack_attrs[:n0] == ["isServer", "ctime", "seq", "ack"], "C03.R2", tb, "nonce fields are (direction, ctime, seq, ack)",
              "the nonce contains the direction identifier, the time and the sequence number", witness=pack_attrs[:n0])
    # ... and they are packed as stored: a time or a sequence number reduced on its way into the nonce (masked to fewer bits, taken
    # modulo something) makes the nonce repeat although the header's own fields never do
    from .common import sym_text
    from engine.cfg import cfg_of as _cfg
    tcfg = _cfg(tb)
    got = [sym_text(tb, a, tcfg.node_of(packs[0].call)) for a in packs[0].args[1:n0]]
    ctx.check(got == ["self.ctime", "self.seq", "self.ack"][:max(0, n0 - 1)], "C03.R2", tb, "time, sequence number and ack enter the nonce unreduced",
              "the 32-bit time and the 16-bit numbers are packed as the header holds them", witness=got, line=packs[0].lineno)
    c01.r2(_Sub(ctx, "C03.R2"))     # nonce/AAD slices at the seal and the open site
    fields = fmt_fields(packs[0].fmt)[1]
    ctx.check(fields[:3] == ["4s", "L", "H"], "C03.R2", tb, "nonce field widths: 4-byte id, 32-bit time, 16-bit seq", "widths", witness=fields)


def r3(ctx):
    tb = ctx.fn("connection:PacketHeader.to_bytes")
    PI = ctx.repo.cls("connection:PacketIdentifier")
    a = ctx.folder.class_attr(PI, "TO_SERVER")
    b = ctx.folder.class_attr(PI, "TO_CLIENT")
    av, bv = getattr(a, "value", None), getattr(b, "value", None)
    ctx.check(isinstance(av, bytes) and isinstance(bv, bytes) and av != bv and len(av) == len(bv) == 4, "C03.R3", PI, "TO_SERVER != TO_CLIENT, 4 bytes each",
              "the two directions have distinct identifiers", witness={"TO_SERVER": repr(av), "TO_CLIENT": repr(bv)})
    sel = [n for n in walk_own(tb.node) if isinstance(n, ast.IfExp)]
    ok = len(sel) == 1 and norm(sel[0].test) == "self.isServer" and norm(sel[0].body) == "PacketIdentifier.TO_CLIENT" and norm(sel[0].orelse) == "PacketIdentifier.TO_SERVER"
    ctx.check(ok, "C03.R3", tb, "identifier := TO_CLIENT if isServer else TO_SERVER", "direction is selected by isServer", witness=[norm(s) for s in sel])
    for q, want in (("connection:ClientServerConnection.__init__", "False"), ("connection:ServerClientConnection.__init__", "True")):
        f = ctx.fn(q)
        sup = [c for c in calls_named(f, "__init__")]
        ok = len(sup) == 1 and len(sup[0].args) >= 1 and norm(sup[0].args[0]) == want
        ctx.check(ok, "C03.R3", f, "ConnectionBase.__init__(%s, addr)" % want, "the connection's direction is a constant of its class",
                  witness=[norm(c) for c in sup])
    writers = [a for a in attr_accesses(ctx.repo, "isServer") if a.kind in ("store", "aug") and a.recv == "self"
               and a.fi.cls is not None and any(c.name == "ConnectionBase" for c in ctx.repo.mro(a.fi.cls))]
    w = [(a.fi.qual, norm(a.stmt.value)) for a in writers]
    ctx.check(w == [("connection:ConnectionBase.__init__", "isServer")], "C03.R3", "connection:ConnectionBase", "writers of ConnectionBase.isServer",
              "the direction never changes after construction", witness=w)
    foreign = [a for a in attr_accesses(ctx.repo, "isServer") if a.kind in ("store", "aug") and a.recv not in ("self", "hdr")]
    ctx.check(not foreign, "C03.R3", "connection:ConnectionBase", "no foreign writer of isServer", "nobody flips a connection's direction",
              witness=[repr(a) for a in foreign])
    fi = ctx.fn(BPI)
    for c in [c for c in calls_named(fi, "create") if norm(c.func) == "PacketHeader.create"]:
        ctx.check(norm(c.args[0]) == "self.isServer", "C03.R3", fi, "header direction := self.isServer", "emitted headers carry the connection's direction",
                  witness=norm(c.args[0]), line=c.lineno)


def r4(ctx):
    bp = ctx.fn(BP)
    cfg = cfg_of(bp)
    cc = CondCtx(ctx.folder, bp.module, bp.cls)
    callers = package_calls(ctx.repo, "_build_packet_impl")
    w = sorted(f.qual for f, c in callers)
    ctx.check(w == [BP], "C03.R4", bp, "callers of _build_packet_impl", "packets are built only through the rate-limited _build_packet", witness=w)
    calls = calls_named(bp, "_build_packet_impl")
    if not ctx.require("C03.R4", bp, "_build_packet_impl call in _build_packet", len(calls), 1):
        return
    c = calls[0]
    N = cfg.node_of(c)
    tvar = norm(c.args[0]) if c.args else None
    tdef = resolve_arg(bp, c.args[0], c) if c.args else None
    ctx.check(isinstance(tdef, ast.Call) and norm(tdef.func) == "self.clock", "C03.R4", bp, "construction time := self.clock()", "t0 is the connection clock",
              witness=norm(tdef), line=c.lineno)
    lits = node_lits(cfg, N.id, cc)
    want = "%s - self.last_send_time < self.send_interval" % tvar
    ok = any(l.kind == "atom" and not l.positive and l.subject == want for l in lits)
    ctx.check(ok, "C03.R4", bp, "rate cap dominates packet construction",
              "no packet is built while t0 - last_send_time < send_interval", witness=[repr(l) for l in lits], line=c.lineno)
    # last_send_time := t0 whenever a packet was built
    pvar = norm(c._parent.targets[0]) if isinstance(c._parent, ast.Assign) else None
    stores = [n for n in cfg.stmts((ast.Assign,)) if norm(n.ast.targets[0]) == "self.last_send_time"]
    ok = False
    if len(stores) == 1 and norm(stores[0].ast.value) == tvar and pvar:
        conds = cfg.conditions_of(stores[0].id)
        only_pkt = [(norm(t), pol) for (t, pol) in conds if not ("self.last_send_time" in norm(t) and "self.send_interval" in norm(t))]
        ok = only_pkt == [(pvar, True)] or only_pkt == [("%s is not None" % pvar, True)] or only_pkt == [("%s is None" % pvar, False)]
    ctx.check(ok, "C03.R4", bp, "last_send_time := t0 exactly when a packet was built", "the rate cap measures from the last built packet",
              witness=[norm(s.ast) for s in stores])
    rets = [n for n in cfg.stmts((ast.Return,))]
    ok = all(n.ast.value is not None and norm(n.ast.value) in (pvar, "None") for n in rets)
    ctx.check(ok, "C03.R4", bp, "returns the built packet (or None)", "no other packet source", witness=[norm(r.ast) for r in rets])
    writers = sorted((a.fi.qual, a.kind) for a in attr_accesses(ctx.repo, "last_send_time") if a.kind in ("store", "aug", "del"))
    ctx.check(writers == sorted([(BP, "store"), ("connection:ConnectionBase.__init__", "store")]), "C03.R4", bp, "writers of last_send_time",
              "only __init__ and _build_packet write the rate-cap clock", witness=writers)
    siw = [a for a in attr_accesses(ctx.repo, "send_interval") if a.kind in ("store", "aug", "del")]
    ok = len(siw) == 1 and siw[0].fi.qual == "connection:ConnectionBase.__init__"
    val = ctx.folder.fold(siw[0].stmt.value, siw[0].fi.module) if ok else UNKNOWN
    ctx.check(ok and isinstance(val, float) and val > 0, "C03.R4", "connection:ConnectionBase.__init__", "send_interval is a positive constant with one writer",
              "the rate cap is fixed", witness={"writers": [repr(a) for a in siw], "value": str(val)})
    M = ctx.folder.class_attr(ctx.repo.cls("connection:SeqNum"), "_max_sequence")
    if ok and isinstance(val, float) and isinstance(M, int):
        turn = M * val
        ctx.check(turn > 1 + val, "C03.R4", "connection:SeqNum", "_max_sequence * send_interval > 1 + send_interval",
                  "a full turn of the sequence ring takes longer than one second: equal seq implies different ctime",
                  witness={"ring_turn_seconds": turn, "max_sequence": M, "send_interval": val})
    # the implementation adds exactly one header per call: covered by R1; and int(current_time) is the ctime (R1)


def r5(ctx):
    to = ctx.fn("connection:Packet.to_bytes")
    cfg = cfg_of(to)
    cc = CondCtx(ctx.folder, to.module, to.cls)
    kparam = to.params[1]
    K = Lit("truth", kparam, None, True, kparam)
    rets = cfg.stmts((ast.Return,))
    enc_nodes = set(cfg.node_of(c).id for c in calls_named(to, "encrypt_gcm"))
    if not ctx.require("C03.R5", to, "encrypt_gcm call in Packet.to_bytes", len(enc_nodes), 1):
        return
    PT = ctx.repo.cls("connection:PacketType")
    members = [m for m in PT.consts if not m.startswith("_") and m != "type_id"]
    exempt = set()
    n_clear = 0
    for r in rets:
        for p in cfg.paths(cfg.entry, {r.id}, skip_labels=("exc", "raise")):
            ctx.analysed["paths"] += 1
            if any(nid in enc_nodes for (nid, _) in p):
                continue
            n_clear += 1
            lits = path_lits(cfg, p, cc)
            if not satisfiable(lits + [K]):
                continue
            for m in members:
                l = enum_lit(ctx.folder, ctx.repo, "self.hdr.pkt_type", "connection:PacketType", (m,), True)
                if satisfiable(lits + [K, l]):
                    exempt.add(m)
    ctx.check(n_clear >= 1, "C03.R5", to, "clear-text (CRC) branch exists for the key-less hellos", "hellos can be sent before a key exists")
    ctx.check(exempt <= {"SERVER_HELLO"}, "C03.R5", to, "packet types sent in clear while a key is set",
              "with a key set, only SERVER_HELLO may leave unencrypted", witness=sorted(exempt))
    # total_size mirrors the same decision
    ts = ctx.fn("connection:Packet.total_size")
    t1 = [norm(n.test) for n in walk_own(to.node) if isinstance(n, ast.If)]
    t2 = [norm(n.test) for n in walk_own(ts.node) if isinstance(n, ast.If)]
    ctx.check(t1 == t2, "C03.R5", ts, "total_size uses the same encrypt/clear decision as to_bytes", "size accounting agrees with the encoding", witness={"to_bytes": t1, "total_size": t2})


def r6(ctx):
    repo = ctx.repo
    writes = []
    for fi in repo.all_functions():
        if fi.module.name in ("http_client", "http_server", "guiserver", "captcha", "graph", "task", "__main__", "logger"):
            continue
        for c in walk_own(fi.node):
            if isinstance(c, ast.Call) and isinstance(c.func, ast.Attribute):
                if c.func.attr in ("sendto", "send", "sendall", "sendmsg") and norm(c.func.value).endswith("sock"):
                    writes.append((fi, c))
                elif c.func.attr == "write" and norm(c.func.value).endswith("transport"):
                    writes.append((fi, c))
    where = sorted(f.qual for f, c in writes)
    ctx.check(where == sorted(EMITTERS), "C03.R6", "server:UdpServerThread.send", "socket write sites of the UDP protocol",
              "datagrams leave only through the three known emitters", witness=where)
    for (fi, c) in writes:
        ctx.analysed["call_sites"] += 1
        srcs = []
        if c.args and isinstance(c.args[0], ast.Name):
            du = defuse_of(fi)
            srcs = [d[1] for d in du.reaching(c.args[0].id, du.cfg.node_of(c).id) if d[0] != "ENTRY"]   # unbound: C09.R6
        elif c.args:
            srcs = [c.args[0]]
        ok = bool(srcs) and all(isinstance(s, ast.Call) and (norm(s.func).endswith(".to_bytes") or norm(s.func).endswith("._encode_packet")) for s in srcs)
        src = srcs[0] if srcs else None
        ctx.check(ok, "C03.R6", fi, c, "bytes written to the socket are the result of to_bytes/_encode_packet",
                  witness=[norm(s) if isinstance(s, ast.AST) else str(s) for s in srcs], line=c.lineno)
        if ok and norm(src.func).endswith(".to_bytes"):
            # (pkt, key, addr) tuple discipline
            loop = None
            for p in _parents(c, fi.node):
                if isinstance(p, ast.For):
                    loop = p
                    break
            okt = loop is not None and isinstance(loop.target, ast.Tuple) and len(loop.target.elts) == 3 and \
                norm(src.func.value) == norm(loop.target.elts[0]) and len(src.args) == 1 and norm(src.args[0]) == norm(loop.target.elts[1]) and \
                len(c.args) == 2 and norm(c.args[1]) == norm(loop.target.elts[2])
            ctx.check(okt, "C03.R6", fi, "for (pkt, key, addr): pkt.to_bytes(key) -> write(datagram, addr)",
                      "packet, key and destination are taken from one tuple in producer order", line=c.lineno)
    enc = ctx.fn("connection:ConnectionBase._encode_packet")
    tb = calls_named(enc, "to_bytes")
    ctx.check(len(tb) == 1 and [norm(a) for a in tb[0].args] == ["self.session_key_bytes"], "C03.R6", enc, "_encode_packet seals with the connection's key",
              "client packets are sealed with self.session_key_bytes", witness=[norm(c) for c in tb])
    up = ctx.fn("connection:ServerClientConnection.update")
    rets = [n for n in walk_own(up.node) if isinstance(n, ast.Return) and isinstance(n.value, ast.Tuple)]
    ok = len(rets) == 1 and [norm(e) for e in rets[0].value.elts] == [norm(rets[0].value.elts[0]), "self.session_key_bytes", "self.addr"]
    ctx.check(ok, "C03.R6", up, "server update returns (pkt, self.session_key_bytes, self.addr)", "the producer tuple pairs each packet with its connection's key and address",
              witness=[norm(r.value) for r in rets])
    if ok:
        pv = rets[0].value.elts[0]
        src = resolve_arg(up, pv, rets[0])
        # pkt may be None-initialised and assigned from _build_packet
        du = defuse_of(up)
        defs = du.reaching(norm(pv), du.cfg.node_of(rets[0]).id)
        vals = sorted(norm(d[1]) for d in defs if isinstance(d[1], ast.AST))
        ctx.check(set(vals) <= {"None", "self._build_packet()"} and "self._build_packet()" in vals, "C03.R6", up, "the returned packet comes from _build_packet",
                  "no packet bypasses the rate cap", witness=vals)


def r7(ctx):
    s = ctx.fn("connection:ConnectionBase.send")
    cfg = cfg_of(s)
    cc = CondCtx(ctx.folder, s.module, s.cls)
    sts = calls_named(s, "_send_type")
    ctx.expect("C03.R7", "_send_type calls in send", len(sts), 2)
    connected = enum_lit(ctx.folder, ctx.repo, "self.status", "connection:ConnectionStatus", ("CONNECTED",), False)
    for c in sts:
        lits = node_lits(cfg, cfg.node_of(c).id, cc)
        ctx.check(not satisfiable(lits + [connected]), "C03.R7", s, c, "application messages are queued only while CONNECTED",
                  witness=[repr(l) for l in lits], line=c.lineno)
    rs = ctx.fn("connection:ClientServerConnection._recvServerHello")
    rcfg = cfg_of(rs)
    con = [n for n in rcfg.stmts((ast.Assign,)) if norm(n.ast.targets[0]) == "self.status" and norm(n.ast.value).endswith(".CONNECTED")]
    keys = [n for n in rcfg.stmts((ast.Assign,)) if norm(n.ast.targets[0]) == "self.session_key_bytes" and norm(n.ast.value) != "None"]
    ok = bool(con) and bool(keys) and all(any(rcfg.dominates(k.id, c.id) for k in keys) for c in con)
    ctx.check(ok, "C03.R7", rs, "client: key store dominates status = CONNECTED", "a connected client always holds a key")
    # keys are never cleared
    clears = [a for a in attr_accesses(ctx.repo, "session_key_bytes") if a.kind in ("store", "del") and
              (a.kind == "del" or norm(a.stmt.value) == "None") and a.fi.name != "__init__"]
    ctx.check(not clears, "C03.R7", "connection:ConnectionBase", "session_key_bytes is never reset to None after construction", "a key, once set, stays set",
              witness=[repr(a) for a in clears])
    sub = _Sub(ctx, "C03.R7")
    c01.r5(sub)


def r_enum(ctx):
    from .common import repo_idioms
    repo_idioms(ctx, "C03.R8", ('connection',))



def r_shared_r9(ctx):
    """the sending sequence number visits every ring value once per turn: SeqNum addition wraps from M to 1 and never yields 0 (shared C08.R1); a wrap that revisits a value inside one clock second repeats a nonce"""
    from . import c08 as _m
    from .c02 import _Sub
    for _f in ['r1']:
        getattr(_m, _f)(_Sub(ctx, "C03.R9"))


EXPLANATION = EXPLANATION + ' (R9) the sending sequence number visits every ring value once per turn: SeqNum addition wraps from M to 1 and never yields 0 (shared C08.R1); a wrap that revisits a value inside one clock second repeats a nonce.'

def r10(ctx):
    """the type of a datagram is the type of its first message, and a SERVER_HELLO datagram is the one kind that leaves in clear while a
    key is set (R5).  That exemption is safe only while a hello message can head a datagram once, before the session is CONNECTED: every
    _send_type(PacketType.SERVER_HELLO / CLIENT_HELLO, ...) of the package passes RetryMode.NONE, so the message never enters the retry
    queues (retried messages are packed first and would decide the type of later datagrams, taking the application messages behind them
    out in clear)."""
    from engine.fold import EnumVal
    st = ctx.fn("connection:ConnectionBase._send_type")
    pos = st.params.index("retry") - 1 if "retry" in st.params else None
    n = 0
    for (f, c) in package_calls(ctx.repo, "_send_type"):
        if not c.args:
            continue
        t = ctx.folder.fold(c.args[0], f.module, cls=f.cls)
        if not (isinstance(t, EnumVal) and t.member in ("SERVER_HELLO", "CLIENT_HELLO")):
            continue
        n += 1
        arg = c.args[pos] if pos is not None and pos < len(c.args) else next((k.value for k in c.keywords if k.arg == "retry"), None)
        rv = ctx.folder.fold(arg, f.module, cls=f.cls) if arg is not None else None
        ctx.check(isinstance(rv, EnumVal) and rv.member == "NONE", "C03.R10", f, "%s is queued with RetryMode.NONE" % t.member,
                  "a hello that is re-sent heads later datagrams: they are typed as hellos and leave in clear with the application messages packed behind them",
                  witness=repr(rv), line=c.lineno)
    ctx.expect("C03.R10", "hello messages queued through _send_type", n, 2)


EXPLANATION = EXPLANATION + ' (R10) hello messages are queued with RetryMode.NONE: the clear-text exemption of SERVER_HELLO datagrams (R5) cannot be carried over to later datagrams by a retried hello heading them.'

RULES = [("C03.R1", r1), ("C03.R2", r2), ("C03.R3", r3), ("C03.R4", r4), ("C03.R5", r5), ("C03.R6", r6), ("C03.R7", r7), ("C03.R8", r_enum), ("C03.R9", r_shared_r9), ("C03.R10", r10)]
