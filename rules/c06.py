"""C06 - fragmentation and reassembly preserve bytes; nothing is fabricated."""
import ast

from engine.index import norm, walk_own
from engine.cfg import cfg_of
from engine.cond import CondCtx, satisfiable
from engine.defuse import defuse_of, attr_accesses
from engine.embedded import struct_sites, fmt_fields, fmt_size, INT_RANGE
from engine.fold import UNKNOWN, EnumVal
from .common import calls_named, package_calls, node_lits, resolve_arg, fold_int
from .capacity import capacity, MTUS, _block_of
from .c05 import sweep

EXPLANATION = (
    "Static writer/reader agreement for the fragment layer. Decides: (R1) FragmentSender.build and parsePayload use the same "
    "prefix format, size and field order, the 1-based index matches the receiver's slot arithmetic, both slices of the split "
    "loop tile the payload exactly (decided on an offset abstraction of the split phase: byte strings as [start, end) offsets, exact "
    "for length comparisons and constant slices, evaluated at every boundary length for the probed MTUs), the join concatenates the "
    "slots in order, the count field equals the number of fragments; (R2) every APP_FRAGMENT message queued anywhere in the package carries the packed "
    "prefix; (R3) for every MTU the fragmentation threshold is exactly the single-datagram limit, the oversize ValueError "
    "dominates the first yield and nothing is queued before the refusal, the fragment count fits its field; (R4) fragments are "
    "non-empty (the completeness test uses truthiness); (R5) delivery into incoming_messages happens only in _recvApp, reached "
    "only from the APP dispatch and from a complete reassembly, all fragments of one build share one id. Does not decide byte "
    "equality over all arrival orders (needs execution)."
)
ASSUMPTIONS = [
    "struct.pack/unpack are inverse per format; bytes slicing and b''.join are exact",
    "at most 65535 fragmented messages are in flight per connection (16-bit fragment id)",
]

BUILD = "connection:FragmentSender.build"
PARSE = "connection:FragmentSender.parsePayload"


def _parse_by_evaluation(ctx, prs, fmt):
    """FragmentSender.parsePayload decided by partial evaluation: for framed fragments struct.pack(<the writer's prefix format>, id, index,
    count) + body it must return exactly (id, index, count, body) - empty body, a body that looks like a prefix, extreme field values.
    None when the function is outside the evaluator's fragment."""
    import struct
    from engine.minieval import MiniEval
    from engine.index import Undecided
    bad, n = [], 0
    try:
        for (a, b, c) in ((1, 1, 1), (65535, 2, 3), (7, 255, 256), (0x1234, 0x5678, 0x9abc)):
            for body in (b"", b"x", b"\x00\x01\x00\x02\x00\x03", bytes(range(40))):
                n += 1
                r = MiniEval(ctx.repo, ctx.folder, prs).call([struct.pack(fmt, a, b, c) + body])
                if not (r[0] == "return" and isinstance(r[1], (tuple, list)) and list(r[1]) == [a, b, c, body]):
                    bad.append({"prefix": [a, b, c], "body_length": len(body), "outcome": repr(r)[:80]})
    except Undecided:
        return None
    return n, bad


def r1(ctx):
    cap = capacity(ctx)
    bld = ctx.fn(BUILD)
    prs = ctx.fn(PARSE)
    pk = cap.prefix_site
    un = [s for s in struct_sites(prs, ctx.folder) if s.kind == "unpack"]
    if not ctx.require("C06.R1", prs, "struct.unpack of the fragment prefix in parsePayload", len(un), 1):
        return
    u = un[0]
    ctx.check(u.fmt is not None and fmt_fields(u.fmt) == fmt_fields(pk.fmt) and fmt_fields(pk.fmt)[0] != "@", "C06.R1", prs, "prefix pack format == unpack format",
              "writer and reader agree on the prefix layout", witness={"pack": pk.fmt, "unpack": u.fmt}, line=u.lineno)
    k = fmt_size(pk.fmt)
    # parse: hdr = payload[:k]; msg = payload[k:]
    p = prs.params[0]
    slices = {}
    for n in walk_own(prs.node):
        if isinstance(n, ast.Assign) and isinstance(n.value, ast.Subscript) and norm(n.value.value) == p and isinstance(n.value.slice, ast.Slice):
            lo = fold_int(ctx, prs, n.value.slice.lower) if n.value.slice.lower is not None else None
            hi = fold_int(ctx, prs, n.value.slice.upper) if n.value.slice.upper is not None else None
            slices[norm(n.targets[0])] = (lo, hi)
    src = norm(u.args[0]) if u.args else None
    pev = _parse_by_evaluation(ctx, prs, pk.fmt)
    if pev is not None:
        ok = not pev[1] and k == cap.FRAG_OVERHEAD
        ctx.check(ok, "C06.R1", prs, "parse slices payload[:k] / payload[k:] with k == calcsize == FRAGMENT_OVERHEAD",
                  "the reader removes exactly the bytes the writer prepended - parsePayload evaluated (engine/minieval) on %d framed fragments built with the writer's format: "
                  "it returns (id, index, count, the bytes after the prefix)" % pev[0], witness={"differences": pev[1][:3], "k": k, "FRAGMENT_OVERHEAD": cap.FRAG_OVERHEAD}, line=u.lineno)
    else:
        ok = slices.get(src) == (None, k) and (k, None) in slices.values() and k == cap.FRAG_OVERHEAD
        ctx.check(ok, "C06.R1", prs, "parse slices payload[:k] / payload[k:] with k == calcsize == FRAGMENT_OVERHEAD",
                  "the reader removes exactly the bytes the writer prepended", witness={"slices": slices, "k": k, "FRAGMENT_OVERHEAD": cap.FRAG_OVERHEAD}, line=u.lineno)
    # field order: pack(frag_id, 1+index, count)  vs  frag_id, index, count = unpack ; return frag_id, index, count, msg
    # (arguments read through temporaries: count = len(self.fragments))
    from .common import sym_text as _sxp
    from engine.cfg import cfg_of as _cfgp
    pargs = [_sxp(bld, a, _cfgp(bld).node_of(pk.call), allow_calls=("len",)) for a in pk.args]
    tg = u.call._parent.targets[0] if isinstance(u.call._parent, ast.Assign) else None
    uargs = [norm(e) for e in tg.elts] if isinstance(tg, ast.Tuple) else []
    rets = [n for n in walk_own(prs.node) if isinstance(n, ast.Return)]
    rorder = [norm(e) for e in rets[0].value.elts] if rets and isinstance(rets[0].value, ast.Tuple) else []
    body = [t for t, v in slices.items() if v == (k, None)]
    reader_ok = (len(uargs) == 3 and rorder == uargs + body) if pev is None else not pev[1]
    ok = len(pargs) == 3 and pargs[0] == "self.frag_id" and pargs[1] in ("1 + index", "index + 1") and pargs[2] == "len(self.fragments)" and reader_ok
    ctx.check(ok, "C06.R1", bld, "prefix fields (frag_id, 1+index, count) in the same order on both sides",
              "id, 1-based index and fragment count are written and read in the same positions", witness={"pack": pargs, "unpack": uargs, "returns": rorder})
    # receiver consumes the tuple in that order
    ra = ctx.fn("connection:ConnectionBase._recvAppFragment")
    pc = calls_named(ra, "parsePayload")
    if ctx.require("C06.R1", ra, "FragmentSender.parsePayload call in _recvAppFragment", len(pc), 1):
        tg = pc[0]._parent.targets[0] if isinstance(pc[0]._parent, ast.Assign) else None
        names = [norm(e) for e in tg.elts] if isinstance(tg, ast.Tuple) else []
        ctx.check(len(names) == 4 and norm(pc[0].args[0]) == ra.params[2], "C06.R1", ra, "parsePayload(fragment) -> (id, index, count, msg)", witness=names)
        if len(names) == 4:
            fid, idx, cnt, msg = names
            fr = calls_named(ra, "FragmentReceiver")
            ok = len(fr) == 1 and len(fr[0].args) >= 2 and norm(fr[0].args[1]) == cnt
            ctx.check(ok, "C06.R1", ra, "receiver sized from the count field", "FragmentReceiver(self, count, ...)", witness=[norm(c) for c in fr])
            rc = calls_named(ra, "receive")
            from .common import slot_of
            ok = len(rc) == 1 and [norm(a) for a in rc[0].args] == [idx, ra.params[1], msg] and slot_of(ra, rc[0].func.value, rc[0]) == "self.received_fragments[%s]" % fid
            ctx.check(ok, "C06.R1", ra, "received_fragments[id].receive(index, msgseq, msg)", "the stripped fragment goes to the slot selected by its own id and index",
                      witness=[norm(c) for c in rc])
            keyed = [n for n in walk_own(ra.node) if isinstance(n, ast.Subscript) and norm(n.value) == "self.received_fragments"]
            # a context is created and looked up under the id of the fragment at hand; the only other keys are the loop variables
            # of the sweep (keys taken from the table itself), which may delete or read but never store
            loop_vars = {x.id for n in walk_own(ra.node) if isinstance(n, (ast.For, ast.comprehension)) for x in ast.walk(n.target) if isinstance(x, ast.Name)}
            ctx.check(all(norm(n.slice) == fid or (isinstance(n.slice, ast.Name) and n.slice.id in loop_vars and not isinstance(n.ctx, ast.Store)) for n in keyed), "C06.R1", ra,
                      "reassembly contexts are keyed by the fragment id", witness=sorted({norm(n.slice) for n in keyed}))
            # ... and the names still mean what parsePayload returned: at every use on the store / lookup / receive / completeness /
            # delivery path the only reaching definition is the parsePayload unpacking (a loop variable re-using the name would
            # attribute the fragment to another message's context)
            from .common import bound_by
            stale = []
            for n in walk_own(ra.node):
                if isinstance(n, ast.Name) and isinstance(n.ctx, ast.Load) and n.id in (fid, idx, cnt, msg):
                    # uses inside a comprehension that re-binds the name are scoped to it
                    inner = False
                    p = n
                    while p is not ra.node:
                        p = p._parent
                        if isinstance(p, (ast.ListComp, ast.SetComp, ast.DictComp, ast.GeneratorExp)) and any(n.id in [x.id for x in ast.walk(g.target) if isinstance(x, ast.Name)] for g in p.generators):
                            inner = True
                    # the cleanup loop may use its own binding of the name for its own deletes
                    own_loop = any(isinstance(q, ast.For) and n.id in [x.id for x in ast.walk(q.target) if isinstance(x, ast.Name)] for q in _parents(n, ra.node))
                    if inner or own_loop:
                        continue
                    if not bound_by(ra, n.id, n, pc[0]._parent):
                        stale.append("%s at line %d" % (n.id, n.lineno))
            ctx.check(not stale, "C06.R1", ra, "id, index, count and bytes used for reassembly are the ones parsed from this fragment (single reaching definition)",
                      "a later re-binding of the name (for example a loop variable) silently redirects the fragment", witness=stale)
    frinit = ctx.fn("connection:FragmentReceiver.__init__")
    assigns = {norm(n.targets[0]): norm(n.value) for n in walk_own(frinit.node) if isinstance(n, ast.Assign)}
    ctx.check(assigns.get("self.fragments") == "[None] * %s" % frinit.params[2], "C06.R1", frinit, "slots = [None] * count", "one slot per announced fragment", witness=assigns.get("self.fragments"))
    # split: decided on the offset abstraction of the split phase (every byte string is represented by its [start, end) offsets
    # into the original payload; slicing by folded constants is exact on it)
    from .capacity import split_sweep
    stats, finds = split_sweep(ctx)
    what = "offset abstraction of FragmentSender.build over %d payload lengths at %d MTUs" % (stats["lengths"], stats["mtus"])
    f = finds["sum"]
    ctx.check(not f, "C06.R1", bld, "the fragments, in order, tile the payload exactly ([0, F), [F, 2F), ... up to its length)",
              "no byte is dropped, duplicated or re-ordered by the split - " + what,
              witness={"failing_cases": len(f), "first": [{"mtu": x[0], "payload_length": x[1], "fragment_offsets": x[2]} for x in f[:3]]})
    pb = bld.params[1]
    # emitted payload: prefix + fragment for each enumerate(self.fragments)
    fors = [n for n in walk_own(bld.node) if isinstance(n, ast.For) and "self.fragments" in norm(n.iter)]
    ok = len(fors) == 1 and norm(fors[0].iter) == "enumerate(self.fragments)" and isinstance(fors[0].target, ast.Tuple)
    ys = [n for n in walk_own(bld.node) if isinstance(n, ast.Yield)]
    if ok and len(ys) == 1:
        ivar, fvar = [norm(e) for e in fors[0].target.elts]
        y = ys[0].value
        yp = y.elts[0] if isinstance(y, ast.Tuple) else y
        # payload = pack(...); payload += fragment
        stmts = fors[0].body
        pack_asg = [s for s in stmts if isinstance(s, ast.Assign) and s.value is pk.call]
        add = [s for s in stmts if isinstance(s, ast.AugAssign) and isinstance(s.op, ast.Add) and pack_asg and norm(s.target) == norm(pack_asg[0].targets[0]) and norm(s.value) == fvar]
        direct = [s for s in stmts if isinstance(s, ast.Assign) and isinstance(s.value, ast.BinOp) and s.value.left is pk.call and norm(s.value.right) == fvar]
        ok = (len(pack_asg) == 1 and len(add) == 1 and norm(yp) == norm(pack_asg[0].targets[0])) or (len(direct) == 1 and norm(yp) == norm(direct[0].targets[0]))
        ok = ok and pargs[1].replace("index", ivar) in ("1 + %s" % ivar, "%s + 1" % ivar)
    else:
        ok = False
    ctx.check(ok, "C06.R1", bld, "yielded payload = prefix(frag_id, 1+index, count) + fragment, per fragment in order", "what is queued is the framed fragment")
    # join
    pay = ctx.fn("connection:FragmentReceiver.payload")
    rets = [n for n in walk_own(pay.node) if isinstance(n, ast.Return)]
    ctx.check(len(rets) == 1 and norm(rets[0].value) in ("b''.join(self.fragments)", 'b"".join(self.fragments)'), "C06.R1", pay, "payload() joins the slots in index order",
              witness=[norm(r.value) for r in rets])
    ws = [a for a in attr_accesses(ctx.repo, "fragments") if a.kind in ("store", "substore", "aug", "del", "subdel") and a.fi.cls is not None and a.fi.cls.name == "FragmentReceiver"]
    where = sorted({a.fi.name for a in ws})
    ctx.check(where == ["__init__", "receive"], "C06.R1", pay, "slots are written only by __init__ and receive", witness=where)


def r2(ctx):
    """every APP_FRAGMENT message queued in the package carries the packed prefix"""
    repo = ctx.repo
    bld = ctx.fn(BUILD)
    n = 0
    sites = []
    for (fi, c) in package_calls(repo, "_send_type"):
        v = ctx.folder.fold(c.args[0], fi.module, cls=fi.cls) if c.args else UNKNOWN
        if isinstance(v, EnumVal) and v.member == "APP_FRAGMENT":
            sites.append((fi, c, c.args[1]))
    for (fi, c) in package_calls(repo, "PendingMessage"):
        if len(c.args) >= 3:
            v = ctx.folder.fold(c.args[1], fi.module, cls=fi.cls)
            if isinstance(v, EnumVal) and v.member == "APP_FRAGMENT":
                sites.append((fi, c, c.args[2]))
    ctx.expect("C06.R2", "APP_FRAGMENT queue sites", len(sites), 2)
    for (fi, c, payload) in sites:
        ctx.analysed["call_sites"] += 1
        ok, why = _framed(ctx, fi, c, payload)
        ctx.check(ok, "C06.R2", fi, c, "an APP_FRAGMENT message is queued with its (id, index, count) prefix: %s" % why, witness=norm(payload), line=c.lineno)


def _framed(ctx, fi, c, payload):
    bld = ctx.fn(BUILD)
    # (a) loop variable of `for frag, cbk in <sender>.build(payload)`
    if isinstance(payload, ast.Name):
        p = c
        while p is not None and p is not fi.node:
            if isinstance(p, ast.For) and isinstance(p.iter, ast.Call) and isinstance(p.iter.func, ast.Attribute) and p.iter.func.attr == "build":
                if isinstance(p.target, ast.Tuple) and norm(p.target.elts[0]) == payload.id:
                    return True, "first element yielded by FragmentSender.build"
            p = getattr(p, "_parent", None)
    # (b) self.<list>[index] where <list> is filled in build() with the framed payload
    if isinstance(payload, ast.Subscript) and isinstance(payload.value, ast.Attribute) and norm(payload.value.value) == "self":
        attr = payload.value.attr
        # indexed by the callback's own fragment index (the same index that selects the stored message number and the ack slot)
        if fi.name == "callback" and len(fi.params) >= 2 and norm(payload.slice) != fi.params[1]:
            return False, "self.%s is indexed by %s, not by the fragment index `%s`" % (attr, norm(payload.slice), fi.params[1])
        fills = [x for x in calls_named(bld, "append") if norm(x.func.value) == "self.%s" % attr]
        ys = [n for n in walk_own(bld.node) if isinstance(n, ast.Yield)]
        if len(fills) == 1 and len(ys) == 1:
            y = ys[0].value
            yp = y.elts[0] if isinstance(y, ast.Tuple) else y
            same_block = _block_of(fills[0]._parent) is _block_of(ys[0]._parent)
            # appended after the payload is complete: no store to the variable between the append and the yield
            blk = _block_of(fills[0]._parent)
            i0, i1 = blk.index(fills[0]._parent), blk.index(ys[0]._parent)
            between = [s for s in blk[i0 + 1:i1] if any(norm(t) == norm(yp) for t in _targets(s))]
            resets = [n for n in walk_own(bld.node) if isinstance(n, ast.Assign) and norm(n.targets[0]) == "self.%s" % attr]
            if norm(fills[0].args[0]) == norm(yp) and same_block and i0 < i1 and not between and len(resets) == 1 and norm(resets[0].value) == "[]":
                return True, "element of self.%s, filled by build() with the framed fragment" % attr
        return False, "self.%s is not filled with framed fragments" % attr
    return False, "payload does not derive from the framed fragment"


def _targets(s):
    if isinstance(s, ast.Assign):
        return s.targets
    if isinstance(s, ast.AugAssign):
        return [s.target]
    return []


def r3(ctx):
    cap = capacity(ctx)
    snd, bld = cap.send, cap.build
    o1 = cap.overhead(1)
    sweep(ctx, "C06.R3", "N T_frag + overhead(1) + SIZE + TAG == MTU - UDP_HEADER_SIZE",
          "payloads up to the single-datagram limit are not fragmented and payloads above it are",
          lambda m, c: m["T_frag"] + o1 + c.SIZE + c.TAG == m["mtu"] - c.UDP,
          lambda m, c: {"T_frag": m["T_frag"], "overhead(1)": o1, "SIZE": c.SIZE, "TAG": c.TAG, "MTU-UDP": m["mtu"] - c.UDP}, snd)
    if not ctx.require("C06.R3", bld, "oversize refusal `if len(payload) > LIMIT: raise` in FragmentSender.build", 1 if cap.limit_test is not None else 0, 1):
        return
    if cap.build_shape:
        sweep(ctx, "C06.R3", "LIMIT == MAX_FRAGMENT_SIZE * MAX_FRAGMENTS and count fits",
              "the refusal threshold is the documented limit and every accepted payload needs at most MAX_FRAGMENTS fragments",
              lambda m, c: m["LIMIT"] == m["F"] * c.MAX_FRAGMENTS and -(-m["LIMIT"] // m["F"]) <= c.MAX_FRAGMENTS,
              lambda m, c: {"LIMIT": m["LIMIT"], "F": m["F"], "MAX_FRAGMENTS": c.MAX_FRAGMENTS}, bld)
    # at the limit itself, on the abstraction: LIMIT is split into at most MAX_FRAGMENTS fragments, LIMIT + 1 is refused with ValueError
    bad = []
    for mtu in ((512, 1096, 1097, 1500) if ctx.tier == "thorough" else (1500,)):
        m = cap.at(mtu)
        r_ok = cap.split.split(m["LIMIT"], m["ov"])
        r_over = cap.split.split(m["LIMIT"] + 1, m["ov"])
        if isinstance(r_ok, tuple) or len(r_ok) > cap.MAX_FRAGMENTS or r_over != ("raise", "ValueError"):
            bad.append({"mtu": mtu, "LIMIT": m["LIMIT"], "split(LIMIT)": r_ok if isinstance(r_ok, tuple) else "%d fragments" % len(r_ok), "split(LIMIT+1)": r_over if isinstance(r_over, tuple) else "%d fragments" % len(r_over)})
    ctx.check(not bad, "C06.R3", bld, "a payload of exactly the limit is split into <= MAX_FRAGMENTS fragments, one byte more is refused with ValueError", witness=bad[:2])
    from .capacity import split_sweep
    stats, finds = split_sweep(ctx)
    ctx.check(not finds["count"] and not finds["raises"], "C06.R3", bld, "no payload within the limit is refused or needs more than MAX_FRAGMENTS fragments",
              witness={"count": finds["count"][:2], "raises": finds["raises"][:2]})
    # H: fragment count and index fit the prefix fields
    fields = fmt_fields(cap.prefix_site.fmt)[1]
    lo, hi = INT_RANGE[fields[2]] if len(fields) == 3 and fields[2] in INT_RANGE else (0, -1)
    ctx.check(cap.MAX_FRAGMENTS <= hi and len(fields) == 3 and INT_RANGE.get(fields[1], (0, -1))[1] >= cap.MAX_FRAGMENTS, "C06.R3", bld,
              "H: MAX_FRAGMENTS fits the index and count fields", witness={"MAX_FRAGMENTS": cap.MAX_FRAGMENTS, "field_max": hi})
    # the refusal dominates the first yield / first append
    cfg = cfg_of(bld)
    lim = cap.limit_test[2]
    tnode = cfg.node_of(lim.test)
    first_effects = [n for n in cfg.nodes if n.ast is not None and n.kind == "stmt" and (any(isinstance(x, ast.Yield) for x in ast.walk(n.ast)) or
                     (isinstance(n.ast, ast.Expr) and isinstance(n.ast.value, ast.Call) and norm(n.ast.value.func).endswith(".append")))]
    ok = bool(first_effects) and all(cfg.edge_dominates(tnode.id, "F", n.id) for n in first_effects)
    raises = [s for s in lim.body if isinstance(s, ast.Raise)]
    okr = len(raises) == 1 and isinstance(raises[0].exc, ast.Call) and norm(raises[0].exc.func) == "ValueError"
    ctx.check(ok and okr, "C06.R3", bld, "oversize -> ValueError before anything is produced", "a payload above the limit is refused, never truncated", line=lim.lineno)
    # in send(): nothing reaches the queue outside the loop over build(); the sender is registered
    sts = cap.send_calls(True)
    ok = len(sts) == 1 and any(isinstance(p, ast.For) and isinstance(p.iter, ast.Call) and norm(p.iter.func).endswith(".build") and
                               norm(p.iter.args[0]) == snd.params[1] for p in _parents(sts[0], snd.node))
    ctx.check(ok, "C06.R3", snd, "fragments are queued only inside `for ... in sender.build(payload)`", "the whole payload goes through build(); the generator raises before its first yield on oversize",
              witness=[norm(c) for c in sts])
    # unfragmented branch sends the payload itself as APP
    other = cap.send_calls(False)
    ctx.check(len(sts) + len(other) == len(calls_named(snd, "_send_type")), "C06.R3", snd, "every _send_type call of send() is on one side of the length test",
              witness=[norm(c) for c in calls_named(snd, "_send_type")])
    ok = len(other) == 1 and norm(other[0].args[0]).endswith(".APP") and norm(other[0].args[1]) == snd.params[1]
    ctx.check(ok, "C06.R3", snd, "small payloads are queued whole as APP", witness=[norm(c) for c in other])
    # payload type check
    tc = [n for n in walk_own(snd.node) if isinstance(n, ast.If) and "isinstance(%s, bytes)" % snd.params[1] in norm(n.test) and any(isinstance(s, ast.Raise) for s in n.body)]
    ctx.check(len(tc) == 1, "C06.R3", snd, "non-bytes payloads are refused with TypeError")


def _parents(node, stop):
    out = []
    p = getattr(node, "_parent", None)
    while p is not None and p is not stop:
        out.append(p)
        p = getattr(p, "_parent", None)
    return out


def _completeness_kind(ic):
    """how isComplete decides that a slot is filled: 'truthy' (an empty fragment counts as missing), 'explicit' (is None /
    is not None), or None when the function is not recognisably `every slot of self.fragments is filled`.
    Accepted spellings: all(self.fragments); all(<test of x> for x in self.fragments); not any(<negated test> ...);
    the search loop `for x in self.fragments: if <negated test>: return False` followed by `return True`."""
    def slot_test(e, var, negated):
        t = norm(e)
        if negated:
            if t in ("not %s" % var, "not bool(%s)" % var):
                return "truthy"
            if t == "%s is None" % var:
                return "explicit"
        else:
            if t in (var, "bool(%s)" % var):
                return "truthy"
            if t == "%s is not None" % var:
                return "explicit"
        return None

    def gen_kind(g, negated):
        if isinstance(g, ast.GeneratorExp) or isinstance(g, ast.ListComp):
            if len(g.generators) == 1 and not g.generators[0].ifs and norm(g.generators[0].iter) == "self.fragments" and isinstance(g.generators[0].target, ast.Name):
                return slot_test(g.elt, g.generators[0].target.id, negated)
        return None
    body = [st for st in ic.node.body if not (isinstance(st, ast.Expr) and isinstance(st.value, ast.Constant))]
    if len(body) == 1 and isinstance(body[0], ast.Return) and body[0].value is not None:
        v = body[0].value
        if norm(v) == "all(self.fragments)":
            return "truthy"
        if isinstance(v, ast.Call) and norm(v.func) == "all" and len(v.args) == 1:
            return gen_kind(v.args[0], False)
        if isinstance(v, ast.UnaryOp) and isinstance(v.op, ast.Not) and isinstance(v.operand, ast.Call) and norm(v.operand.func) == "any" and len(v.operand.args) == 1:
            return gen_kind(v.operand.args[0], True)
        t = norm(v)
        return "explicit" if ("is not None" in t or "is None" in t) else None
    if len(body) == 2 and isinstance(body[0], ast.For) and not body[0].orelse and norm(body[0].iter) == "self.fragments" and isinstance(body[0].target, ast.Name) \
            and len(body[0].body) == 1 and isinstance(body[0].body[0], ast.If) and not body[0].body[0].orelse and len(body[0].body[0].body) == 1 \
            and isinstance(body[0].body[0].body[0], ast.Return) and norm(body[0].body[0].body[0].value) == "False" \
            and isinstance(body[1], ast.Return) and norm(body[1].value) == "True":
        return slot_test(body[0].body[0].test, body[0].target.id, True)
    return None


def r4(ctx):
    cap = capacity(ctx)
    bld = cap.build
    ic = ctx.fn("connection:FragmentReceiver.isComplete")
    rets = [n for n in walk_own(ic.node) if isinstance(n, ast.Return)]
    txt = norm(rets[0].value) if rets else ""
    kind = _completeness_kind(ic)
    truthy = kind == "truthy"
    explicit = kind == "explicit"
    ctx.check(truthy or explicit, "C06.R4", ic, "completeness = every slot filled", witness=txt)
    if truthy:
        # then every fragment must be non-empty: appends happen inside `while len(payload) > 0` and F >= 1
        from .capacity import split_sweep
        stats, finds = split_sweep(ctx)
        f = finds["empty"]
        ctx.check(not f, "C06.R4", bld, "the split never produces an empty fragment",
                  "the receiver's completeness test is `all(self.fragments)`: an empty fragment never counts as received, the message is never delivered "
                  "(%d payload lengths at %d MTUs on the length abstraction)" % (stats["lengths"], stats["mtus"]),
                  witness={"failing_cases": len(f), "first": [{"mtu": x[0], "payload_length": x[1], "last_fragment_lengths": x[2]} for x in f[:3]]})
        if cap.build_shape:
            sweep(ctx, "C06.R4", "L4 F >= 1 (non-empty intermediate fragments)", "a zero-width slice would produce empty fragments",
                  lambda m, c: m["F"] >= 1, lambda m, c: {"F": m["F_set"]}, bld)
    # an empty payload is never fragmented (T_frag >= 0)
    sweep(ctx, "C06.R4", "T_frag >= 0", "the empty payload is sent unfragmented", lambda m, c: m["T_frag"] >= 0, lambda m, c: {"T_frag": m["T_frag"]}, cap.send)


def r5(ctx):
    repo = ctx.repo
    from engine.defuse import method_calls_on_attr
    apps = method_calls_on_attr(repo, "incoming_messages", ("append", "extend", "insert", "__setitem__"))
    where = sorted(f.qual for (f, c) in apps)
    ctx.check(where == ["connection:ConnectionBase._recvApp"], "C06.R5", "connection:ConnectionBase._recvApp", "incoming_messages is appended only in _recvApp",
              "application messages are produced at one place", witness=where)
    ra = ctx.fn("connection:ConnectionBase._recvApp")
    ap = calls_named(ra, "append")
    ok = len(ap) == 1 and norm(ap[0].args[0]) == "(%s, %s)" % (ra.params[1], ra.params[2])
    ctx.check(ok, "C06.R5", ra, "_recvApp delivers (msgseq, msg) unchanged", witness=[norm(c) for c in ap])
    callers = package_calls(repo, "_recvApp")
    where = sorted(f.qual for f, c in callers)
    ctx.check(where == ["connection:ConnectionBase._recvAppFragment", "connection:ConnectionBase._recv_message"], "C06.R5", ra, "callers of _recvApp", witness=where)
    rm = ctx.fn("connection:ConnectionBase._recv_message")
    for (f, c) in callers:
        if f is rm:
            ctx.check([norm(a) for a in c.args] == [rm.params[2], rm.params[3]], "C06.R5", rm, c, "APP messages are delivered with the decoded payload", line=c.lineno)
    rf = ctx.fn("connection:ConnectionBase._recvAppFragment")
    cfg = cfg_of(rf)
    for (f, c) in callers:
        if f is rf:
            conds = [(norm(t), p) for (t, p) in cfg.conditions_of(cfg.node_of(c).id)]
            ok = any(t.endswith(".isComplete()") and p for (t, p) in conds)
            recv = norm(c.args[1].func.value) if isinstance(c.args[1], ast.Call) and isinstance(c.args[1].func, ast.Attribute) else None
            from .common import slot_of
            src = slot_of(rf, c.args[1].func.value, c) if recv else None
            ok = ok and c.args[1].func.attr == "payload" and (src or "").startswith("self.received_fragments[")
            ctx.check(ok, "C06.R5", rf, c, "a reassembled message is delivered only when complete, as the joined slots", witness=conds, line=c.lineno)
            # ... and *whenever* it is complete: the completeness test runs after every fragment that was stored, and nothing but
            # its outcome stands between a stored fragment and the delivery (fragments arrive in any order: the one that completes
            # the message need not be the last one)
            ics = [x for x in walk_own(rf.node) if isinstance(x, ast.Call) and isinstance(x.func, ast.Attribute) and x.func.attr == "isComplete"]
            if ics:
                ic_conds = [(norm(t), p) for (t, p) in cfg.conditions_of(cfg.node_of(ics[0]).id)]
                dl_conds = [(t, p) for (t, p) in conds if not t.endswith(".isComplete()")]
                ctx.check(not ic_conds and not dl_conds, "C06.R5", rf, "completeness is tested after every stored fragment and alone decides the delivery",
                          "a test that is only made for some fragments (the one with the last index, the first one, ...) leaves a message whose completing "
                          "fragment is another one undelivered for ever", witness={"before_isComplete": ic_conds, "besides_isComplete": dl_conds}, line=c.lineno)
            # the context is deleted after delivery
            dels = [n for n in walk_own(rf.node) if isinstance(n, ast.Delete) and norm(n.targets[0]).startswith("self.received_fragments[")]
            ctx.check(len(dels) >= 1, "C06.R5", rf, "the reassembly context is removed after delivery", "a completed message is not delivered again by a later fragment")
    # one id per fragmented send
    snd = ctx.fn("connection:ConnectionBase.send")
    incs = [n for n in walk_own(snd.node) if isinstance(n, ast.AugAssign) and norm(n.target) == "self.seq_fragment"]
    ok = len(incs) == 1 and not any(isinstance(p, (ast.For, ast.While)) for p in _parents(incs[0], snd.node))
    ctx.check(ok, "C06.R5", snd, "one `seq_fragment += 1` per fragmented send", "all fragments of one message share one fresh id")
    ws = [a for a in attr_accesses(repo, "seq_fragment") if a.kind in ("store", "aug")]
    ctx.check(sorted(a.fi.name for a in ws) == ["__init__", "send"], "C06.R5", snd, "writers of seq_fragment", witness=[a.fi.qual for a in ws])
    ws = [a for a in attr_accesses(repo, "frag_id") if a.kind in ("store", "aug")]
    ctx.check([a.fi.qual for a in ws] == ["connection:FragmentSender.__init__"], "C06.R5", "connection:FragmentSender.__init__", "frag_id is set once", witness=[a.fi.qual for a in ws])


def r_enum(ctx):
    from .common import repo_idioms
    repo_idioms(ctx, "C06.R6", ('connection',))


def r7(ctx):
    """fragments share datagrams with other messages: each message of a multi-message datagram must come back with its own
    type, number and bytes, or a fragment is delivered as an application message (and the other way round) - shared codec
    obligations C09.R2 (the reader reads back exactly what the writer wrote, per message)"""
    from . import c09
    from .c02 import _Sub
    c09.r2(_Sub(ctx, "C06.R7"))


EXPLANATION = EXPLANATION + " (R7) the datagram codec returns each message of a multi-message datagram with its own type, number and bytes (shared C09.R2): fragments interleave with other messages in one datagram."

EXPLANATION = EXPLANATION + " (R1, as built) the reader half is decided by partial evaluation of FragmentSender.parsePayload on fragments framed with the writer's own prefix format: it returns (id, index, count, the bytes behind the prefix)."

def r_shared_r8(ctx):
    """every queued fragment is sent or stays queued (shared C09.R3, C09.R5): the packing loop removes from the queue exactly the messages it packed - a fragment skipped for lack of room and then deleted never reaches the peer and the message is never reassembled"""
    from . import c09 as _m
    from .c02 import _Sub
    for _f in ['r3', 'r5']:
        getattr(_m, _f)(_Sub(ctx, "C06.R8"))


EXPLANATION = EXPLANATION + ' (R8) the packing loop removes from the queue exactly the messages it packed (shared C09.R3, C09.R5): a fragment that is skipped for lack of room and deleted all the same is never transmitted, and reassembly never completes.'

RULES = [("C06.R1", r1), ("C06.R2", r2), ("C06.R3", r3), ("C06.R4", r4), ("C06.R5", r5), ("C06.R6", r_enum), ("C06.R7", r7), ("C06.R8", r_shared_r8)]
