"""C04 - at-most-once delivery: duplicates, replays and retransmissions are dropped."""
import ast

from engine.index import norm, walk_own, Undecided
from engine.cfg import cfg_of
from engine.cond import CondCtx, satisfiable
from engine.cells import Explorer, Iv, Const, TOP
from engine.defuse import defuse_of, targets_of
from engine.fold import UNKNOWN
from .common import calls_named, package_calls, stmt_effects, node_lits, is_drop_only, enclosing_trys, resolve_arg, before

EXPLANATION = (
    "Static rules over BitField.insert, ConnectionBase._recv_datagram/_recv_message, RetrySender.__call__, "
    "FragmentSender.callback, FragmentReceiver.receive and the resend part of _build_packet_impl. Decides: (R1) by interval "
    "(comparison-partition) analysis of BitField.insert over the whole output range of SeqNum.diff and every window width "
    "constructed in the package: newer numbers are accepted (and a step no wider than the window shifts the bitmap, never clears it), the current number and numbers recorded in the window raise "
    "DuplicationError, and numbers older than the window raise (freshness cannot be established); (R2) the duplicate test "
    "dominates every effect of a datagram/message and its handler only counts the drop; (R3) every retransmission path "
    "re-queues the message under its stored original message number and never allocates a new one; (R4) fragment slots are "
    "first-write-wins inside the index range. Does not decide delivery counts over adversarial schedules."
)
ASSUMPTIONS = [
    "SeqNum.diff returns a value in [-T, T] (decided by C08.R2)",
    "PendingMessage objects re-appended by the resend loop keep their seq attribute (no writer of .seq outside __init__: checked)",
]

INS = "connection:BitField.insert"


def window_widths(ctx):
    out = set()
    for (fi, c) in package_calls(ctx.repo, "BitField"):
        if isinstance(c.func, ast.Name) and c.args:
            v = ctx.folder.fold(c.args[0], fi.module, cls=fi.cls)
            if isinstance(v, int):
                out.add(v)
        elif isinstance(c.func, ast.Name) and not c.args:
            out.add(32)
    return sorted(out)


def windows(ctx):
    """{attribute: width} of the receive windows a connection owns: self.bitfield_pkt = BitField(32), self.bitfield_msg = BitField(256)"""
    init = ctx.fn("connection:ConnectionBase.__init__")
    out = {}
    for n in walk_own(init.node):
        if isinstance(n, ast.Assign) and isinstance(n.value, ast.Call) and norm(n.value.func) == "BitField" and norm(n.targets[0]).startswith("self."):
            v = ctx.folder.fold(n.value.args[0], init.module, cls=init.cls) if n.value.args else 32
            if isinstance(v, int):
                out[norm(n.targets[0])[5:]] = v
    return out


def bitfield_syms(ctx, nbits):
    """abstract values of the BitField attributes for a given width, derived from __init__"""
    init = ctx.fn("connection:BitField.__init__")
    vals = {}
    env = {"nbits": nbits}
    for n in walk_own(init.node):
        if isinstance(n, ast.Assign) and isinstance(n.targets[0], ast.Attribute) and norm(n.targets[0].value) == "self":
            expr = n.value
            # substitute self.<attr> already known
            class _S(ast.NodeTransformer):
                def visit_Attribute(s, node):
                    t = norm(node)
                    if t.startswith("self.") and t[5:] in vals and isinstance(vals[t[5:]], int):
                        return ast.copy_location(ast.Constant(value=vals[t[5:]]), node)
                    return s.generic_visit(node)
            from engine.index import clone_expr
            e2 = _S().visit(clone_expr(expr))
            v = ctx.folder.fold(e2, init.module, cls=init.cls, env=env)
            vals[n.targets[0].attr] = v
    if not isinstance(vals.get("onehot"), int) or not isinstance(vals.get("nbits"), int):
        raise Undecided("BitField.__init__: nbits/onehot do not fold for nbits=%d" % nbits)
    return vals


def explore_insert(ctx, nbits, diff_cell):
    fi = ctx.fn(INS)
    vals = bitfield_syms(ctx, nbits)
    T = ctx.folder.class_attr(ctx.repo.cls("connection:SeqNum"), "_threshold")
    sym = {"self.nbits": Iv(vals["nbits"]), "self.onehot": Iv(vals["onehot"]), "self.bits": Iv(0, (1 << nbits) - 1)}
    if isinstance(vals.get("mask"), int):
        sym["self.mask"] = Iv(vals["mask"])
    used = []

    def hook(call, args, env):
        if isinstance(call.func, ast.Attribute) and call.func.attr == "diff":
            used.append(call)
            return Iv(diff_cell[0], diff_cell[1])
        return None
    ex = Explorer(ctx.folder, fi, sym=sym, call_hook=hook, strict=("diff", "n", "mask"))
    outs = ex.explore({})
    return outs, used, T


def window_cells(ctx, RULE, include_beyond=True):
    fi = ctx.fn(INS)
    T = ctx.folder.class_attr(ctx.repo.cls("connection:SeqNum"), "_threshold")
    wins = windows(ctx)
    ctx.expect(RULE, "receive windows of a connection (bitfield_pkt, bitfield_msg)", len(wins), 2)
    todo = sorted(wins.items()) + ([("extra-width", w) for w in (8, 64, 128)] if ctx.tier == "thorough" else [])
    for (wname, nb) in todo:
        cells = [("newer beyond window", (-T, -nb - 1)), ("newer inside window", (-nb, -1)), ("current", (0, 0)),
                 ("older inside window", (1, nb)), ("older than window", (nb + 1, T))]
        for (name, cell) in cells:
            outs, used, _ = explore_insert(ctx, nb, cell)
            ctx.analysed["cells"] += 1
            if not used:
                ctx.undecided(RULE, fi, "BitField.insert does not compute a diff")
            # only paths on which the field is already initialised (first test false) matter
            outs2 = [o for o in outs if not any(lab and "current_seqnum == 0" in lab and pol and "not" not in lab for (lab, pol) in o.path)]
            site = "nbits=%d cell=%s diff in [%d, %d]" % (nb, name, cell[0], cell[1])
            if name.startswith("newer"):
                bad = [o for o in outs2 if o.kind == "raise" or not any(e.startswith("self.current_seqnum =") for e in o.events)]
                ctx.check(not bad and outs2, RULE, fi, site, "a newer sequence number is accepted and becomes the current one",
                          witness=[repr(o) for o in bad][:2])
                if name == "newer inside window":
                    # ... and the record of what was received moves with it: shifted, never wiped, as long as the step is no wider
                    # than the window (a window cleared by a jump of 33 in a 256-wide field forgets every message before the gap)
                    wiped = [o for o in outs2 if o.kind != "raise" and (any(e.replace(" ", "") in ("self.bits=0", "self.bits=(0)") for e in o.events)
                                                                         or not any(e.startswith("self.bits") and ">>" in e for e in o.events))]
                    ctx.check(not wiped and outs2, RULE, fi, site + " (history)", "a step inside the window shifts the bitmap, it does not clear it",
                              witness=[repr(o) for o in wiped][:2])
            elif name == "current":
                bad = [o for o in outs2 if o.kind != "raise" or "DuplicationError" not in str(o.value)]
                ctx.check(not bad and outs2, RULE, fi, site, "re-inserting the current sequence number raises DuplicationError",
                          witness=[repr(o) for o in bad][:2])
            elif name == "older inside window":
                acc = [o for o in outs2 if o.kind != "raise"]
                rej = [o for o in outs2 if o.kind == "raise" and "DuplicationError" in str(o.value)]
                ok = bool(acc) and bool(rej)
                # the accept path is the one on which the bit was clear, and it sets the bit
                for o in acc:
                    if not any(e.startswith("self.bits |=") or e.startswith("self.bits =") for e in o.events):
                        ok = False
                    if not any(lab and "& self.bits" in lab and (not pol) for (lab, pol) in o.path) and \
                            not any(lab and "self.bits &" in lab and (not pol) for (lab, pol) in o.path):
                        ok = False
                for o in rej:
                    if not any(lab and "self.bits" in lab and pol for (lab, pol) in o.path):
                        ok = False
                ctx.check(ok, RULE, fi, site, "inside the window: raise iff the bit is already set, else set it",
                          witness=[repr(o) for o in outs2][:3])
            elif include_beyond:
                acc = [o for o in outs2 if o.kind != "raise"]
                if wname == "extra-width":
                    continue        # the open horizon is reported once per real window, not per probed width
                ctx.check(not acc and outs2, RULE, fi, "%s nbits=%d cell=%s" % (wname, nb, name),
                          "a sequence number older than the window must be refused (its freshness cannot be established)",
                          witness={"diff": "[%d, %d]" % cell, "accepting_path": [repr(o) for o in acc][:1]}, line=fi.lineno)


def r1(ctx):
    window_cells(ctx, "C04.R1", True)


def _dup_guard(ctx, rule, fi, insert_recv, allowed_pre):
    cfg = cfg_of(fi)
    ins = [c for c in calls_named(fi, "insert") if norm(c.func.value) == insert_recv]
    if not ctx.require(rule, fi, "%s.insert(...) duplicate test in %s" % (insert_recv, fi.name), len(ins), 1):
        return None
    c = ins[0]
    S = cfg.node_of(c)
    pre = cfg.reachable(cfg.entry, through_effect={S.id})
    bad = []
    for nid in sorted(pre):
        n = cfg.nodes[nid]
        if n.ast is None or nid == S.id or n.kind not in ("stmt", "test", "for", "with"):
            continue
        for (kind, text, node) in stmt_effects(n.stmt if n.kind != "stmt" else n.ast):
            if kind == "store" and text.endswith("stats.dropped"):
                continue
            if text in allowed_pre:
                continue
            bad.append((n, kind, text))
    for (n, kind, text) in bad:
        ctx.violated(rule, fi, n.ast, "effect reachable without the duplicate test having passed", witness={"effect": "%s %s" % (kind, text)}, line=n.lineno)
    if not bad:
        ctx.holds(rule, fi, "%s.insert dominates every effect" % insert_recv, "no effect is reachable before/without the duplicate test passing")
    trys = enclosing_trys(c)
    ok = bool(trys) and any("DuplicationError" in norm(h.type) and is_drop_only(h.body) for h in trys[0].handlers if h.type is not None)
    ctx.check(ok, rule, fi, "DuplicationError handler of %s.insert" % insert_recv, "a duplicate is dropped whole: the handler only counts the drop and returns",
              line=c.lineno)
    return c


def r2(ctx):
    rd = ctx.fn("connection:ConnectionBase._recv_datagram")
    c = _dup_guard(ctx, "C04.R2", rd, "self.bitfield_pkt", allowed_pre=())
    if c is not None:
        ctx.check(len(c.args) == 1 and norm(c.args[0]).endswith("hdr.seq"), "C04.R2", rd, c, "the datagram's own sequence number is tested",
                  witness=norm(c), line=c.lineno)
    rm = ctx.fn("connection:ConnectionBase._recv_message")
    c = _dup_guard(ctx, "C04.R2", rm, "self.bitfield_msg", allowed_pre=())
    if c is not None:
        ctx.check(len(c.args) == 1 and norm(c.args[0]) == rm.params[2], "C04.R2", rm, c, "the message's own sequence number is tested",
                  witness=norm(c), line=c.lineno)
    # dispatch passes the same msgseq through (fragments inherit it)
    for c in calls_named(rm, "_recvApp") + calls_named(rm, "_recvAppFragment"):
        ctx.check(norm(c.args[0]) == rm.params[2], "C04.R2", rm, c, "the tested message number travels with the message", line=c.lineno)


def r3(ctx):
    repo = ctx.repo
    # callbacks that re-send on failure
    for q in ("connection:RetrySender.__call__", "connection:FragmentSender.callback"):
        fi = ctx.fn(q)
        st = calls_named(fi, "_send_type")
        ctx.check(not st, "C04.R3", fi, "no _send_type in a retransmission path",
                  "_send_type allocates a new message number: a retransmitted copy would escape the duplicate filter",
                  witness=[norm(c) for c in st], line=st[0].lineno if st else 0)
        pms = calls_named(fi, "PendingMessage")
        if not ctx.require("C04.R3", fi, "PendingMessage re-queue in %s" % fi.name, len(pms), 1):
            continue
        for pm in pms:
            seq = pm.args[0] if pm.args else None
            txt = norm(seq)
            stored = txt.startswith("self.") and not isinstance(seq, ast.Call)
            ctx.check(stored, "C04.R3", fi, pm, "the re-queued message carries a stored message number (not a fresh one)", witness=txt, line=pm.lineno)
            # appended to the connection's outgoing queue
            var = pm._parent.targets[0].id if isinstance(pm._parent, ast.Assign) and isinstance(pm._parent.targets[0], ast.Name) else None
            aps = [c for c in calls_named(fi, "append") if norm(c.func.value).endswith("outgoing_messages") and
                   (norm(c.args[0]) == var or c.args[0] is pm)]
            ctx.check(len(aps) == 1, "C04.R3", fi, "re-queued into outgoing_messages", "the copy goes through the normal packing path", line=pm.lineno)
    # the stored number is the number the message was first sent with
    rs_init = ctx.fn("connection:RetrySender.__init__")
    st = ctx.fn("connection:ConnectionBase._send_type")
    cfg = cfg_of(st)
    rs = calls_named(st, "RetrySender")
    pm = calls_named(st, "PendingMessage")
    ok = len(rs) == 1 and len(pm) == 1 and norm(rs[0].args[1]) == norm(pm[0].args[0]) == "self.seq_message"
    if ok:
        incs = [n for n in cfg.stmts((ast.AugAssign,)) if norm(n.ast.target) == "self.seq_message"]
        a, b = cfg.node_of(rs[0]).id, cfg.node_of(pm[0]).id
        ok = len(incs) == 1 and cfg.dominates(incs[0].id, a) and cfg.dominates(incs[0].id, b)
    ctx.check(ok, "C04.R3", st, "RetrySender remembers the number given to the PendingMessage", "one increment, both constructions use the same self.seq_message")
    assigns = {norm(n.targets[0]): norm(n.value) for n in walk_own(rs_init.node) if isinstance(n, ast.Assign)}
    ctx.check(assigns.get("self.seq_message") == rs_init.params[2], "C04.R3", rs_init, "RetrySender stores its seq_message parameter", "stored number provenance",
              witness=assigns.get("self.seq_message"))
    # the interval resend re-appends the same objects
    bpi = ctx.fn("connection:ConnectionBase._build_packet_impl")
    ctx.check(not calls_named(bpi, "PendingMessage") and not calls_named(bpi, "_send_type"), "C04.R3", bpi,
              "the resend loop constructs no message", "messages taken from pending_retry_msg are re-packed as the same objects")
    # nobody rewrites a PendingMessage's seq
    from engine.defuse import attr_accesses
    ws = [a for a in attr_accesses(repo, "seq") if a.kind in ("store", "aug") and a.fi.module.name == "connection" and
          not (a.fi.qual in ("connection:PendingMessage.__init__", "connection:PacketHeader.__init__", "connection:PacketHeader.create",
                             "connection:PacketHeader.from_bytes"))]
    ctx.check(not ws, "C04.R3", "connection:PendingMessage", "no writer of .seq outside constructors", "a queued message keeps its number", witness=[repr(a) for a in ws])
    # fragments: FragmentSender remembers each fragment's message number at first send
    snd = ctx.fn("connection:ConnectionBase.send")
    fs_cb = ctx.fn("connection:FragmentSender.callback")
    pms = calls_named(fs_cb, "PendingMessage")
    if pms:
        seq = pms[0].args[0]
        base = seq.value if isinstance(seq, ast.Subscript) else None
        attr = base.attr if isinstance(base, ast.Attribute) and norm(base.value) == "self" else None
        ok = attr is not None and norm(seq.slice) == fs_cb.params[1]
        ctx.check(ok, "C04.R3", fs_cb, "fragment resend uses self.<numbers>[index]", "the per-fragment stored number is indexed by the fragment index", witness=norm(seq))
        if ok:
            # the list is filled, in fragment order, with self.seq_message right after each _send_type in send()
            fill = [c for c in calls_named(snd, "append") if isinstance(c.func.value, ast.Attribute) and c.func.value.attr == attr]
            okf = len(fill) == 1 and norm(fill[0].args[0]) == "self.seq_message"
            if okf:
                loop = [p for p in _parents(fill[0], snd.node) if isinstance(p, ast.For)]
                sts = [c for c in calls_named(snd, "_send_type") if loop and any(p is loop[0] for p in _parents(c, snd.node))]
                okf = len(loop) >= 1 and len(sts) == 1 and before(snd, sts[0], fill[0])
            ctx.check(okf, "C04.R3", snd, "send() records self.seq_message of every fragment, in order", "the stored numbers are the numbers first used",
                      witness=[norm(c) for c in fill])


def _parents(node, stop):
    out = []
    p = getattr(node, "_parent", None)
    while p is not None and p is not stop:
        out.append(p)
        p = getattr(p, "_parent", None)
    return out


def _receive_by_evaluation(ctx, fi):
    """FragmentReceiver.receive decided by partial evaluation (engine/minieval.py): on a three-slot receiver, empty or with the slot
    already filled, for every index from -3 to 6 and 65535, the slot index-1 holds the new fragment afterwards exactly when
    1 <= index <= 3 and it was empty, and no other slot changes (a negative slot index would wrap around to the end of the list).
    None when the function is outside the evaluator's fragment."""
    from engine.minieval import MiniEval
    from engine.index import Undecided
    bad, cases = [], 0
    try:
        for pre in ([None, None, None], ["old1", None, "old3"], ["old1", "old2", "old3"]):
            for index in list(range(-3, 7)) + [65535]:
                cases += 1
                state = list(pre)
                ev = MiniEval(ctx.repo, ctx.folder, fi, self_attrs={"fragments": state, "msgseq": 0, "count": 3})
                r = ev.call([index, 77, "new"])
                want = list(pre)
                if 1 <= index <= 3 and pre[index - 1] is None:
                    want[index - 1] = "new"
                got = ev.self_attrs.get("fragments")
                if r[0] != "return" or got != want:
                    bad.append({"before": pre, "index": index, "after": got, "expected": want, "outcome": repr(r)[:60]})
    except Undecided:
        return None
    return cases, bad


def r4(ctx):
    fi = ctx.fn("connection:FragmentReceiver.receive")
    ev = _receive_by_evaluation(ctx, fi)
    if ev is not None:
        cases, bad = ev
        why = "FragmentReceiver.receive evaluated (engine/minieval) on %d (state, index) pairs" % cases
        ctx.check(not [b for b in bad if b["before"][b["index"] - 1:b["index"]] not in ([None], [])] , "C04.R4", fi, "a slot is written only while empty (first write wins)", why, witness=bad[:2])
        ctx.check(not bad, "C04.R4", fi, "slot index range 1..len", why + ": the 1-based index is range-checked before it selects slot index-1, no other slot changes", witness=bad[:3])
        ctx.check(not bad, "C04.R4", fi, "slot := the fragment bytes", why + ": stored value is the received fragment", witness=bad[:2])
        return
    cfg = cfg_of(fi)
    cc = CondCtx(ctx.folder, fi.module, fi.cls)
    idx = fi.params[1]
    stores = [n for n in cfg.stmts((ast.Assign,)) if isinstance(n.ast.targets[0], ast.Subscript) and norm(n.ast.targets[0].value) == "self.fragments"]
    if not ctx.require("C04.R4", fi, "slot store self.fragments[...] = fragment", len(stores), 1):
        return
    for n in stores:
        slot = norm(n.ast.targets[0])
        conds = [(norm(t), pol) for (t, pol) in cfg.conditions_of(n.id)]
        empty = (slot + " is None", True) in conds or (slot + " is not None", False) in conds
        ctx.check(empty, "C04.R4", fi, n.ast, "a slot is written only while empty (first write wins)", witness=conds, line=n.lineno)
        rng = ("1 <= %s <= len(self.fragments)" % idx, True) in conds or \
            ((("1 <= %s" % idx, True) in conds or ("%s >= 1" % idx, True) in conds) and (("%s <= len(self.fragments)" % idx, True) in conds))
        from .common import sym_text as _sxs
        ctx.check(rng and _sxs(fi, n.ast.targets[0].slice, n) == "%s - 1" % idx, "C04.R4", fi, "slot index range 1..len",
                  "the 1-based index is range-checked before it selects slot index-1", witness=conds, line=n.lineno)
        ctx.check(norm(n.ast.value) == fi.params[3], "C04.R4", fi, "slot := the fragment bytes", "stored value is the received fragment", line=n.lineno)


def r_enum(ctx):
    from .common import repo_idioms
    repo_idioms(ctx, "C04.R5", ('connection',))



def r_shared_r6(ctx):
    """datagram and message numbers reach the duplicate test as they were written: header and per-message framing agree between writer and reader (shared C09.R1, C09.R2)"""
    from . import c09 as _m
    from .c02 import _Sub
    for _f in ['r1', 'r2']:
        getattr(_m, _f)(_Sub(ctx, "C04.R6"))


def r_shared_r7(ctx):
    """BitField.insert partitions the output of SeqNum.diff: diff is antisymmetric on the ring with range [-T, T] and the comparisons are defined through it (shared C08.R2, C08.R3)"""
    from . import c08 as _m
    from .c02 import _Sub
    for _f in ['r2', 'r3']:
        getattr(_m, _f)(_Sub(ctx, "C04.R7"))


def r8(ctx):
    """hand-off to the application: a message that passed the duplicate tests sits in client.incoming_messages until the server
    loop hands it to handler.handle_message and empties the queue.  Whatever the handler does - return or raise - the queue
    must be emptied before the next datagram of that client is processed, or the same messages are handed over again."""
    from engine.cfg import cfg_of
    run = ctx.fn("server:UdpServerThread.run")
    cfg = cfg_of(run)
    hm = [c for c in walk_own(run.node) if isinstance(c, ast.Call) and isinstance(c.func, ast.Attribute) and c.func.attr == "handle_message"]
    if not ctx.require("C04.R8", run, "handler.handle_message call in the server loop", len(hm), 1):
        return
    resets = [n for n in cfg.stmts((ast.Assign,)) if norm(n.ast.targets[0]).endswith(".incoming_messages") and norm(n.ast.value) in ("[]", "list()")]
    if not ctx.require("C04.R8", run, "reset of client.incoming_messages in the server loop", len(resets), 1):
        return
    loops = [p for p in _parents(hm[0], run.node) if isinstance(p, ast.While)]
    heads = [n for n in cfg.nodes if n.kind == "test" and loops and n.stmt is loops[0]]
    ok = bool(heads)
    C = cfg.node_of(hm[0])
    for h in heads:
        # every way from the hand-off (normal or exceptional) to the next datagram passes the reset
        # (logging statements and loop bookkeeping are not assumed to raise, as in C10 / C11)
        from .c10 import _log_ok
        ok = ok and cfg.must_pass(C.id, h.id, {resets[0].id}, edge_ok=_log_ok)
    ctx.check(ok, "C04.R8", run, "the delivered messages are removed from the queue on every way out of the hand-off, also when the handler raises",
              "an exception from handle_message that skips `client.incoming_messages = []` leaves the messages queued: they are handed to the application again with every later datagram",
              witness={"reset": norm(resets[0].ast)}, line=hm[0].lineno)


EXPLANATION = EXPLANATION + ' (R8) every message handed to the application is removed from the hand-off queue on every way out of the hand-off, also when the handler raises (at most once to the application, not only into the queue).'
EXPLANATION = EXPLANATION + ' (R6) datagram and message numbers reach the duplicate test as they were written: header and per-message framing agree between writer and reader (shared C09.R1, C09.R2). (R7) BitField.insert partitions the output of SeqNum.diff: diff is antisymmetric on the ring with range [-T, T] and the comparisons are defined through it (shared C08.R2, C08.R3).'

def r_shared_r9(ctx):
    """the reserved number 0 ("nothing received yet" in BitField.insert) is never produced by sequence arithmetic: a sender that
    numbers a datagram or message 0 puts the receiver's window back into its first-insert state, which adopts whatever arrives
    next without a duplicate test (shared C08.R1: the wrapped result of SeqNum.__add__ / __sub__ lies in [1, M])"""
    from . import c08 as _m
    from .c02 import _Sub
    _m.r1(_Sub(ctx, "C04.R9"))


EXPLANATION = EXPLANATION + (" (R9) sequence arithmetic never produces the reserved number 0 (shared C08.R1): BitField.insert reads a current number of 0 as "
                             "'nothing received yet' and adopts the next number without a duplicate test, so a sender that wraps onto 0 re-opens the window for replays.")

EXPLANATION = EXPLANATION + " (R4, as built) FragmentReceiver.receive is decided by partial evaluation (engine/minieval) on 33 (receiver state, index) pairs: slot index-1 takes the new fragment exactly when 1 <= index <= count and the slot was empty, nothing else changes; the statement-shape rule is the fallback outside the evaluator's fragment."

def r_shared_r10(ctx):
    """the receive window records authenticated sequence numbers only (shared C01.R4): a forged header that moves the window first makes the window forget what it had seen - a recorded datagram replayed afterwards is accepted as new"""
    from . import c01 as _m
    from .c02 import _Sub
    for _f in ['r4']:
        getattr(_m, _f)(_Sub(ctx, "C04.R10"))


EXPLANATION = EXPLANATION + ' (R10) no state effect - in particular no insert into the datagram window - before Packet.from_bytes has authenticated the datagram (shared C01.R4): a forged far-ahead sequence number would wipe the window and let recorded datagrams be accepted again.'

RULES = [("C04.R1", r1), ("C04.R2", r2), ("C04.R3", r3), ("C04.R4", r4), ("C04.R5", r_enum), ("C04.R6", r_shared_r6), ("C04.R7", r_shared_r7), ("C04.R8", r8), ("C04.R9", r_shared_r9), ("C04.R10", r_shared_r10)]
