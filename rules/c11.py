"""C11 - hostile datagrams cannot stop the server, hurt other clients or be amplified."""
import ast

from engine.index import norm, walk_own
from engine.cfg import cfg_of
from engine.cond import CondCtx, satisfiable
from engine.defuse import defuse_of, attr_accesses, method_calls_on_attr
from engine.names import possibly_unbound, unresolved_names
from engine.fold import UNKNOWN, EnumVal
from .common import calls_named, package_calls, node_lits, contained, enclosing_trys, handler_catches, enum_lit, stmt_effects
from .c02 import _Sub, _serializable_fields
from . import c01, c09

EXPLANATION = (
    "Static containment and ordering rules over the datagram entry points (TwistedServer.datagramReceived, _UdpServer.run), "
    "the server main loop and the hello handling. Decides: (R1) the block-list test dominates every use of the received bytes "
    "and the entry functions contain no send; (R2) header parsing/enqueueing, the per-datagram body of the main loop and every "
    "per-client update/disconnect block are inside try/except Exception handlers that only log; (R3) every call in the main "
    "loop that is not inside such a handler is on a closed list of non-raising operations or resolves to a package function that "
    "contains its own per-datagram errors (the send path, shared with C09.R6); (R4) anti-amplification structure: the single "
    "SERVER_HELLO reply is dominated by a successful decode of a padded full-size hello and the version test, keep-alives are "
    "emitted only when CONNECTED, no other send site is reachable for a peer that has not completed the handshake. Does not "
    "decide actual byte counts of DER-encoded keys (assumed) nor throughput under flood."
)
ASSUMPTIONS = [
    "the signed SERVER_HELLO (about 330 bytes with P-256 DER keys) is shorter than the smallest accepted hello (MTU-dependent, >= 450 bytes): sizes of DER encodings are not decided",
    "logging calls, time.monotonic, list operations on local lists and lock operations do not raise",
]

RUN = "server:UdpServerThread.run"
ENTRIES = ("twisted:TwistedServer.datagramReceived", "server:_UdpServer.run")
SAFE_CALLS = ("time.monotonic", "time.perf_counter", "time.sleep", "sleep", "max", "min", "int", "len", "list", "print", "self.update_stats",
              "self.cv_queue.wait", "self.cv_queue.notify_all", "_queue.pop", "_queue.extend", "sending.append", "self.ctxt.connections.values",
              "self.ctxt.temp_connections.values", "self.ctxt.log.info", "self.ctxt.log.debug", "self.ctxt.log.warning", "mplogger.warning", "mplogger.info")


def _parents_of(node, stop):
    out = []
    p = getattr(node, "_parent", None)
    while p is not None and p is not stop:
        out.append(p)
        p = getattr(p, "_parent", None)
    return out


def r1(ctx):
    for q in ENTRIES:
        fi = ctx.fn(q)
        cfg = cfg_of(fi)
        cc = CondCtx(ctx.folder, fi.module, fi.cls)
        uses = []
        dname = "datagram"
        for n in walk_own(fi.node):
            if isinstance(n, ast.Name) and n.id == dname and isinstance(n.ctx, ast.Load):
                uses.append(n)
        if not ctx.require("C11.R1", fi, "uses of the received datagram", len(uses), 1):
            continue
        bad = []
        for u in uses:
            node = cfg.node_of(u)
            conds = [(norm(t), p) for (t, p) in cfg.conditions_of(node.id)]
            if ("addr[0] in self.ctxt.blocklist", False) not in conds and ("addr[0] not in self.ctxt.blocklist", True) not in conds:
                bad.append((u, conds))
        ctx.check(not bad, "C11.R1", fi, "every use of the datagram is dominated by the block-list test (not blocked)",
                  "datagrams from block-listed addresses are discarded before any processing", witness=[{"line": u.lineno, "conditions": c} for (u, c) in bad][:3],
                  line=bad[0][0].lineno if bad else 0)
        # the blocked branch leaves immediately
        # on the blocked outcome of the test nothing with an effect is reachable (return / continue / falling off the end)
        tests = [n for n in cfg.nodes if n.kind == "test" and n.ast is not None and norm(n.ast) in ("addr[0] in self.ctxt.blocklist", "addr[0] not in self.ctxt.blocklist")]
        ok = len(tests) == 1
        wit = []
        if ok:
            t = tests[0]
            lab = "T" if " not in " not in norm(t.ast) else "F"
            for (d, l) in cfg.succ[t.id]:
                if l != lab:
                    continue
                for nid in cfg.reachable(d):
                    n = cfg.nodes[nid]
                    if n.ast is None or isinstance(n.ast, (ast.Return, ast.Continue, ast.Pass)) or n.kind in ("join", "exit", "entry", "for", "while"):
                        continue
                    if n.kind == "test" and any(isinstance(p_, (ast.While, ast.For)) for p_ in [n.stmt]):
                        continue
                    # inside a loop the blocked outcome goes on with the next datagram: what is reachable again is the loop itself
                    if any(isinstance(p_, (ast.While, ast.For)) for p_ in _parents_of(t.ast, fi.node)):
                        break
                    ok = False
                    wit.append(norm(n.ast)[:60])
        ctx.check(ok, "C11.R1", fi, "blocked -> return/continue at once", witness=wit[:3])
        sends = [c for c in walk_own(fi.node) if isinstance(c, ast.Call) and isinstance(c.func, ast.Attribute) and c.func.attr in ("sendto", "write", "_send_type", "send", "sendall")]
        ctx.check(not sends, "C11.R1", fi, "the datagram entry point never sends", "no reply before the datagram reached the server loop", witness=[norm(s) for s in sends])


LOG_METHODS = {"debug", "info", "warning", "error", "exception", "critical", "log"}


def _is_logger(e):
    """an expression that denotes a logger: x.log, x.access_log, mplogger, or `a or b` / conditional of such"""
    if isinstance(e, ast.BoolOp):
        return all(_is_logger(v) for v in e.values)
    if isinstance(e, ast.IfExp):
        return _is_logger(e.body) and _is_logger(e.orelse)
    t = norm(e)
    return t == "mplogger" or t.endswith(".log") or t.endswith(".access_log") or t.endswith("logger")


def _log_only(handler, loggers=None):
    loggers = set(loggers or ())
    for st in handler.body if hasattr(handler, "body") else handler:
        if isinstance(st, ast.Expr) and isinstance(st.value, ast.Call) and isinstance(st.value.func, ast.Attribute) and st.value.func.attr in LOG_METHODS \
                and (_is_logger(st.value.func.value) or (isinstance(st.value.func.value, ast.Name) and st.value.func.value.id in loggers)):
            continue
        if isinstance(st, ast.Assign) and len(st.targets) == 1 and isinstance(st.targets[0], ast.Name):
            if isinstance(st.value, ast.Constant):
                continue
            if _is_logger(st.value):
                loggers.add(st.targets[0].id)
                continue
        if isinstance(st, ast.If) and _log_only(st.body, loggers) and _log_only(st.orelse, loggers) \
                and not any(isinstance(x, ast.Call) for x in ast.walk(st.test)):
            continue
        if isinstance(st, ast.Pass):
            continue
        return False
    return True


def r2(ctx):
    for q in ENTRIES:
        fi = ctx.fn(q)
        hp = [c for c in calls_named(fi, "from_bytes") if norm(c.func) == "PacketHeader.from_bytes"]
        ap = [c for c in calls_named(fi, "append") if norm(c.func) == "self.thread.append"]
        if ctx.require("C11.R2", fi, "header parse and enqueue", min(len(hp), len(ap)), 1):
            ok = all(contained(c) for c in hp + ap)
            t = enclosing_trys(hp[0])
            ok = ok and bool(t) and all(_log_only(h) for h in t[0].handlers if handler_catches(h))
            ctx.check(ok, "C11.R2", fi, "header parse + enqueue are inside try/except Exception that only logs", "garbage bytes cannot raise out of the receive path", line=hp[0].lineno)
    # _UdpServer.run: recvfrom error handling does not matter for hostile input (ConnectionResetError -> break)
    run = ctx.fn(RUN)
    cfg = cfg_of(run)
    main = [n for n in run.node.body if isinstance(n, ast.While)]
    if not ctx.require("C11.R2", run, "main loop `while self.ctxt._active`", len(main), 1):
        return
    main = main[0]
    inner = [n for n in main.body if isinstance(n, ast.While) and norm(n.test) == "_queue"]
    if ctx.require("C11.R2", run, "per-datagram loop `while _queue`", len(inner), 1):
        body = inner[0].body
        ok = len(body) == 2 and isinstance(body[0], ast.Assign) and norm(body[0].value) == "_queue.pop(0)" and isinstance(body[1], ast.Try) and \
            any(handler_catches(h) and _log_only(h) for h in body[1].handlers)
        ctx.check(ok, "C11.R2", run, "per-datagram body = pop, then one try/except Exception that only logs", "a datagram that makes processing raise is dropped, the loop continues",
                  line=inner[0].lineno)
        # the handler's log call must not itself raise on odd addresses: logging with lazy args
    # per-client blocks
    for loop in [n for n in main.body if isinstance(n, ast.For)]:
        pool = norm(loop.iter)
        ok = pool in ("list(self.ctxt.connections.values())", "list(self.ctxt.temp_connections.values())") and len(loop.body) == 1 and isinstance(loop.body[0], ast.Try) \
            and any(handler_catches(h) and _log_only(h) for h in loop.body[0].handlers)
        ctx.check(ok, "C11.R2", run, "per-client block over %s is one try/except Exception that only logs" % pool, "one misbehaving connection cannot stop the sweep", line=loop.lineno)
    loops = [n for n in main.body if isinstance(n, ast.For)]
    ctx.check(len(loops) == 2, "C11.R2", run, "two connection sweeps (connected, temp) in the main loop", witness=[norm(l.iter) for l in loops])


def r3(ctx):
    run = ctx.fn(RUN)
    main = [n for n in run.node.body if isinstance(n, ast.While)]
    if not main:
        ctx.undecided("C11.R3", run, "main loop not found")
    main = main[0]
    unc = []
    n_calls = 0
    binds = {}
    for n in walk_own(run.node):
        for t in (n.targets if isinstance(n, ast.Assign) else [n.target] if isinstance(n, (ast.AugAssign, ast.AnnAssign, ast.For, ast.comprehension)) else
                  [n.optional_vars] if isinstance(n, ast.withitem) and n.optional_vars is not None else [ast.Name(id=n.name, ctx=ast.Store())] if isinstance(n, ast.ExceptHandler) and n.name else []):
            for x in ast.walk(t):
                if isinstance(x, ast.Name):
                    binds.setdefault(x.id, []).append(n.value if isinstance(n, ast.Assign) and t is x else None)
    local_lists = {k for k, vs in binds.items() if k not in run.params and all(isinstance(v, ast.List) and not v.elts for v in vs)}
    for c in ast.walk(main):
        if isinstance(c, ast.Call):
            n_calls += 1
            if contained(c):
                continue
            f = norm(c.func)
            if f in SAFE_CALLS or ".log." in f or f.startswith("mplogger.") or ".access_log." in f:
                continue
            # append / extend on a local that is only ever bound to a list display cannot raise (extend: from another such local)
            if isinstance(c.func, ast.Attribute) and isinstance(c.func.value, ast.Name) and c.func.value.id in local_lists and not c.keywords and len(c.args) == 1 \
                    and (c.func.attr == "append" or (c.func.attr == "extend" and isinstance(c.args[0], ast.Name) and c.args[0].id in local_lists)):
                continue
            unc.append(c)
    ctx.analysed["call_sites"] += n_calls
    sends = [c for c in unc if norm(c.func) == "self.send"]
    other = [c for c in unc if c not in sends]
    for c in other:
        ctx.violated("C11.R3", run, c, "uncontained call in the server main loop that is not on the closed list of non-raising operations",
                     witness={"callee": norm(c.func)}, line=c.lineno)
    if not other:
        ctx.holds("C11.R3", run, "uncontained calls in the main loop are on the closed list (%d calls inspected)" % n_calls)
    ctx.check(len(sends) == 1, "C11.R3", run, "the batch send is the only data-dependent uncontained call", witness=[norm(c) for c in unc])
    # ... and it resolves to functions that contain their own errors
    c09.r6(_Sub(ctx, "C11.R3"))
    sp = ctx.fn("twisted:TwistedServer.sendPackets")
    calls = [c for c in walk_own(sp.node) if isinstance(c, ast.Call)]
    ok = len(calls) == 1 and norm(calls[0].func) == "reactor.callFromThread" and norm(calls[0].args[0]) == "self.sendPacketsUnsafe"
    ctx.check(ok, "C11.R3", sp, "the twisted send only schedules sendPacketsUnsafe on the reactor", witness=[norm(c) for c in calls])
    init = ctx.fn("twisted:TwistedServer.__init__")
    rb = [n for n in walk_own(init.node) if isinstance(n, ast.Assign) and norm(n.targets[0]) == "self.thread.send"]
    ctx.check(len(rb) == 1 and norm(rb[0].value) == "self.sendPackets", "C11.R3", init, "thread.send is rebound to sendPackets only", witness=[norm(r) for r in rb])
    # names in run() resolve
    un = unresolved_names(run)
    ctx.check(not un, "C11.R3", run, "all names in the server loop resolve", witness=[u[0] for u in un])
    # the loop's own exits: only `while self.ctxt._active`; no break/return/raise at main-loop level
    esc = [n for n in ast.walk(main) if isinstance(n, (ast.Return, ast.Raise))]
    brk = []
    for n in ast.walk(main):
        if isinstance(n, ast.Break):
            p = n
            while p is not main and not isinstance(p, (ast.For, ast.While)):
                p = p._parent
            if p is main:
                brk.append(n)
    ctx.check(not esc and not brk, "C11.R3", run, "no return/raise/break leaves the main loop", witness=[norm(e) for e in esc + brk])


def r4(ctx):
    repo = ctx.repo
    ch = ctx.fn("connection:ServerClientConnection._recvClientHello")
    cfg = cfg_of(ch)
    sts = calls_named(ch, "_send_type")
    loads = calls_named(ch, "loadb")
    if ctx.require("C11.R4", ch, "_send_type(SERVER_HELLO) in _recvClientHello", len(sts), 1) and ctx.require("C11.R4", ch, "Serializable.loadb in _recvClientHello", len(loads), 1):
        c = sts[0]
        v = ctx.folder.fold(c.args[0], ch.module, cls=ch.cls)
        ctx.check(isinstance(v, EnumVal) and v.member == "SERVER_HELLO", "C11.R4", ch, c, "the reply is the SERVER_HELLO", line=c.lineno)
        L = cfg.node_of(loads[0])
        pre = cfg.reachable(cfg.entry, through_effect={L.id})
        ctx.check(cfg.node_of(c).id not in pre and norm(loads[0].args[0]) == ch.params[1] and not loads[0].keywords, "C11.R4", ch, "reply only after the hello decoded normally",
                  "a hello that fails to decode (wrong padding, garbage) gets no reply", line=c.lineno)
        conds = [(norm(t), p) for (t, p) in cfg.conditions_of(cfg.node_of(c).id)]
        mv = norm(loads[0]._parent.targets[0]) if isinstance(loads[0]._parent, ast.Assign) else "msg"
        ok = ("%s.client_version != self.version" % mv, False) in conds or ("%s.client_version == self.version" % mv, True) in conds
        ctx.check(ok, "C11.R4", ch, "reply only for the supported protocol version", witness=conds, line=c.lineno)
        in_loop = any(isinstance(p, (ast.For, ast.While)) for p in _parents(c, ch.node))
        ctx.check(not in_loop, "C11.R4", ch, "one reply per hello", line=c.lineno)
        # ... and the one reply is transmitted once: a message queued with a retry mode is sent again every resend interval /
        # message timeout until it is acknowledged, and a spoofed source never acknowledges
        st = ctx.fn("connection:ConnectionBase._send_type")
        pos = st.params.index("retry") - 1 if "retry" in st.params else None
        rv = None
        if pos is not None:
            arg = c.args[pos] if pos < len(c.args) else next((k.value for k in c.keywords if k.arg == "retry"), None)
            rv = ctx.folder.fold(arg, ch.module, cls=ch.cls) if arg is not None else None
        ctx.check(isinstance(rv, EnumVal) and rv.member == "NONE", "C11.R4", ch, "the SERVER_HELLO is queued with RetryMode.NONE (never retransmitted to an address that has not answered)",
                  "every retransmission is more bytes to an unverified address", witness=repr(rv), line=c.lineno)
    # type confusion: which package messages expose client_version and client_pubkey
    fields = _serializable_fields(ctx)
    imp = sorted(q for q, f in fields.items() if {"client_version", "client_pubkey"} <= f)
    ctx.check(imp == ["connection:HandshakeClientHelloMessage"], "C11.R4", ch, "only the padded client hello exposes (client_version, client_pubkey)", witness=imp)
    # padding discipline
    se = ctx.fn("connection:HandshakeClientHelloMessage.serialize")
    de = ctx.fn("connection:HandshakeClientHelloMessage.deserialize")
    # by value: the writer pads with os.urandom(N), the reader reads N' bytes and raises unless it got N'; N and N' are read
    # through the temporaries that hold them (the span is measured with stream.tell() before and after the two fields)
    from .common import sym_expr, before
    dcfg = cfg_of(de)

    def value(f, e, at):
        cfg_ = cfg_of(f)
        return norm(sym_expr(f, e, cfg_.node_of(at), allow_calls=("%s.tell" % f.params[1],))).replace(" ", "")
    wr = [c for c in calls_named(se, "write") if norm(c.func) == "%s.write" % se.params[1]]
    ok_w = len(wr) == 1 and isinstance(wr[0].args[0], ast.Call) and value(se, wr[0].args[0].func, wr[0]) == "os.urandom" and len(wr[0].args[0].args) == 1
    if ok_w:
        n_w = value(se, wr[0].args[0].args[0], wr[0])
    else:
        # os.urandom(...) bound to a temporary first
        n_w = None
        if len(wr) == 1:
            e = sym_expr(se, wr[0].args[0], cfg_of(se).node_of(wr[0]), allow_calls=("%s.tell" % se.params[1], "os.urandom"))
            if isinstance(e, ast.Call) and norm(e.func) == "os.urandom" and len(e.args) == 1:
                n_w = norm(e.args[0]).replace(" ", "")
                ok_w = True
    ctx.check(ok_w, "C11.R4", se, "the writer pads with os.urandom(<padding length>) bytes", witness=[norm(w) for w in wr])
    rd = [c for c in calls_named(de, "read") if norm(c.func) == "%s.read" % de.params[1]]
    if ctx.require("C11.R4", de, "padding read in HandshakeClientHelloMessage.deserialize", len(rd), 1) and ok_w:
        n_r = value(de, rd[0].args[0], rd[0]) if rd[0].args else None
        ctx.check(n_w == n_r and "Packet.MAX_PAYLOAD_SIZE" in (n_w or ""), "C11.R4", de, "reader expects exactly the padding the writer adds, derived from Packet.MAX_PAYLOAD_SIZE",
                  "an accepted hello fills a whole datagram", witness={"to_write": n_w, "to_read": n_r})
        # the span is measured around the two fields on both sides
        for f, codec in ((se, "serialize_value"), (de, "deserialize_value")):
            tells = [c for c in calls_named(f, "tell") if norm(c.func) == "%s.tell" % f.params[1]]
            fields = calls_named(f, codec)
            ok = len(tells) == 2 and len(fields) == 2 and all(before(f, tells[0], c) for c in fields) and all(before(f, c, tells[1]) for c in fields)
            ctx.check(ok, "C11.R4", f, "span measured with stream.tell() before and after the two fields", witness=[norm(t._parent)[:60] for t in tells])
        # short padding -> raise, and deserialize returns only past that test
        rv = norm(rd[0]._parent.targets[0]) if isinstance(rd[0]._parent, ast.Assign) and isinstance(rd[0]._parent.targets[0], ast.Name) else None
        # edge cut: with the edge on which len(<what was read>) equals the expected padding removed, no return is reachable
        from .common import reach_without
        cut = {}
        for nd in dcfg.nodes:
            if nd.kind == "test" and isinstance(nd.ast, ast.Compare) and len(nd.ast.ops) == 1 and isinstance(nd.ast.ops[0], (ast.Eq, ast.NotEq)):
                sides = [nd.ast.left, nd.ast.comparators[0]]
                is_len = lambda x: norm(x) == "len(%s)" % rv or (isinstance(x, ast.Call) and norm(x.func) == "len" and len(x.args) == 1 and x.args[0] is rd[0])
                lens = [x for x in sides if is_len(x)]
                other = [x for x in sides if not is_len(x)]
                if len(lens) == 1 and len(other) == 1 and value(de, other[0], nd.ast) == n_r:
                    cut[nd.id] = "T" if isinstance(nd.ast.ops[0], ast.Eq) else "F"
        reach = reach_without(dcfg, dcfg.entry, cut)
        rets = [n for n in dcfg.stmts((ast.Return,))]
        rz = [n for n in dcfg.stmts((ast.Raise,)) if n.id in reach]
        ctx.check(len(cut) == 1 and bool(rz), "C11.R4", de, "short padding -> raise", "a hello shorter than a full datagram is refused before any reply",
                  witness=[norm(dcfg.nodes[k].ast) for k in cut])
        if cut:
            ctx.check(bool(rets) and not any(r.id in reach for r in rets) and dcfg.exit not in reach, "C11.R4", de, "deserialize returns only after the padding check passed")
    # (c) keep-alives only when CONNECTED
    bpi = ctx.fn("connection:ConnectionBase._build_packet_impl")
    bcfg = cfg_of(bpi)
    bcc = CondCtx(ctx.folder, bpi.module, bpi.cls)
    ka = [n for n in bcfg.stmts((ast.Assign,)) if norm(n.ast.targets[0]) == "pkt_type" and norm(n.ast.value) == "PacketType.KEEP_ALIVE"]
    if ctx.require("C11.R4", bpi, "KEEP_ALIVE selection", len(ka), 1):
        lits = node_lits(bcfg, ka[0].id, bcc)
        notc = enum_lit(ctx.folder, repo, "self.status", "connection:ConnectionStatus", ("CONNECTED",), False)
        ctx.check(not satisfiable(lits + [notc]), "C11.R4", bpi, "KEEP_ALIVE is selected only while CONNECTED", "a peer that has not completed the handshake receives no keep-alives",
                  witness=[repr(l) for l in lits], line=ka[0].lineno)
    # (d) every queueing site reachable for a not-yet-connected server peer
    sites = package_calls(repo, "_send_type") + method_calls_on_attr(repo, "outgoing_messages", ("append", "insert", "extend"))
    ctx.expect("C11.R4", "message queueing sites", len(sites), 7)
    for (f, c) in sites:
        ctx.analysed["call_sites"] += 1
        cls = f.cls.name if f.cls is not None else ""
        if f.qual == "connection:ConnectionBase._send_type":
            why = "the queueing primitive itself"
        elif cls in ("RetrySender", "FragmentSender"):
            why = "completion callback of a message that was queued by send() while CONNECTED"
        elif cls == "ClientServerConnection":
            why = "client side of the handshake"
        elif f.qual == "connection:ServerClientConnection._recvClientHello":
            why = "the single SERVER_HELLO reply (checked above)"
        else:
            cfg_f = cfg_of(f)
            cc_f = CondCtx(ctx.folder, f.module, f.cls)
            lits = node_lits(cfg_f, cfg_f.node_of(c).id, cc_f)
            bad_status = enum_lit(ctx.folder, repo, "self.status", "connection:ConnectionStatus", ("CONNECTING", "DISCONNECTED", "DROPPED"), True)
            ok = not satisfiable(lits + [bad_status])
            if not ok:
                # `a == X or a == Y` guards do not edge-dominate leaf-wise: inspect the enclosing If test
                for p in _parents(c, f.node):
                    if isinstance(p, ast.If) and c in [x for s in p.body for x in ast.walk(s)] and isinstance(p.test, ast.BoolOp) and isinstance(p.test.op, ast.Or):
                        alts = [norm(v) for v in p.test.values]
                        if all(a in ("self.status == ConnectionStatus.CONNECTED", "self.status == ConnectionStatus.DISCONNECTING") for a in alts):
                            ok = True
            ctx.check(ok, "C11.R4", f, c, "a message is queued only for a connection that completed the handshake (status CONNECTED/DISCONNECTING)",
                      witness=[repr(l) for l in lits], line=c.lineno)
            continue
        ctx.holds("C11.R4", f, c, why)
    # send() guarded by CONNECTED: C03.R7 ; one hello per address per handshake timeout: C01.R6
    from . import c03
    c03.r7(_Sub(ctx, "C11.R4"))
    c01.r6(_Sub(ctx, "C11.R4"))
    # the temp connection is created with DISCONNECTED status and only a valid hello moves it to CONNECTING
    init = ctx.fn("connection:ConnectionBase.__init__")
    st = [n for n in walk_own(init.node) if isinstance(n, ast.Assign) and norm(n.targets[0]) == "self.status"]
    ctx.check(len(st) == 1 and norm(st[0].value) == "ConnectionStatus.DISCONNECTED", "C11.R4", init, "a new connection starts DISCONNECTED", witness=[norm(s) for s in st])


def _parents(node, stop):
    out = []
    p = getattr(node, "_parent", None)
    while p is not None and p is not stop:
        out.append(p)
        p = getattr(p, "_parent", None)
    return out


def r_enum(ctx):
    from .common import repo_idioms
    repo_idioms(ctx, "C11.R5", ('server', 'twisted', 'connection', 'context'))


def r6(ctx):
    """hostile datagrams under the (spoofed) address of an established client: nothing of the connection's state - receive
    windows, liveness clock, ack processing - may move before the datagram authenticated (shared obligation C01.R4), else a
    forged header with a garbage body makes the honest client's next datagrams look like duplicates"""
    c01.r4(_Sub(ctx, "C11.R6"))


EXPLANATION = EXPLANATION + ' (R5) repository idioms; (R6) no state effect before authentication (shared C01.R4): forged datagrams cannot consume sequence numbers or refresh liveness of an honest peer.'

def r_shared_r7(ctx):
    """what the receive path lets through to a connection is what the header parse admits: magic and direction are read from the
    wire (a datagram addressed to the client, sent back to the server under a client's address, decrypts under the shared session
    key - only the direction test keeps the server's own sequence numbers out of that client's receive window) (shared C01.R2)"""
    from . import c01 as _m
    from .c02 import _Sub
    _m.r2(_Sub(ctx, "C11.R7"))


EXPLANATION = EXPLANATION + (" (R7) the header parse admits only well-formed datagrams of the right direction, the direction being read from the wire "
                             "(shared C01.R2): the server's own datagrams reflected at it from a client's address decrypt under the session key, and only the "
                             "direction test keeps them from filling that client's receive window and so disturbing an established client.")

def r_shared_r8(ctx):
    """an established client is disturbed by nothing that is not sealed under its session key: once a connection has a key, every
    path of Packet.from_bytes that takes message bytes goes through AES-GCM (shared C01.R1) - a CRC-only hello admitted on a keyed
    connection re-runs the handshake handlers on the live session (new key, new token, status back to CONNECTING) for anybody who
    can spoof the client's address"""
    from . import c01 as _m
    from .c02 import _Sub
    _m.r1(_Sub(ctx, "C11.R8"))


EXPLANATION = EXPLANATION + (" (R8) on a keyed connection every path of Packet.from_bytes that yields message bytes passes AES-GCM decryption (shared C01.R1): "
                             "a CRC-only datagram admitted for an established address would let a stranger re-run the handshake handlers on the live session.")

RULES = [("C11.R1", r1), ("C11.R2", r2), ("C11.R3", r3), ("C11.R4", r4), ("C11.R5", r_enum), ("C11.R6", r6), ("C11.R7", r_shared_r7), ("C11.R8", r_shared_r8)]
