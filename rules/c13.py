"""C13 - serializer: decode(encode(v)) == v and encodings are self-delimiting."""
import ast

from engine.index import norm, walk_own, Undecided
from engine.cfg import cfg_of
from engine.defuse import defuse_of
from engine.cells import Explorer, Iv, Const, TOP
from engine.embedded import struct_sites, fmt_fields, fmt_size, INT_RANGE
from engine.fold import UNKNOWN
from .common import calls_named, package_calls, enclosing_trys, before

EXPLANATION = (
    "Static writer/reader agreement for the binary serializer. Decides: (R1) the writer table serialize_types and the reader table "
    "deserialize_types are folded with Python's own rules (later duplicate key wins, then subscript stores); for every tag a writer "
    "emits the registered reader uses the same struct format and reads exactly calcsize bytes; length-prefixed types write a tagged "
    "length then raw bytes and are read the same way; containers write a tagged length then each element through serialize_value "
    "and are read the same way; Serializable writes type id, field count, fields in _fields order and is read the same way; enums "
    "write/read their value; (R2) by interval analysis of serialize_int: the integers of every cell fit the struct format chosen "
    "for that cell, the unbounded cells use the widest format and its struct.error is converted to ValueError; (R3) dispatch is on "
    "the exact type, unsupported types raise TypeError, every length guard raises ValueError against the constant its reader "
    "enforces. Does not decide equality of decoded values (float32 rounding, NaN, user __eq__)."
)
ASSUMPTIONS = ["struct.pack/unpack are inverse per format", "str.encode('utf-8') / bytes.decode('utf-8') are inverse"]

M = "serializable"


def fold_tables(ctx):
    """(writers: python type text -> function name, readers: tag int -> function name) with last-wins semantics"""
    mod = ctx.repo.mod(M)
    writers, readers = {}, {}
    notes = []
    for st in mod.tree.body:
        if isinstance(st, ast.Assign) and len(st.targets) == 1:
            t = st.targets[0]
            if isinstance(t, ast.Name) and t.id in ("serialize_types", "deserialize_types") and isinstance(st.value, ast.Dict):
                for k, v in zip(st.value.keys, st.value.values):
                    if t.id == "serialize_types":
                        writers[norm(k)] = norm(v)
                    else:
                        tag = ctx.folder.fold(k, mod)
                        if not isinstance(tag, int):
                            raise Undecided("reader table key %s does not fold" % norm(k))
                        if tag in readers and readers[tag] != norm(v):
                            notes.append("tag %d registered twice in the dict display: %s is shadowed by %s" % (tag, readers[tag], norm(v)))
                        readers[tag] = norm(v)
            elif isinstance(t, ast.Subscript) and isinstance(t.value, ast.Name) and t.value.id in ("serialize_types", "deserialize_types"):
                if t.value.id == "serialize_types":
                    writers[norm(t.slice)] = norm(st.value)
                else:
                    tag = ctx.folder.fold(t.slice, mod)
                    if not isinstance(tag, int):
                        raise Undecided("reader table key %s does not fold" % norm(t.slice))
                    readers[tag] = norm(st.value)
    return writers, readers, notes


def writer_emissions(ctx, fname):
    """[(tag, payload format fields)] for every struct.pack of a writer whose first field is the tag"""
    fi = ctx.fn("%s:%s" % (M, fname))
    out = []
    for s in struct_sites(fi, ctx.folder):
        if s.kind != "pack" or s.fmt is None:
            continue
        order, fields = fmt_fields(s.fmt)
        if not fields or fields[0] != "H" or not s.args:
            continue
        tag = ctx.folder.fold(s.args[0], fi.module)
        if not isinstance(tag, int):
            continue
        out.append((tag, order, fields[1:], s))
    return fi, out


def reader_shape(ctx, rname):
    """primitive reader: struct.unpack(FMT, stream.read(K))[0] -> (order, fields, K)"""
    fi = ctx.fn("%s:%s" % (M, rname))
    us = [s for s in struct_sites(fi, ctx.folder) if s.kind == "unpack"]
    if len(us) != 1 or us[0].fmt is None:
        return fi, None
    u = us[0]
    order, fields = fmt_fields(u.fmt)
    k = None
    if u.args and isinstance(u.args[0], ast.Call) and norm(u.args[0].func).endswith(".read") and u.args[0].args:
        k = ctx.folder.fold(u.args[0].args[0], fi.module)
    sub = u.call._parent
    first = isinstance(sub, ast.Subscript) and norm(sub.slice) == "0"
    return fi, (order, fields, k, first, u)


def _parents(node, stop):
    out = []
    p = getattr(node, "_parent", None)
    while p is not None and p is not stop:
        out.append(p)
        p = getattr(p, "_parent", None)
    return out


def r1(ctx):
    writers, readers, notes = fold_tables(ctx)
    for n in notes:
        ctx.note(n)
    ctx.expect("C13.R1", "writer table entries", len(writers), 10)
    ctx.expect("C13.R1", "reader table entries", len(readers), 15)
    want_types = {"bool", "int", "float", "str", "bytes", "type(None)", "dict", "tuple", "list", "set"}
    ctx.check(set(writers) == want_types, "C13.R1", "%s:serialize_value" % M, "writer table covers exactly the supported builtin types", witness=sorted(writers))
    # scalar writers pack the value they were given: the payload argument of every pack is the parameter itself, never rebound
    # (a clamp, rounding or default in front of the pack changes what decode(encode(v)) returns without any error)
    for tname in ("bool", "int", "float"):
        fname = writers.get(tname)
        if fname is None or ("%s:%s" % (M, fname)) not in ctx.repo.funcs:
            continue
        wf = ctx.fn("%s:%s" % (M, fname))
        vp_ = wf.params[1] if len(wf.params) > 1 else None
        wdu = defuse_of(wf)
        sites = [s_ for s_ in struct_sites(wf, ctx.folder) if s_.kind == "pack" and len(s_.args) == 2]
        ok = bool(sites) and vp_ is not None
        wit = []
        for s_ in sites:
            a_ = s_.args[1]
            node = wdu.cfg.node_of(s_.call)
            defs = wdu.reaching(a_.id, node.id) if isinstance(a_, ast.Name) and node is not None else None
            good = isinstance(a_, ast.Name) and a_.id == vp_ and defs is not None and all(d[0] == "ENTRY" for d in defs)
            if not good:
                wit.append({"packed": norm(a_), "definitions": [norm(d[1]) if isinstance(d[1], ast.AST) else str(d[0]) for d in (defs or [])][:3]})
            ok = ok and good
        ctx.check(ok, "C13.R1", wf, "%s packs the value it was given (the parameter itself, never rebound)" % fname,
                  "what is written is the value, not a clamped, rounded or replaced one", witness=wit[:2])
    prim = 0
    emitted = {}
    for tname, fname in sorted(writers.items()):
        fi, ems = writer_emissions(ctx, fname)
        if not ems:
            ctx.violated("C13.R1", fi, "no tagged emission", "writer emits no (tag, ...) pack")
            continue
        for (tag, order, payload, site) in ems:
            emitted.setdefault(tag, []).append((fname, order, payload, site))
    for tag, ws in sorted(emitted.items()):
        for (fname, order, payload, site) in ws:
            fi = ctx.fn("%s:%s" % (M, fname))
            if tag not in readers:
                ctx.violated("C13.R1", fi, "tag %d has no reader" % tag, "a value written with this tag cannot be decoded", line=site.lineno)
                continue
            rname = readers[tag]
            if payload:
                rfi, shape = reader_shape(ctx, rname)
                prim += 1
                ok = shape is not None and shape[1] == payload and shape[0] == order == ">" and shape[2] == fmt_size(order + "".join(payload)) and shape[3]
                ctx.check(ok, "C13.R1", fi, "tag %d: writer %s '%s' <-> reader %s" % (tag, fname, "".join(payload), rname),
                          "same struct format, reader consumes exactly calcsize bytes", witness={"writer_fmt": site.fmt, "reader": None if shape is None else {"fmt": shape[4].fmt, "read": shape[2]}},
                          line=site.lineno)
            else:
                ctx.holds("C13.R1", fi, "tag %d: %s -> %s (structured)" % (tag, fname, rname), "pairing checked below")
    ctx.expect("C13.R1", "primitive writer/reader pairs", prim, 6)
    # structured pairs
    pairs = {"serialize_string": ("deserialize_string", "str"), "serialize_bytes": ("deserialize_bytes", "bytes"), "serialize_map": ("deserialize_map", "map"),
             "serialize_seq": ("deserialize_seq", "seq"), "serialize_set": ("deserialize_set", "set"), "serialize_null": ("deserialize_null_t", "null")}
    for wname, (rname, kind) in sorted(pairs.items()):
        wfi, ems = writer_emissions(ctx, wname)
        tags = sorted({e[0] for e in ems})
        ok = len(tags) == 1 and readers.get(tags[0]) == rname
        ctx.check(ok, "C13.R1", wfi, "%s is read by %s" % (wname, rname), witness={"tag": tags, "registered": [readers.get(t) for t in tags]})
        rfi = ctx.fn("%s:%s" % (M, rname))
        sp = wfi.params[0]
        if kind in ("str", "bytes"):
            # writer: tag, serialize_int(stream, len(X)), stream.write(X)
            si = calls_named(wfi, "serialize_int")
            wr = [c for c in calls_named(wfi, "write") if norm(c.func) == "%s.write" % sp]
            ok = len(si) == 1 and len(wr) == 2 and norm(si[0].args[1]) == "len(%s)" % norm(wr[1].args[0]) and before(wfi, wr[0], si[0]) and before(wfi, si[0], wr[1])
            ctx.check(ok, "C13.R1", wfi, "%s: tag, tagged length of the raw bytes, raw bytes (in that order)" % wname, witness=[norm(c) for c in si + wr])
            dv = calls_named(rfi, "deserialize_value")
            rd = [c for c in calls_named(rfi, "read") if norm(c.func) == "%s.read" % rfi.params[0]]
            lv = norm(dv[0]._parent.targets[0]) if dv and isinstance(dv[0]._parent, ast.Assign) else None
            first = [c for c in rd if c.args and norm(c.args[0]) == lv]
            # further reads only to complete a short read: inside `while len(x) < length` with read(length - len(x))
            rest = [c for c in rd if c not in first]
            def _completes(c):
                loops = [p_ for p_ in _parents(c, rfi.node) if isinstance(p_, ast.While)]
                if not loops or not c.args:
                    return False
                t = loops[0].test
                if not (isinstance(t, ast.Compare) and len(t.ops) == 1 and isinstance(t.ops[0], ast.Lt) and norm(t.comparators[0]) == lv
                        and isinstance(t.left, ast.Call) and norm(t.left.func) == "len"):
                    return False
                return norm(c.args[0]) == "%s - %s" % (lv, norm(t.left))
            ok = len(dv) == 1 and len(first) == 1 and all(_completes(c) for c in rest)
            ctx.check(ok, "C13.R1", rfi, "%s: tagged length, then read(length)" % rname, witness=[norm(c) for c in dv + rd])
            if kind == "str":
                enc = [c for c in calls_named(wfi, "encode")]
                dec = [c for c in calls_named(rfi, "decode")]
                # (strict on both sides: an error handler on one side - errors="replace" / "ignore" - writes or reads a different string without refusing)
                ok = len(enc) == 1 and len(dec) == 1 and len(enc[0].args) == 1 and len(dec[0].args) == 1 and not enc[0].keywords and not dec[0].keywords \
                    and norm(enc[0].args[0]) == norm(dec[0].args[0]) and norm(wr[1].args[0]) == norm(enc[0]._parent.targets[0])
                ctx.check(ok, "C13.R1", wfi, "string codec agrees (utf-8) and the encoded bytes are what is written", witness=[norm(c) for c in enc + dec])
        elif kind in ("map", "seq", "set"):
            vp = wfi.params[1]
            sv = calls_named(wfi, "serialize_value")
            ok = len(sv) >= 2 and norm(sv[0].args[1]) == "len(%s)" % vp
            loops = [n for n in walk_own(wfi.node) if isinstance(n, ast.For)]
            if kind == "map":
                ok = ok and len(loops) == 1 and norm(loops[0].iter) == "%s.items()" % vp and len(sv) == 3 and \
                    [norm(c.args[1]) for c in sv[1:]] == [norm(e) for e in loops[0].target.elts]
            else:
                ok = ok and len(loops) == 1 and norm(loops[0].iter) == vp and len(sv) == 2 and norm(sv[1].args[1]) == norm(loops[0].target)
            ctx.check(ok, "C13.R1", wfi, "%s: tag, tagged length, then every element through serialize_value%s" % (wname, " (key, value)" if kind == "map" else ""),
                      witness=[norm(c) for c in sv])
            dv = calls_named(rfi, "deserialize_value")
            lv = norm(dv[0]._parent.targets[0]) if dv and isinstance(dv[0]._parent, ast.Assign) else None
            ranges = [n for n in ast.walk(rfi.node) if isinstance(n, ast.Call) and norm(n.func) == "range"]
            ok = lv is not None and len(ranges) == 1 and norm(ranges[0].args[0]) == lv and len(dv) == (3 if kind == "map" else 2)
            ctx.check(ok, "C13.R1", rfi, "%s: tagged length, then `length` elements through deserialize_value" % rname, witness=[norm(c) for c in dv])
            if kind == "map":
                # by value: the subscript of the one store is the first value decoded in the iteration, the stored value the second
                # (either may go through a temporary), and the key is decoded first
                st = [n for n in walk_own(rfi.node) if isinstance(n, ast.Assign) and isinstance(n.targets[0], ast.Subscript)]
                ok = len(st) == 1 and len(dv) == 3

                def holds(e, call):
                    return e is call or (isinstance(e, ast.Name) and isinstance(call._parent, ast.Assign) and len(call._parent.targets) == 1
                                         and norm(call._parent.targets[0]) == e.id and before(rfi, call, st[0]))
                # (the right-hand side of a store is evaluated before its subscript: a key decoded in place would be read *after* the value)
                ok = ok and isinstance(st[0].targets[0].slice, ast.Name) and holds(st[0].targets[0].slice, dv[1]) and holds(st[0].value, dv[2]) and before(rfi, dv[1], dv[2])
                ctx.check(ok, "C13.R1", rfi, "map reader: first decoded value is the key, second the value", witness=[norm(s) for s in st])
            rets = [n for n in walk_own(rfi.node) if isinstance(n, ast.Return)]
            ctor = {"map": "{}", "seq": "[]", "set": "set("}[kind]
            src = [n for n in walk_own(rfi.node) if isinstance(n, ast.Assign) and rets and norm(n.targets[0]) == norm(rets[0].value)]
            direct = bool(rets) and norm(rets[0].value).startswith(ctor)        # `return set([...])` without a temporary
            ctx.check((bool(src) and norm(src[0].value).startswith(ctor)) or direct, "C13.R1", rfi, "%s returns a %s" % (rname, kind),
                      witness=[norm(s.value)[:40] for s in src] or [norm(r.value)[:40] for r in rets])
    # Serializable / enum objects
    sv = ctx.fn("%s:serialize_value" % M)
    for cls in ("Serializable", "SerializableEnum"):
        hdr = ctx.fn("%s:%s.serialize_header" % (M, cls))
        ps = [s for s in struct_sites(hdr, ctx.folder) if s.kind == "pack"]
        ok = len(ps) == 1 and fmt_fields(ps[0].fmt) == (">", ["H"]) and norm(ps[0].args[0]) == "self.type_id"
        ctx.check(ok, "C13.R1", hdr, "%s header = '>H' type_id" % cls, witness=[s.fmt for s in ps])
        # what is written is that pack result, computed from the instance's own type_id in this call (a value remembered from
        # an earlier call - on the class, the module or the instance - may belong to another class of the hierarchy)
        wr = [c for c in calls_named(hdr, "write") if norm(c.func) == "%s.write" % hdr.params[1]]
        okw = len(wr) == 1 and len(ps) == 1 and len(wr[0].args) == 1
        if okw:
            a0 = wr[0].args[0]
            if a0 is not ps[0].call:
                okw = False
                if isinstance(a0, ast.Name):
                    du = defuse_of(hdr)
                    defs = du.reaching(a0.id, du.cfg.node_of(wr[0]).id)
                    okw = bool(defs) and all(d[1] is ps[0].call for d in defs)
        ctx.check(okw, "C13.R1", hdr, "%s.serialize_header writes pack('>H', self.type_id) computed in the same call" % cls,
                  "the tag written is the type id of the object's own class", witness=[norm(c) for c in wr])
    dvf = ctx.fn("%s:deserialize_value" % M)
    us = [s for s in struct_sites(dvf, ctx.folder) if s.kind == "unpack"]
    rd = [c for c in calls_named(dvf, "read") if norm(c.func) == "%s.read" % dvf.params[0]]
    ok = len(us) == 1 and fmt_fields(us[0].fmt) == (">", ["H"]) and len(rd) == 1 and ctx.folder.fold(rd[0].args[0], dvf.module) == 2
    ctx.check(ok, "C13.R1", dvf, "every value starts with a '>H' tag / type id read from exactly 2 bytes", witness=[s.fmt for s in us])
    # dispatch: tag in deserialize_types -> that reader; tag in registry -> registry[tag]().deserialize(stream)
    # (a callee held in a temporary is read through it: `typ_ = deserialize_types[type_id] ... typ_(stream)`, also when the
    # temporary has one definition per branch and a flag selects the use)
    from .common import sym_expr
    dcfg = cfg_of(dvf)
    calls = []
    for c in walk_own(dvf.node):
        if isinstance(c, ast.Call):
            cn = dcfg.node_of(c)
            if cn is not None and isinstance(c.func, ast.Name):
                f2 = sym_expr(dvf, c.func, cn)
                c2 = ast.Call(func=f2, args=c.args, keywords=c.keywords)
                calls.append(norm(ast.fix_missing_locations(ast.parse(ast.unparse(c2), mode="eval").body)))
            else:
                calls.append(norm(c))
    # (the instance may be held in any local: the one bound to the call of the registered class)
    inst = set()
    for a_ in walk_own(dvf.node):
        if isinstance(a_, ast.Assign) and len(a_.targets) == 1 and isinstance(a_.targets[0], ast.Name) and isinstance(a_.value, ast.Call) and not a_.value.args and not a_.value.keywords:
            an = dcfg.node_of(a_)
            f2 = sym_expr(dvf, a_.value.func, an) if an is not None and isinstance(a_.value.func, ast.Name) else a_.value.func
            if norm(f2) == "registry[type_id]":
                inst.add(a_.targets[0].id)
    ok = any(c.startswith("deserialize_types[type_id](%s" % dvf.params[0]) for c in calls) and "registry[type_id]()" in calls \
        and any(c.startswith("%s.deserialize(%s" % (i_, dvf.params[0])) for c in calls for i_ in inst)
    ctx.check(ok, "C13.R1", dvf, "tag dispatch: builtin reader or registered class instance .deserialize(stream)", witness=calls[:12])
    ser = ctx.fn("%s:Serializable.serialize" % M)
    des = ctx.fn("%s:Serializable.deserialize" % M)
    sc = calls_named(ser, "serialize_value")
    loops = [n for n in walk_own(ser.node) if isinstance(n, ast.For)]
    ok = len(sc) == 2 and norm(sc[0].args[1]) == "len(self._fields)" and len(loops) == 1 and norm(loops[0].iter) == "self._fields" and norm(sc[1].args[1]) == "getattr(self, %s)" % norm(loops[0].target)
    ctx.check(ok, "C13.R1", ser, "Serializable.serialize: field count, then getattr(self, f) for f in _fields", witness=[norm(c) for c in sc])
    dc = calls_named(des, "deserialize_value")
    loops = [n for n in walk_own(des.node) if isinstance(n, ast.For)]
    sa = calls_named(des, "setattr")
    ok = len(dc) == 2 and len(loops) == 1 and norm(loops[0].iter) == "range(%s)" % norm(dc[0]._parent.targets[0]) and len(sa) == 1
    if ok:
        # by value: the attribute name is self._fields[<loop index>] and the value is the second decoded value, each through a
        # temporary or in place
        from .common import sym_text as _st
        i = norm(loops[0].target)
        dn = cfg_of(des).node_of(sa[0])
        val = sa[0].args[2] if len(sa[0].args) == 3 else None
        via_tmp = isinstance(val, ast.Name) and isinstance(dc[1]._parent, ast.Assign) and norm(dc[1]._parent.targets[0]) == val.id and before(des, dc[1], sa[0])
        ok = len(sa[0].args) == 3 and norm(sa[0].args[0]) == "self" and _st(des, sa[0].args[1], dn) == "self._fields[%s]" % i and (val is dc[1] or via_tmp) \
            and any(p is loops[0] for p in _parents_of(sa[0], des.node))
    ctx.check(ok, "C13.R1", des, "Serializable.deserialize: field count, then setattr(self, _fields[i], value) in order", witness=[norm(c) for c in dc + sa])
    rets = [norm(n.value) for n in walk_own(des.node) if isinstance(n, ast.Return)]
    ctx.check(rets == ["self"], "C13.R1", des, "deserialize returns the populated instance", witness=rets)
    es, ed = ctx.fn("%s:SerializableEnum.serialize" % M), ctx.fn("%s:SerializableEnum.deserialize" % M)
    sc, dc = calls_named(es, "serialize_value"), calls_named(ed, "deserialize_value")
    ok = len(sc) == 1 and norm(sc[0].args[1]) == "self.value" and len(dc) == 1 and isinstance(dc[0]._parent, ast.Assign) and norm(dc[0]._parent.targets[0]) == "self.value"
    ctx.check(ok, "C13.R1", es, "enum: writes self.value, reads self.value", witness=[norm(c) for c in sc + dc])
    # serialize_value for objects: header then body ; dumpb the same ; loadb = deserialize_value
    for br in [n for n in ast.walk(sv.node) if isinstance(n, ast.If) and "isinstance(value, Serializable" in norm(n.test)]:
        cs = [norm(s.value) for s in br.body if isinstance(s, ast.Expr)]
        ctx.check(cs == ["value.serialize_header(stream)", "value.serialize(stream, **kwargs)"], "C13.R1", sv, "object branch (%s): header then body" % norm(br.test), witness=cs)
    db = ctx.fn("%s:Serializable.dumpb" % M)
    cs = [norm(c) for c in walk_own(db.node) if isinstance(c, ast.Call)]
    ok = cs[:1] == ["BytesIO()"] and "self.serialize_header(stream)" in cs and "self.serialize(stream, **kwargs)" in cs and cs.index("self.serialize_header(stream)") < cs.index("self.serialize(stream, **kwargs)") and "stream.getvalue()" in cs
    ctx.check(ok, "C13.R1", db, "dumpb = header + body into a fresh buffer", witness=cs)
    lb = ctx.fn("%s:Serializable.loadb" % M)
    # by value: on every path the result is deserialize_value(<the argument, or a BytesIO over it>, **kwargs)
    from .common import sym_paths
    sp = lb.params[0] if lb.params and lb.params[0] not in ("self", "cls") else lb.params[1]
    paths = sym_paths(lb)
    rets = sorted({r for (c, env, r) in paths}) if paths is not None else [norm(n.value) for n in walk_own(lb.node) if isinstance(n, ast.Return)]
    srcs = (sp, "BytesIO(%s)" % sp, "BytesIO(%s) if isinstance(%s, bytes) else %s" % (sp, sp, sp))
    ctx.check(bool(rets) and all(r in ["deserialize_value(%s, **kwargs)" % x for x in srcs] for r in rets), "C13.R1", lb, "loadb decodes one value from the stream", witness=rets)


def _int_cells(ctx):
    fi = ctx.fn("%s:serialize_int" % M)
    cuts = set()
    for n in ast.walk(fi.node):
        if isinstance(n, ast.Compare):
            for c in [n.left] + n.comparators:
                v = ctx.folder.fold(c, fi.module)
                if isinstance(v, int) and not isinstance(v, bool):
                    cuts |= {v, v + 1, -v, -v - 1, -v + 1, v - 1}
    for code in "bhlq":
        lo, hi = INT_RANGE[code]
        cuts |= {lo, lo - 1, hi, hi + 1}
    cuts = sorted(cuts)
    cells = []
    BIG = 2 ** 70
    prev = -BIG
    for c in cuts:
        if c - 1 >= prev:
            cells.append((prev, c - 1))
        prev = c
    cells.append((prev, BIG))
    return fi, [c for c in cells if c[0] <= c[1]]


def r2(ctx):
    fi, cells = _int_cells(ctx)
    vp = fi.params[1]
    overflow_cells = []
    n_fmt = set()
    for cell in cells:
        def hook(call, args, env):
            f = norm(call.func)
            if f == "struct.pack" or f.endswith(".write"):
                return TOP          # emission sinks: the value leaves the function here
            return None
        ex = Explorer(ctx.folder, fi, call_hook=hook, strict=(vp, "a"))
        outs = ex.explore({vp: Iv(cell[0], cell[1])})
        ctx.analysed["cells"] += 1
        if len(outs) != 1:
            ctx.undecided("C13.R2", fi, "value cell [%d, %d] does not select a single path (%d)" % (cell[0], cell[1], len(outs)))
        ev = [e for e in outs[0].events if "struct.pack" in e]
        if len(ev) != 1:
            ctx.undecided("C13.R2", fi, "cell [%d, %d] emits %d packs" % (cell[0], cell[1], len(ev)))
        # format literal in the event text
        import re
        m = re.search(r"struct\.pack\('([^']+)'", ev[0])
        if not m:
            ctx.undecided("C13.R2", fi, "non-literal pack format in %s" % ev[0])
        order, fields = fmt_fields(m.group(1))
        code = fields[1]
        n_fmt.add(code)
        lo, hi = INT_RANGE[code]
        fits = lo <= cell[0] and cell[1] <= hi
        if not fits and code == "q" and (cell[1] > hi or cell[0] < lo) and (cell[0] > INT_RANGE["l"][1] or cell[1] < INT_RANGE["l"][0]):
            overflow_cells.append(cell)       # beyond 64 bits: struct.error -> ValueError (checked below)
            continue
        ctx.check(fits, "C13.R2", fi, "cell [%d, %d] -> '%s'" % (cell[0], cell[1], code), "every integer of the cell fits the struct format selected for it",
                  witness={"format_range": [lo, hi]})
    ctx.check(n_fmt == {"b", "h", "l", "q"}, "C13.R2", fi, "four widths are used", witness=sorted(n_fmt))
    qlo, qhi = INT_RANGE["q"]
    ctx.check(any(c[1] < qlo for c in overflow_cells) and any(c[0] > qhi for c in overflow_cells) and all(c[1] < qlo or c[0] > qhi for c in overflow_cells), "C13.R2", fi, "integers beyond 64 bits reach the widest format (struct.error)", witness=overflow_cells)
    # the conversion idiom in serialize_value
    sv = ctx.fn("%s:serialize_value" % M)
    call = _dispatch_calls(sv)
    if ctx.require("C13.R2", sv, "writer dispatch serialize_types[type(value)](stream, value)", len(call), 1):
        trys = enclosing_trys(call[0])
        ok = False
        scfg = cfg_of(sv)
        if trys:
            for h in trys[0].handlers:
                if h.type is not None and norm(h.type) == "struct.error":
                    rz = [s for s in h.body if isinstance(s, ast.Raise) and isinstance(s.exc, ast.Call) and norm(s.exc.func) == "ValueError"]
                    ok = ok or len(rz) == 1
                    # ... or the error is parked in a local and raised after the try, exactly when it was set
                    asg = [s for s in h.body if isinstance(s, ast.Assign) and isinstance(s.value, ast.Call) and norm(s.value.func) == "ValueError" and isinstance(s.targets[0], ast.Name)]
                    if len(asg) == 1:
                        ev = asg[0].targets[0].id
                        an = scfg.node_of(asg[0])
                        for r in scfg.stmts((ast.Raise,)):
                            if r.ast.exc is not None and norm(r.ast.exc) == ev and r.id in scfg.reachable(an.id):
                                conds = {(norm(t), p) for (t, p) in scfg.conditions_of(r.id)}
                                if conds & {(ev, True), ("%s is not None" % ev, True), ("%s is None" % ev, False)}:
                                    # nothing rebinds the local between the handler and the raise
                                    from engine.defuse import defuse_of
                                    defs = {d[0] for d in defuse_of(sv).reaching(ev, r.id)}
                                    others = [d for d in defs if d != an.id and d != "ENTRY" and not (isinstance(scfg.nodes[d].ast, ast.Assign) and norm(scfg.nodes[d].ast.value) == "None")]
                                    ok = ok or not others
        ctx.check(ok, "C13.R2", sv, "struct.error of a writer is converted to ValueError", "ints beyond 64 bits are refused with ValueError, never mis-encoded", line=call[0].lineno)
    # direct callers of serialize_int pass guarded lengths
    for (f, c) in package_calls(ctx.repo, "serialize_int"):
        if f.module.name != M or f.name == "serialize_value":
            continue
        arg = norm(c.args[1])
        guards = [n for n in walk_own(f.node) if isinstance(n, ast.If) and isinstance(n.test, ast.Compare) and norm(n.test.left) == arg and norm(n.test.comparators[0]) == "MAX_BYTES_LENGTH"
                  and any(isinstance(s, ast.Raise) for s in n.body) and before(f, n, c)]
        ctx.check(len(guards) == 1, "C13.R2", f, "serialize_int(%s) is preceded by the MAX_BYTES_LENGTH guard" % arg, line=c.lineno)
    mx = ctx.folder.module_attr(ctx.repo.mod(M), "MAX_BYTES_LENGTH")
    ctx.check(isinstance(mx, int) and mx <= INT_RANGE["q"][1], "C13.R2", fi, "MAX_BYTES_LENGTH fits a 64-bit length", witness=mx)


def _parents_of(node, stop):
    out = []
    p = getattr(node, "_parent", None)
    while p is not None and p is not stop:
        out.append(p)
        p = getattr(p, "_parent", None)
    return out


def _dispatch_calls(sv):
    """calls of serialize_value whose callee is serialize_types[<key>] with the key - read through temporaries - type(value)"""
    from .common import sym_expr
    scfg = cfg_of(sv)
    out = []
    for c in walk_own(sv.node):
        if isinstance(c, ast.Call):
            f = sym_expr(sv, c.func, scfg.node_of(c), allow_calls=("type",))
            if isinstance(f, ast.Subscript) and norm(f.value) == "serialize_types" and norm(f.slice) == "type(%s)" % sv.params[1]:
                out.append(c)
    return out


def r3(ctx):
    sv = ctx.fn("%s:serialize_value" % M)
    from .common import sym_text, leaf_cut, reach_without
    scfg = cfg_of(sv)
    vp = sv.params[1]
    call = _dispatch_calls(sv)
    # the key of the lookup and of the membership test that guards it is type(value), read through temporaries
    ok = len(call) == 1
    member = []
    if ok:
        for (t, p) in scfg.conditions_of(scfg.node_of(call[0]).id):
            if isinstance(t, ast.Compare) and len(t.ops) == 1 and isinstance(t.ops[0], (ast.In, ast.NotIn)) and norm(t.comparators[0]) == "serialize_types":
                key = sym_text(sv, t.left, scfg.node_of(t), allow_calls=("type",))
                if key == "type(%s)" % vp and p == isinstance(t.ops[0], ast.In):
                    member.append(t)
        ok = len(member) == 1
    ctx.check(ok, "C13.R3", sv, "dispatch on the exact type(value) (bool is not treated as int, subclasses are not silently accepted)",
              witness=[norm(c.func) for c in call])
    # fall-through raises TypeError: with the edges of `type in table` and of every isinstance(value, ...) test that accept the value
    # removed, no normal exit is reachable and the TypeError is
    def accept(text):
        if text.endswith(" in serialize_types") and " not in " not in text:
            return "T"
        if text.endswith(" not in serialize_types"):
            return "F"
        if text.startswith("isinstance(%s, " % vp):
            return "T"
        return None
    cut = leaf_cut(scfg, accept)
    reach = reach_without(scfg, scfg.entry, cut)
    exits = [n for n in scfg.stmts((ast.Return,)) if n.id in reach]
    te = [n for n in scfg.stmts((ast.Raise,)) if n.id in reach and isinstance(n.ast.exc, ast.Call) and norm(n.ast.exc.func) == "TypeError"]
    ok = bool(cut) and not exits and scfg.exit not in reach and len(te) >= 1
    ctx.check(ok, "C13.R3", sv, "unsupported types raise TypeError", witness={"accepting_tests": sorted(norm(scfg.nodes[k].ast) for k in cut), "returns_reached": [norm(n.ast) for n in exits],
                                                                              "falls_off_the_end": scfg.exit in reach})
    # length guards: writer constant == reader constant
    pairs = (("serialize_string", "deserialize_string", "MAX_BYTES_LENGTH"), ("serialize_bytes", "deserialize_bytes", "MAX_BYTES_LENGTH"),
             ("serialize_map", "deserialize_map", "MAX_ARRAY_LENGTH"), ("serialize_seq", "deserialize_seq", "MAX_ARRAY_LENGTH"), ("serialize_set", "deserialize_set", "MAX_ARRAY_LENGTH"))
    for w, r, const in pairs:
        for fname in (w, r):
            f = ctx.fn("%s:%s" % (M, fname))
            gs = [n for n in walk_own(f.node) if isinstance(n, ast.If) and isinstance(n.test, ast.Compare) and len(n.test.ops) == 1 and isinstance(n.test.ops[0], ast.Gt)
                  and norm(n.test.comparators[0]) == const and any(isinstance(s, ast.Raise) and isinstance(s.exc, ast.Call) and norm(s.exc.func) == "ValueError" for s in n.body)]
            ctx.check(len(gs) == 1, "C13.R3", f, "%s: length > %s -> ValueError" % (fname, const), "writer and reader enforce the same limit with the same comparison",
                      witness=[norm(n.test) for n in walk_own(f.node) if isinstance(n, ast.If)])
            if fname == w and gs:
                # the guard precedes the first write
                wr = [c for c in walk_own(f.node) if isinstance(c, ast.Call) and (norm(c.func).endswith(".write") or norm(c.func) in ("serialize_value", "serialize_int"))]
                ctx.check(all(before(f, gs[0], c) for c in wr), "C13.R3", f, "%s refuses before writing anything" % fname)
    # enum refuses illegal values
    es = ctx.fn("%s:SerializableEnum.serialize" % M)
    gs = [n for n in walk_own(es.node) if isinstance(n, ast.If) and norm(n.test) == "self.value not in self._value2name" and any(isinstance(s, ast.Raise) for s in n.body)]
    ctx.check(len(gs) == 1, "C13.R3", es, "enum refuses a value outside its members")
    # no writer swallows errors: no bare except / except Exception: pass in the writers
    bad = []
    for fname in ("serialize_value", "serialize_int", "serialize_string", "serialize_bytes", "serialize_map", "serialize_seq", "serialize_set", "serialize_bool", "serialize_float"):
        f = ctx.fn("%s:%s" % (M, fname))
        for n in walk_own(f.node):
            if isinstance(n, ast.ExceptHandler) and not any(isinstance(s, ast.Raise) for s in ast.walk(n)) and not any(isinstance(s, ast.Assign) for s in n.body):
                bad.append("%s: %s" % (fname, norm(n)[:60]))
    ctx.check(not bad, "C13.R3", sv, "no writer swallows an error", witness=bad)


def r_idioms(ctx):
    from .common import repo_idioms
    repo_idioms(ctx, "C13.R4", ('serializable',))


RULES = [("C13.R1", r1), ("C13.R2", r2), ("C13.R3", r3), ("C13.R4", r_idioms)]
