"""C16 - HTTP router matches paths exactly as the documented pattern grammar says."""
import ast

from engine.index import norm, walk_own, Undecided
from engine.cfg import cfg_of
from engine.embedded import parse_regex, first_chars, count_groups, capture_bodies, can_contain, min_max_len, anchors
from .common import calls_named

EXPLANATION = (
    "Rules on the regular expression that Router.patternToRegex builds. The function is a pure string builder: it is partially "
    "evaluated (engine/minieval.py - an interpreter for assignments, loops, branches, comprehensions and a closed list of pure "
    "str/list/dict operations; the program itself is never imported or run) on a dozen constant patterns, and the fragment that "
    "each kind of segment contributes is obtained by differencing the texts built for one- and two-segment patterns, so branches "
    "with +=, a table of fragments or a joined list are the same to the rules. Fragments are parsed with re._parser - nothing is "
    "compiled against data or matched. Decides: (R1) every fragment (the four parameter kinds, the literal prefix, the trailer) "
    "can only begin with '/', so a preceding literal cannot match a proper prefix of a path segment; (R2) single-segment captures "
    "exclude '/', plain and + need at least one character, ? and * allow none; (R3) each parameter contributes exactly one token "
    "(its name without ':' and suffix, in pattern order) and one capturing group, literal and trailer fragments have none, getRoute "
    "zips the route's tokens with the groups of the match of that route's pattern; (R4) the text is anchored (^...$), empty "
    "segments do not contribute, the trailer is one optional '/' after every kind of last segment, getRoute uses match(); (R5) "
    "routes are appended per method and tried in registration order, first match wins, None for no match / unknown method, dispatch "
    "maps that to 404; (R6) a second ?/*/+ parameter is refused with ValueError; (R7) literal text is escaped; (R9) per-router route "
    "lists. Router.getRoute is decided the same way: evaluated on a model route table whose pattern objects are stand-ins that record "
    "each match call and answer as the scenario says (unknown method, no match, first / middle / last route matching, another "
    "method's list); the shape rules on its loop are only the fallback when the function is outside the evaluator's fragment. "
    "Does not decide full language equivalence with the prose grammar (empty segments under */+ are not specified precisely)."
)
ASSUMPTIONS = ["re semantics as documented; re.escape makes every character literal"]

PTR = "http_server:Router.patternToRegex"
UNIVERSE = "/ab.-_0:% ?+*"


_EV = {}


def evaluated(ctx):
    """facts about Router.patternToRegex obtained by partial evaluation (engine/minieval.py) on constant patterns: the regular
    expression text and token list it builds, or the exception it raises.  The statements may be arranged in any way (branches
    with +=, a table of fragments, a list that is joined): what counts is the string that reaches re.compile."""
    key = id(ctx.repo)
    if key in _EV:
        return _EV[key]
    from engine.minieval import MiniEval
    fi = ctx.fn(PTR)

    def P(pattern):
        me = MiniEval(ctx.repo, ctx.folder, fi, symbolic={"re.compile"})
        r = me.call([pattern])
        if r[0] == "raise":
            return ("raise", r[1])
        v = r[1]
        if not (isinstance(v, tuple) and len(v) == 2 and isinstance(v[0], tuple) and v[0][:2] == ("<sym>", "re.compile") and len(v[0][2]) >= 1
                and isinstance(v[0][2][0], str) and isinstance(v[1], list)):
            raise Undecided("patternToRegex does not return (re.compile(<text>), <token list>): %r" % (v,))
        return ("ok", v[0][2][0], v[1], v[0][2][1:], v[0][3])
    facts = {"P": P, "fi": fi}
    _EV[key] = facts
    return facts


def _getroute_by_evaluation(ctx, gr):
    """Router.getRoute decided by partial evaluation (engine/minieval.py) on a model route table: three routes under GET whose
    pattern objects are stand-ins - `.match(path)` / `.fullmatch(path)` records the call and answers a stand-in match (or None)
    as the scenario says, `.groups()` of a match names the pattern it came from.  The loop may be written in any way (a helper per
    entry, an explicit dict loop, positive or negative membership test).  None when outside the evaluator's fragment."""
    from engine.minieval import MiniEval, Obj
    key = ("getRoute", id(ctx.repo))
    if key in _EV:
        return _EV[key]
    table = lambda: {"GET": [(Obj("P1"), ["a"], "R1"), (Obj("P2"), ["b", "c"], "R2"), (Obj("P3"), ["d", "e"], "R3")], "PUT": [(Obj("P9"), ["z"], "R9")]}
    out = {"cases": [], "bad": []}
    try:
        for name, method, hits, want, want_calls in (
                ("unknown method", "POST", {"P1", "P2", "P3", "P9"}, None, []),
                ("no route matches", "GET", set(), None, ["P1", "P2", "P3"]),
                ("first route matches", "GET", {"P1", "P3"}, ("R1", {"a": "P1#0"}), ["P1"]),
                ("second and third match", "GET", {"P2", "P3"}, ("R2", {"b": "P2#0", "c": "P2#1"}), ["P1", "P2"]),
                ("only the last matches", "GET", {"P3", "P9"}, ("R3", {"d": "P3#0", "e": "P3#1"}), ["P1", "P2", "P3"]),
                ("other method's route", "PUT", {"P9"}, ("R9", {"z": "P9#0"}), ["P9"])):
            calls = []

            def match(base, *args, _how="match", **kwargs):
                calls.append((base.name, _how, args, kwargs))
                return Obj("M:" + base.name) if base.name in hits else None
            ev = MiniEval(ctx.repo, ctx.folder, gr, self_attrs={"route_table": table()},
                          stubs={"mplogger.error": lambda *a, **k: None, "mplogger.warning": lambda *a, **k: None, "mplogger.info": lambda *a, **k: None, "mplogger.debug": lambda *a, **k: None})
            ev.method_stubs = {"match": match, "fullmatch": lambda b, *a, **k: match(b, *a, _how="fullmatch", **k),
                               "search": lambda b, *a, **k: match(b, *a, _how="search", **k),
                               "groups": lambda base, *a: tuple("%s#%d" % (base.name[2:], i) for i in range({"P1": 1, "P9": 1}.get(base.name[2:], 2))),
                               "groupdict": lambda base, *a: {}}
            r = ev.call([method, "/the/path"])
            got = r[1] if r[0] == "return" else r
            if isinstance(got, list):
                got = tuple(got)
            rec = {"case": name, "result": repr(got), "matched": [c[0] for c in calls]}
            out["cases"].append(rec)
            if r[0] != "return" or got != want:
                out["bad"].append(dict(rec, kind="result", want=repr(want)))
            if [c[0] for c in calls] != want_calls:
                out["bad"].append(dict(rec, kind="order", want=want_calls))
            if any(c[1] not in ("match", "fullmatch") or c[2] != ("/the/path",) or c[3] for c in calls):
                out["bad"].append(dict(rec, kind="match call", calls=[repr(c[1:]) for c in calls]))
    except Undecided:
        out = None
    _EV[key] = out
    return out


def fragments(ctx):
    """kind -> (fragment text, escaped?, function node): the fragment each kind of pattern segment contributes, by differencing
    the texts built for one- and two-segment patterns (which also shows that the translation is a concatenation per segment)"""
    ev = evaluated(ctx)
    if "fragments" in ev:
        return ev["fi"], ev["fragments"]
    P, fi = ev["P"], ev["fi"]

    def R(pattern):
        r = P(pattern)
        if r[0] != "ok":
            raise Undecided("patternToRegex(%r) raises %s" % (pattern, r[1]))
        return r[1]
    rx, ry, rxy = R("/x"), R("/y"), R("/x/y")
    if not (rxy[:1] == rx[:1] and rxy.endswith(ry[1:])):
        raise Undecided("patternToRegex is not a per-segment concatenation: %r %r %r" % (rx, ry, rxy))
    f_x = rxy[1:len(rxy) - len(ry) + 1]
    tail = rx[1 + len(f_x):]                 # trailer + '$'
    out = {}
    node = fi.node
    end = "$" if tail.endswith("$") else ""
    out["end"] = (end, None, node)
    out["trailer"] = (tail[:len(tail) - len(end)], None, node)
    ev["no_trailer"] = []
    # literal: constant prefix + escaped text
    esc = R("/a.b/y")
    f_ab = esc[1:len(esc) - len(ry) + 1]
    import re as _re
    prefix = f_x[:len(f_x) - 1] if f_x.endswith("x") else None
    escaped = prefix is not None and f_ab == prefix + _re.escape("a.b")
    out["literal"] = (prefix if prefix is not None else f_x, escaped, node)
    for kind, seg in (("plain", ":n"), ("?", ":n?"), ("*", ":n*"), ("+", ":n+")):
        r = R("/x/" + seg)
        if not r[1:].startswith(f_x):
            raise Undecided("patternToRegex(%r) does not start with the translation of its first segment: %r" % ("/x/" + seg, r))
        rest = r[1 + len(f_x):]
        if tail and rest.endswith(tail):
            out[kind] = (rest[:len(rest) - len(tail)], None, node)
        else:
            # the trailer does not follow this kind of last segment: the whole rest (without the end anchor) is its fragment
            ev["no_trailer"].append(kind)
            out[kind] = (rest[:len(rest) - len(end)] if end and rest.endswith(end) else rest, None, node)
    ev["fragments"] = out
    return fi, out


def _parents_of(node, stop):
    out = []
    p = getattr(node, "_parent", None)
    while p is not None and p is not stop:
        out.append(p)
        p = getattr(p, "_parent", None)
    return out


def r1(ctx):
    fi, fr = fragments(ctx)
    ctx.expect("C16.R1", "router fragment branches", len([k for k in fr if k in ("?", "*", "+", "plain", "literal", "trailer")]), 6)
    for kind in ("?", "*", "+", "plain", "literal", "trailer"):
        if kind not in fr:
            ctx.violated("C16.R1", fi, "missing fragment for %s" % kind)
            continue
        text, dyn, node = fr[kind]
        sub = parse_regex(text)
        first, empty = first_chars(sub, UNIVERSE)
        if kind == "literal":
            # constant prefix followed by the (escaped) literal text: the prefix itself must consume a '/'
            ok = first == {"/"} and not empty
        else:
            ok = first <= {"/"}
        ctx.check(ok, "C16.R1", fi, "fragment %s = %r begins only with '/'" % (kind, text),
                  "a fragment that can begin with another character lets the preceding literal match a proper prefix of a path segment",
                  witness={"FIRST": sorted(first), "can_be_empty": empty}, line=node.lineno)


def r2(ctx):
    fi, fr = fragments(ctx)
    for kind, need_min, multi in (("plain", 1, False), ("?", 0, False), ("+", 1, True), ("*", 0, True)):
        if kind not in fr:
            continue
        text, dyn, node = fr[kind]
        caps = capture_bodies(parse_regex(text))
        if len(caps) != 1:
            continue
        lo, hi = min_max_len(caps[0])
        has_slash = can_contain(caps[0], "/", UNIVERSE)
        ctx.check(lo == need_min, "C16.R2", fi, "capture of %s needs at least %d character(s)" % (kind, need_min), witness={"min": lo}, line=node.lineno)
        ctx.check(has_slash == multi, "C16.R2", fi, "capture of %s %s '/'" % (kind, "may span" if multi else "excludes"),
                  ":name and :name? bind one segment, + and * bind the rest of the path", witness={"can_contain_slash": has_slash}, line=node.lineno)
        # whole fragment optional or mandatory
        flo, fhi = min_max_len(parse_regex(text))
        ctx.check((flo == 0) == (kind in ("?", "*")), "C16.R2", fi, "fragment %s is %s" % (kind, "optional" if kind in ("?", "*") else "mandatory"), witness={"min_len": flo}, line=node.lineno)


def r3(ctx):
    fi, fr = fragments(ctx)
    P = evaluated(ctx)["P"]
    for kind, seg in (("?", ":name?"), ("*", ":name*"), ("+", ":name+"), ("plain", ":name")):
        if kind not in fr:
            continue
        text, dyn, node = fr[kind]
        r = P("/x/" + seg)
        toks = r[2] if r[0] == "ok" else None
        n_groups = count_groups(parse_regex(text))
        ctx.check(toks is not None and len(toks) == 1 and n_groups == 1, "C16.R3", fi, "%s: one token, one capturing group" % kind, "values are paired with names positionally",
                  witness={"tokens": toks, "groups": n_groups}, line=node.lineno)
        ctx.check(toks == ["name"], "C16.R3", fi, "%s: token name = the segment without ':' and without its suffix" % kind, witness=toks, line=node.lineno)
    r = P("/a/:p/b/:q?")
    ctx.check(r[0] == "ok" and r[2] == ["p", "q"], "C16.R3", fi, "tokens are collected in pattern order", witness=r[2] if r[0] == "ok" else r)
    for kind in ("literal", "trailer", "end"):
        if kind in fr:
            ctx.check(count_groups(parse_regex(fr[kind][0])) == 0, "C16.R3", fi, "%s fragment has no capturing group" % kind, line=fr[kind][2].lineno)
    gr = ctx.fn("http_server:Router.getRoute")
    ge = _getroute_by_evaluation(ctx, gr)
    if ge is not None:
        bad = [b for b in ge["bad"] if b["kind"] == "result"]
        ctx.check(not bad, "C16.R3", gr, "getRoute pairs tokens with m.groups()", "getRoute evaluated (engine/minieval) on a model route table, %d scenarios: the answer is "
                  "(route, {token: group}) of the first route whose pattern matches, the groups taken from that route's own match" % len(ge["cases"]), witness=bad[:2] or ge["cases"][:2])
    z = [] if ge is not None else [c for c in walk_own(gr.node) if isinstance(c, ast.Call) and norm(c.func) == "zip"]
    ok = len(z) == 1 and len(z[0].args) == 2 and norm(z[0].args[0]) in ("tokens", "names") and isinstance(z[0].args[1], ast.Call) and isinstance(z[0].args[1].func, ast.Attribute) \
        and z[0].args[1].func.attr == "groups"
    if ok:
        # the first zip argument is the token list stored with the route, the second the groups of the match of that route's pattern
        lp = [p_ for p_ in _parents_of(z[0], gr.node) if isinstance(p_, ast.For)]
        ok = bool(lp) and isinstance(lp[0].target, ast.Tuple) and len(lp[0].target.elts) == 3 and norm(lp[0].target.elts[1]) == norm(z[0].args[0])
        mv = norm(z[0].args[1].func.value)
        ms = [n for n in walk_own(gr.node) if isinstance(n, ast.Assign) and norm(n.targets[0]) == mv and isinstance(n.value, ast.Call) and isinstance(n.value.func, ast.Attribute)
              and n.value.func.attr in ("match", "fullmatch") and lp and norm(n.value.func.value) == norm(lp[0].target.elts[0])]
        ok = ok and len(ms) == 1
    if ge is None:
        ctx.check(ok, "C16.R3", gr, "getRoute pairs tokens with m.groups()", witness=[norm(c) for c in z])
    r = P("/x")
    ctx.check(r[0] == "ok" and not r[3] and not r[4], "C16.R3", fi, "patternToRegex returns (compiled pattern, tokens)", "re.compile(text) without flags",
              witness=list(r[3:]) if r[0] == "ok" else r)


def r4(ctx):
    fi, fr = fragments(ctx)
    P = evaluated(ctx)["P"]
    samples = ["/", "/x", "/x/:n", "/x/:n?", "/:a/:b*", "/:a+", "/a.b/c"]
    texts = [P(p_) for p_ in samples]
    ctx.check(all(t[0] == "ok" and t[1].startswith("^") for t in texts), "C16.R4", fi, "pattern starts with ^", witness=[t[1] if t[0] == "ok" else t for t in texts][:3])
    ctx.check(all(t[0] == "ok" and t[1].endswith("$") and not t[1].endswith("\\$") for t in texts), "C16.R4", fi, "pattern ends with $ (appended last, unconditionally)",
              witness=[t[1] if t[0] == "ok" else t for t in texts][:3])
    ctx.check(not evaluated(ctx).get("no_trailer"), "C16.R4", fi, "the trailer follows every kind of last segment",
              "a pattern that ends in a parameter matches with and without a trailing slash like every other pattern", witness=evaluated(ctx).get("no_trailer"))
    if "trailer" in fr:
        sub = parse_regex(fr["trailer"][0])
        lo, hi = min_max_len(sub)
        f, e = first_chars(sub, UNIVERSE)
        ctx.check((lo, hi) == (0, 1) and f == {"/"}, "C16.R4", fi, "trailer = one optional '/'", witness={"min": lo, "max": hi, "FIRST": sorted(f)})
    gr = ctx.fn("http_server:Router.getRoute")
    ge = _getroute_by_evaluation(ctx, gr)
    if ge is not None:
        bad = [b for b in ge["bad"] if b["kind"] == "match call"]
        ctx.check(not bad, "C16.R4", gr, "getRoute matches the request path from its start", "every pattern is applied with match / fullmatch to the path argument, unchanged",
                  witness=bad[:2])
    else:
        ms = [c for c in walk_own(gr.node) if isinstance(c, ast.Call) and isinstance(c.func, ast.Attribute) and c.func.attr in ("match", "search", "fullmatch", "findall")]
        ctx.check(len(ms) == 1 and ms[0].func.attr in ("match", "fullmatch") and norm(ms[0].args[0]) == gr.params[2], "C16.R4", gr, "getRoute matches the request path from its start", witness=[norm(m) for m in ms])
    # segments: the pattern is split on '/' and empty parts are dropped
    a_, b_, c_ = P("/x/y"), P("//x///y//"), P("x/y")
    ctx.check(a_[0] == "ok" and a_[:3] == b_[:3] == c_[:3], "C16.R4", fi, "pattern segments = non-empty parts of pattern.split('/')",
              "empty segments (doubled, leading, trailing slashes) do not contribute", witness=[a_[1:3], b_[1:3], c_[1:3]])


def r5(ctx):
    rr = ctx.fn("http_server:Router.registerRoutes")
    aps = [c for c in calls_named(rr, "append") if norm(c.func.value) == "self.route_table[route.method]"]
    ok = len(aps) == 1 and norm(aps[0].args[0]) == "(regex, tokens, route)"
    ctx.check(ok, "C16.R5", rr, "routes are appended to route_table[route.method] in registration order", witness=[norm(c) for c in aps])
    ins = [c for c in walk_own(rr.node) if isinstance(c, ast.Call) and isinstance(c.func, ast.Attribute) and c.func.attr in ("insert", "sort", "reverse") and "route_table" in norm(c.func.value)]
    ctx.check(not ins, "C16.R5", rr, "no reordering of the route table", witness=[norm(c) for c in ins])
    pr = [c for c in calls_named(rr, "patternToRegex")]
    ctx.check(len(pr) == 1 and norm(pr[0].args[0]) == "route.pattern", "C16.R5", rr, "each route is compiled from its own pattern")
    # every route handed in enters the table: the store is controlled by the loop alone, or by tests whose other side raises (the
    # unsupported-method refusal).  A route that is silently skipped (de-duplication by some key, a filter) never gets to match:
    # "the first *registered* route whose pattern matches" then answers 404 for paths only that route accepts.
    if len(aps) == 1:
        rcfg = cfg_of(rr)
        an = rcfg.node_of(aps[0])
        lp = [p_ for p_ in _parents_of(aps[0], rr.node) if isinstance(p_, (ast.For, ast.While))]
        if an is not None and lp and rcfg.node_of(lp[0]) is not None:
            loop_conds = {(id(t), p_) for (t, p_) in rcfg.conditions_of(rcfg.node_of(lp[0]).id)}
            silent = []
            for (t, pol) in rcfg.conditions_of(an.id, loop_exits=False):
                if (id(t), pol) in loop_conds:
                    continue
                ifs = [n for n in walk_own(rr.node) if isinstance(n, ast.If) and any(x is t for x in ast.walk(n.test))]
                other = (ifs[0].orelse if pol else ifs[0].body) if ifs else []
                if not (other and isinstance(other[-1], ast.Raise)):
                    silent.append((norm(t), pol))
            jumps = [n for n in ast.walk(lp[0]) if isinstance(n, (ast.Continue, ast.Break, ast.Return))]
            ctx.check(not silent and not jumps, "C16.R5", rr, "every route handed to registerRoutes enters the table (or the call raises)",
                      "a route that is skipped silently never gets to match", witness=silent + [norm(j) for j in jumps])
    gr = ctx.fn("http_server:Router.getRoute")
    cfg = cfg_of(gr)
    from .common import sym_text
    ge = _getroute_by_evaluation(ctx, gr)
    if ge is not None:
        why = "getRoute evaluated (engine/minieval) on a model route table, %d scenarios" % len(ge["cases"])
        order = [b for b in ge["bad"] if b["kind"] == "order"]
        ctx.check(not order, "C16.R5", gr, "getRoute iterates the request method's routes in order", why + ": the patterns of the request method's list are tried first to last, "
                  "up to the first that matches", witness=order[:2] or ge["cases"][:2])
        res = [b for b in ge["bad"] if b["kind"] == "result" and b["want"] != "None"]
        ctx.check(not res and not order, "C16.R5", gr, "the first matching route is returned at once", why, witness=(res + order)[:2])
        none = [b for b in ge["bad"] if b["kind"] == "result" and b["want"] == "None"]
        ctx.check(not none, "C16.R5", gr, "no match / unknown method -> None", why, witness=none[:2])
        ctx.check(not [b for b in none if b["case"] == "unknown method"], "C16.R5", gr, "unknown methods are refused before the lookup", why)
        # every route of the method is tried against the path: the match executes in every iteration (no pre-filter may skip a
        # route - the pattern alone decides).  Structural, for any arrangement of the loop: the match call is controlled by
        # nothing but the loop itself and what controls the loop
        mcalls = [c for c in walk_own(gr.node) if isinstance(c, ast.Call) and isinstance(c.func, ast.Attribute) and c.func.attr in ("match", "fullmatch")]
        for mc in mcalls:
            lp = [p_ for p_ in _parents_of(mc, gr.node) if isinstance(p_, (ast.For, ast.While))]
            comps = [p_ for p_ in _parents_of(mc, gr.node) if isinstance(p_, (ast.ListComp, ast.GeneratorExp, ast.SetComp))]
            if not lp and comps:
                # the loop is a comprehension over the table: the match is its element (evaluated for every item that passes the
                # filters - so there must be none) or its first filter (evaluated for every item)
                c0 = comps[0]
                between = _parents_of(mc, c0)
                if len(c0.generators) != 1 or any(isinstance(b_, (ast.IfExp, ast.BoolOp, ast.Lambda)) for b_ in between):
                    ctx.undecided("C16.R5", gr, "the pattern match of getRoute is evaluated conditionally inside a comprehension")
                g0 = c0.generators[0]
                in_first_if = bool(g0.ifs) and any(x is mc for x in ast.walk(g0.ifs[0]))
                extra = [norm(f_) for f_ in (g0.ifs if not in_first_if else [])]
                ctx.check(not extra, "C16.R5", gr, "every registered route of the method is matched against the path (no pre-filter)",
                          "a route skipped by a shortcut test never gets to match: a request the documented pattern accepts is answered 404", witness=extra)
                continue
            if not lp or cfg.node_of(lp[0]) is None or cfg.node_of(mc) is None:
                ctx.undecided("C16.R5", gr, "the pattern match of getRoute is not inside a loop")
            loop_conds = {(id(t), p) for (t, p) in cfg.conditions_of(cfg.node_of(lp[0]).id)}
            extra = [(norm(t), p) for (t, p) in cfg.conditions_of(cfg.node_of(mc).id, loop_exits=False) if (id(t), p) not in loop_conds]
            ctx.check(not extra, "C16.R5", gr, "every registered route of the method is matched against the path (no pre-filter)",
                      "a route skipped by a shortcut test never gets to match: a request the documented pattern accepts is answered 404", witness=extra)
    else:
        loops = [n for n in walk_own(gr.node) if isinstance(n, ast.For)]
        ok = len(loops) == 1 and cfg.node_of(loops[0]) is not None and sym_text(gr, loops[0].iter, cfg.node_of(loops[0])) == "self.route_table[%s]" % gr.params[1]
        ctx.check(ok, "C16.R5", gr, "getRoute iterates the request method's routes in order", witness=[norm(l.iter) for l in loops])
        if ok:
            rets = [n for n in ast.walk(loops[0]) if isinstance(n, ast.Return)]
            conds = [(norm(t), p) for (t, p) in cfg.conditions_of(cfg.node_of(rets[0]).id)] if rets else []
            mvars = [norm(n.targets[0]) for n in ast.walk(loops[0]) if isinstance(n, ast.Assign) and isinstance(n.value, ast.Call) and isinstance(n.value.func, ast.Attribute)
                     and n.value.func.attr in ("match", "fullmatch")]
            ok2 = len(rets) == 1 and len(mvars) == 1 and bool({(mvars[0], True), ("%s is not None" % mvars[0], True), ("%s is None" % mvars[0], False)} & set(conds)) and isinstance(rets[0].value, ast.Tuple) and norm(rets[0].value.elts[0]) == norm(loops[0].target.elts[2])
            ctx.check(ok2, "C16.R5", gr, "the first matching route is returned at once", witness=conds)
            # every route of the method is tried against the path: the match executes in every iteration (no pre-filter may skip
            # a route - the pattern alone decides)
            mcalls = [c for c in ast.walk(loops[0]) if isinstance(c, ast.Call) and isinstance(c.func, ast.Attribute) and c.func.attr in ("match", "fullmatch")]
            if mcalls:
                loop_conds = {(id(t), p) for (t, p) in cfg.conditions_of(cfg.node_of(loops[0]).id)}
                extra = [(norm(t), p) for (t, p) in cfg.conditions_of(cfg.node_of(mcalls[0]).id, loop_exits=False) if (id(t), p) not in loop_conds]
                ctx.check(not extra, "C16.R5", gr, "every registered route of the method is matched against the path (no pre-filter)",
                          "a route skipped by a shortcut test never gets to match: a request the documented pattern accepts is answered 404", witness=extra)
            others = [n for n in walk_own(gr.node) if isinstance(n, ast.Return) and n not in rets]
            ctx.check(all(norm(o.value) == "None" for o in others) and len(others) == 2, "C16.R5", gr, "no match / unknown method -> None", witness=[norm(o) for o in others])
            g = [n for n in walk_own(gr.node) if isinstance(n, ast.If) and norm(n.test) == "%s not in self.route_table" % gr.params[1]]
            # or: the lookup itself is inside try/except KeyError that returns None
            from .common import enclosing_trys
            lk = [n for n in walk_own(gr.node) if isinstance(n, ast.Subscript) and norm(n) == "self.route_table[%s]" % gr.params[1] and isinstance(n.ctx, ast.Load)]
            caught = bool(lk) and all(any(any(h.type is not None and norm(h.type) in ("KeyError", "LookupError") and any(isinstance(x, ast.Return) and norm(x.value) == "None" for x in h.body)
                                              for h in t.handlers) for t in enclosing_trys(n)) for n in lk)
            ctx.check(len(g) == 1 or caught, "C16.R5", gr, "unknown methods are refused before the lookup")
    dp = ctx.fn("http_server:Router.dispatch")
    call = [c for c in calls_named(dp, "getRoute")]
    dcfg = cfg_of(dp)
    from engine.cond import CondCtx
    dcc = CondCtx(ctx.folder, dp.module, dp.cls)
    rv = norm(call[0]._parent.targets[0]) if len(call) == 1 and isinstance(getattr(call[0], "_parent", None), ast.Assign) and len(call[0]._parent.targets) == 1 else None
    nf = [n for n in dcfg.stmts((ast.Assign, ast.Return, ast.Expr)) if any(isinstance(x, ast.Call) and any(isinstance(a, ast.Constant) and a.value == 404 for a in list(x.args) + [k.value for k in x.keywords])
                                                                         for x in ast.walk(n.ast))]
    ok = rv is not None and len(nf) == 1
    if ok:
        falsy = {repr(l) for l in dcc.literal(ast.Name(id=rv, ctx=ast.Load()), False)}
        have = {repr(l) for (t, p) in dcfg.conditions_of(nf[0].id) for l in dcc.literal(t, p)}
        none_ = {repr(l) for l in dcc.literal(ast.parse("%s is None" % rv, mode="eval").body, True)}
        ok = bool(falsy) and (falsy <= have or (bool(none_) and none_ <= have))
    ctx.check(ok, "C16.R5", dp, "a path that matches nothing yields 404", "the 404 answer is built exactly where the looked-up route is absent",
              witness=[norm(n.ast)[:70] for n in nf])
    ctx.check(len(call) == 1 and [norm(a) for a in call[0].args] == ["request.method", "request.path"], "C16.R5", dp, "dispatch looks the route up by request method and path")
    mt = [n for n in walk_own(dp.node) if isinstance(n, ast.Assign) and norm(n.targets[0]) == "request.matches"]
    ctx.check(len(mt) == 1 and norm(mt[0].value) == "matches", "C16.R5", dp, "bound values are reported on the request")


def r6(ctx):
    fi, fr = fragments(ctx)
    P = evaluated(ctx)["P"]
    finals = {"?": ":a?", "*": ":a*", "+": ":a+"}
    for kind, seg in finals.items():
        alone = P("/x/" + seg)
        bad = []
        for k2, seg2 in finals.items():
            r = P("/x/%s/%s" % (seg, seg2.replace("a", "b")))
            if r[0] != "raise" or r[1] != "ValueError":
                bad.append((k2, r[:2]))
        ctx.check(alone[0] == "ok" and not bad, "C16.R6", fi, "%s is final: refused after another final kind, sets final" % kind,
                  "a second multi-segment / optional parameter after one makes the translation ambiguous and is refused with ValueError", witness=bad, line=fi.node.lineno)
    r = P("/:a/:b/x/:c?")
    ctx.check(r[0] == "ok", "C16.R6", fi, "final starts False", "plain parameters and literals may precede a final parameter", witness=r[:2])


def r7(ctx):
    fi, fr = fragments(ctx)
    if "literal" not in fr:
        return
    text, escaped, node = fr["literal"]
    ctx.check(bool(escaped), "C16.R7", fi, "literal segments are passed through re.escape", "an unescaped '.' or '+' in a literal segment would match other paths",
              witness={"constant_prefix": text, "text_for_a.b": evaluated(ctx)["P"]("/a.b")[1:2]}, line=node.lineno)


def r_idioms(ctx):
    from .common import repo_idioms
    repo_idioms(ctx, "C16.R8", ('http_server',))


def r9(ctx):
    """'the first registered matching route' is per router: the table a router matches against holds exactly the routes
    registered with *that* router.  The table and each of its per-method lists must be fresh objects built in __init__
    (a literal / constructor call evaluated per instance), not shared through a class attribute, a module constant, a default
    argument or a shallow copy of one."""
    init = ctx.fn("http_server:Router.__init__")
    stores = [n for n in walk_own(init.node) if isinstance(n, ast.Assign) and any(norm(t) == "self.route_table" for t in n.targets)]
    if not ctx.require("C16.R9", init, "self.route_table = ... in Router.__init__", len(stores), 1):
        return
    v = stores[0].value

    def fresh(e):
        """an expression that builds a new, unshared container every time it is evaluated"""
        if isinstance(e, ast.Dict):
            return all(fresh_or_scalar(x) for x in e.values)
        if isinstance(e, (ast.List, ast.Set)):
            return all(fresh_or_scalar(x) for x in e.elts)
        if isinstance(e, (ast.DictComp,)):
            return fresh_or_scalar(e.value)
        if isinstance(e, (ast.ListComp, ast.SetComp)):
            return fresh_or_scalar(e.elt)
        if isinstance(e, ast.Call) and norm(e.func) in ("dict", "list", "set", "defaultdict", "collections.defaultdict", "OrderedDict", "collections.OrderedDict"):
            if norm(e.func) in ("defaultdict", "collections.defaultdict"):
                return all(isinstance(a, ast.Name) and a.id in ("list", "dict", "set") for a in e.args) and not e.keywords
            return not e.args and all(fresh_or_scalar(k.value) for k in e.keywords)
        if isinstance(e, ast.Call) and norm(e.func) in ("copy.deepcopy", "deepcopy"):
            return True
        return False

    def fresh_or_scalar(e):
        return fresh(e) or (isinstance(e, ast.Constant) and not isinstance(e.value, (bytes,)) ) or isinstance(e, ast.Tuple) and all(fresh_or_scalar(x) for x in e.elts)
    ctx.check(fresh(v), "C16.R9", init, "every router builds its own route table and its own per-method lists",
              "lists shared between routers make every router match the routes of all of them, in global registration order", witness=norm(v)[:120], line=stores[0].lineno)
    # nobody else replaces the table
    from engine.defuse import attr_accesses
    writers = sorted({a.fi.qual for a in attr_accesses(ctx.repo, "route_table") if a.kind in ("store", "aug") and a.fi.module.name == "http_server"})
    ctx.check(writers == [init.qual], "C16.R9", init, "the route table is bound once, in Router.__init__", witness=writers)


EXPLANATION = EXPLANATION + " (R9) every Router builds its own route table and per-method lists in __init__ (fresh literals / constructor calls, no shared class- or module-level object, no shallow copy) and nobody rebinds it."

EXPLANATION = EXPLANATION + ' (R5, as built) every route handed to registerRoutes enters the table or the call raises (the store is controlled by the loop alone or by tests whose other side raises); the evaluation of getRoute treats generator expressions lazily, so which patterns are tried and in which order is observed exactly.'

RULES = [("C16.R1", r1), ("C16.R2", r2), ("C16.R3", r3), ("C16.R4", r4), ("C16.R5", r5), ("C16.R6", r6), ("C16.R7", r7), ("C16.R8", r_idioms), ("C16.R9", r9)]
