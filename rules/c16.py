"""C16 - HTTP router matches paths exactly as the documented pattern grammar says."""
import ast

from engine.index import norm, walk_own, Undecided
from engine.cfg import cfg_of
from engine.embedded import parse_regex, first_chars, count_groups, capture_bodies, can_contain, min_max_len, anchors
from .common import calls_named

EXPLANATION = (
    "Rules on the regular-expression fragments that Router.patternToRegex concatenates (string constants per branch, parsed with "
    "re._parser - nothing is compiled against data or matched). Decides: (R1) every fragment (the four parameter kinds, the literal "
    "prefix, the trailer) can only begin with '/', so a preceding literal cannot match a proper prefix of a path segment; (R2) "
    "single-segment captures exclude '/', plain and + need at least one character, ? and * allow none; (R3) each parameter branch "
    "appends exactly one token and its fragment has exactly one capturing group, literal and trailer fragments have none, getRoute "
    "zips tokens with m.groups(); (R4) the pattern is anchored (^...$), getRoute uses match(), the trailer is one optional '/'; "
    "(R5) routes are appended per method and tried in registration order, first match wins, None for no match / unknown method, "
    "dispatch maps that to 404; (R6) multi-segment kinds are final; (R7) literal text is escaped. Does not decide full language "
    "equivalence with the prose grammar (empty segments under */+ are not specified precisely enough)."
)
ASSUMPTIONS = ["re semantics as documented; re.escape makes every character literal"]

PTR = "http_server:Router.patternToRegex"
UNIVERSE = "/ab.-_0:% ?+*"


def fragments(ctx):
    """kind -> (fragment constant text, has_dynamic_tail, branch body, AugAssign node)"""
    fi = ctx.fn(PTR)
    out = {}
    for n in walk_own(fi.node):
        if isinstance(n, ast.AugAssign) and norm(n.target) == "re_str" and isinstance(n.op, ast.Add):
            v = n.value
            dyn = None
            if isinstance(v, ast.BinOp) and isinstance(v.op, ast.Add):
                prefix = ctx.folder.fold(v.left, fi.module)
                dyn = v.right
            else:
                prefix = ctx.folder.fold(v, fi.module)
            if not isinstance(prefix, str):
                raise Undecided("router fragment does not fold: %s" % norm(v))
            # classify by the enclosing tests
            conds = []
            p = n
            child = n
            while p is not fi.node:
                pp = p._parent
                if isinstance(pp, ast.If):
                    conds.append((norm(pp.test), child in pp.body or any(child is s for s in pp.body)))
                child = pp
                p = pp
            ctext = [c for c in conds]
            kind = None
            for (t, pos) in ctext:
                if t == "c == '?'" and pos:
                    kind = "?"
                elif t == "c == '*'" and pos:
                    kind = "*"
                elif t == "c == '+'" and pos:
                    kind = "+"
            if kind is None:
                if ("part.startswith(':')", True) in ctext:
                    kind = "plain"
                elif ("part.startswith(':')", False) in ctext:
                    kind = "literal"
                elif any(t.startswith("re_str != ") for (t, pos) in ctext):
                    kind = "trailer"
                elif prefix == "$":
                    kind = "end"
                else:
                    kind = "other:" + norm(v)
            if kind in out:
                raise Undecided("two fragments for kind %s" % kind)
            out[kind] = (prefix, dyn, n)
    return fi, out


def r1(ctx):
    fi, fr = fragments(ctx)
    ctx.expect("C16.R1", "router fragment branches", len([k for k in fr if k in ("?", "*", "+", "plain", "literal", "trailer")]), 6)
    for kind in ("?", "*", "+", "plain", "literal", "trailer"):
        if kind not in fr:
            ctx.violated("C16.R1", fi, "missing fragment for %s" % kind)
            continue
        text, dyn, node = fr[kind]
        sub = parse_regex(text)
        first, empty = first_chars(sub, UNIVERSE)
        if kind == "literal":
            # constant prefix followed by the (escaped) literal text: the prefix itself must consume a '/'
            ok = first == {"/"} and not empty
        else:
            ok = first <= {"/"}
        ctx.check(ok, "C16.R1", fi, "fragment %s = %r begins only with '/'" % (kind, text),
                  "a fragment that can begin with another character lets the preceding literal match a proper prefix of a path segment",
                  witness={"FIRST": sorted(first), "can_be_empty": empty}, line=node.lineno)


def r2(ctx):
    fi, fr = fragments(ctx)
    for kind, need_min, multi in (("plain", 1, False), ("?", 0, False), ("+", 1, True), ("*", 0, True)):
        if kind not in fr:
            continue
        text, dyn, node = fr[kind]
        caps = capture_bodies(parse_regex(text))
        if len(caps) != 1:
            continue
        lo, hi = min_max_len(caps[0])
        has_slash = can_contain(caps[0], "/", UNIVERSE)
        ctx.check(lo == need_min, "C16.R2", fi, "capture of %s needs at least %d character(s)" % (kind, need_min), witness={"min": lo}, line=node.lineno)
        ctx.check(has_slash == multi, "C16.R2", fi, "capture of %s %s '/'" % (kind, "may span" if multi else "excludes"),
                  ":name and :name? bind one segment, + and * bind the rest of the path", witness={"can_contain_slash": has_slash}, line=node.lineno)
        # whole fragment optional or mandatory
        flo, fhi = min_max_len(parse_regex(text))
        ctx.check((flo == 0) == (kind in ("?", "*")), "C16.R2", fi, "fragment %s is %s" % (kind, "optional" if kind in ("?", "*") else "mandatory"), witness={"min_len": flo}, line=node.lineno)


def r3(ctx):
    fi, fr = fragments(ctx)
    from .capacity import _block_of
    for kind in ("?", "*", "+", "plain"):
        if kind not in fr:
            continue
        text, dyn, node = fr[kind]
        blk = _block_of(node)
        apps = [s for s in blk if isinstance(s, ast.Expr) and isinstance(s.value, ast.Call) and norm(s.value.func) == "tokens.append"]
        n_groups = count_groups(parse_regex(text))
        ctx.check(len(apps) == 1 and n_groups == 1, "C16.R3", fi, "%s: one token, one capturing group" % kind, "values are paired with names positionally",
                  witness={"tokens.append": len(apps), "groups": n_groups}, line=node.lineno)
        if apps:
            want = "part[1:-1]" if kind != "plain" else "part[1:]"
            ctx.check(norm(apps[0].value.args[0]) == want, "C16.R3", fi, "%s: token name = %s" % (kind, want), witness=norm(apps[0].value.args[0]), line=node.lineno)
    for kind in ("literal", "trailer", "end"):
        if kind in fr:
            ctx.check(count_groups(parse_regex(fr[kind][0])) == 0, "C16.R3", fi, "%s fragment has no capturing group" % kind, line=fr[kind][2].lineno)
    gr = ctx.fn("http_server:Router.getRoute")
    z = [c for c in walk_own(gr.node) if isinstance(c, ast.Call) and norm(c.func) == "zip"]
    ctx.check(len(z) == 1 and [norm(a) for a in z[0].args] == ["tokens", "m.groups()"], "C16.R3", gr, "getRoute pairs tokens with m.groups()", witness=[norm(c) for c in z])
    rets = [n for n in walk_own(fi.node) if isinstance(n, ast.Return)]
    ctx.check(len(rets) == 1 and norm(rets[0].value) == "(re.compile(re_str), tokens)", "C16.R3", fi, "patternToRegex returns (compiled pattern, tokens)", witness=[norm(r.value) for r in rets])


def r4(ctx):
    fi, fr = fragments(ctx)
    init = [n for n in walk_own(fi.node) if isinstance(n, ast.Assign) and norm(n.targets[0]) == "re_str"]
    ctx.check(len(init) == 1 and ctx.folder.fold(init[0].value, fi.module) == "^", "C16.R4", fi, "pattern starts with ^", witness=[norm(i.value) for i in init])
    ok = "end" in fr and fr["end"][0] == "$"
    if ok:
        # the '$' is appended last, unconditionally
        last = [s for s in fi.node.body if isinstance(s, ast.AugAssign)]
        ok = bool(last) and last[-1] is fr["end"][2]
    ctx.check(ok, "C16.R4", fi, "pattern ends with $ (appended last, unconditionally)")
    if "trailer" in fr:
        sub = parse_regex(fr["trailer"][0])
        lo, hi = min_max_len(sub)
        f, e = first_chars(sub, UNIVERSE)
        ctx.check((lo, hi) == (0, 1) and f == {"/"}, "C16.R4", fi, "trailer = one optional '/'", witness={"min": lo, "max": hi, "FIRST": sorted(f)})
    gr = ctx.fn("http_server:Router.getRoute")
    ms = [c for c in walk_own(gr.node) if isinstance(c, ast.Call) and isinstance(c.func, ast.Attribute) and c.func.attr in ("match", "search", "fullmatch", "findall")]
    ctx.check(len(ms) == 1 and ms[0].func.attr in ("match", "fullmatch") and norm(ms[0].args[0]) == gr.params[2], "C16.R4", gr, "getRoute matches the request path from its start", witness=[norm(m) for m in ms])
    # segments: the pattern is split on '/' and empty parts are dropped
    parts = [n for n in walk_own(fi.node) if isinstance(n, ast.Assign) and norm(n.targets[0]) == "parts"]
    ctx.check(len(parts) == 1 and norm(parts[0].value) == "[part for part in pattern.split('/') if part]", "C16.R4", fi, "pattern segments = non-empty parts of pattern.split('/')", witness=[norm(p.value) for p in parts])


def r5(ctx):
    rr = ctx.fn("http_server:Router.registerRoutes")
    aps = [c for c in calls_named(rr, "append") if norm(c.func.value) == "self.route_table[route.method]"]
    ok = len(aps) == 1 and norm(aps[0].args[0]) == "(regex, tokens, route)"
    ctx.check(ok, "C16.R5", rr, "routes are appended to route_table[route.method] in registration order", witness=[norm(c) for c in aps])
    ins = [c for c in walk_own(rr.node) if isinstance(c, ast.Call) and isinstance(c.func, ast.Attribute) and c.func.attr in ("insert", "sort", "reverse") and "route_table" in norm(c.func.value)]
    ctx.check(not ins, "C16.R5", rr, "no reordering of the route table", witness=[norm(c) for c in ins])
    pr = [c for c in calls_named(rr, "patternToRegex")]
    ctx.check(len(pr) == 1 and norm(pr[0].args[0]) == "route.pattern", "C16.R5", rr, "each route is compiled from its own pattern")
    gr = ctx.fn("http_server:Router.getRoute")
    cfg = cfg_of(gr)
    loops = [n for n in walk_own(gr.node) if isinstance(n, ast.For)]
    ok = len(loops) == 1 and norm(loops[0].iter) == "self.route_table[%s]" % gr.params[1]
    ctx.check(ok, "C16.R5", gr, "getRoute iterates the request method's routes in order", witness=[norm(l.iter) for l in loops])
    if ok:
        rets = [n for n in ast.walk(loops[0]) if isinstance(n, ast.Return)]
        conds = [(norm(t), p) for (t, p) in cfg.conditions_of(cfg.node_of(rets[0]).id)] if rets else []
        ok2 = len(rets) == 1 and ("m", True) in conds and isinstance(rets[0].value, ast.Tuple) and norm(rets[0].value.elts[0]) == norm(loops[0].target.elts[2])
        ctx.check(ok2, "C16.R5", gr, "the first matching route is returned at once", witness=conds)
        others = [n for n in walk_own(gr.node) if isinstance(n, ast.Return) and n not in rets]
        ctx.check(all(norm(o.value) == "None" for o in others) and len(others) == 2, "C16.R5", gr, "no match / unknown method -> None", witness=[norm(o) for o in others])
        g = [n for n in walk_own(gr.node) if isinstance(n, ast.If) and norm(n.test) == "%s not in self.route_table" % gr.params[1]]
        ctx.check(len(g) == 1, "C16.R5", gr, "unknown methods are refused before the lookup")
    dp = ctx.fn("http_server:Router.dispatch")
    g = [n for n in walk_own(dp.node) if isinstance(n, ast.If) and norm(n.test) == "not result"]
    ok = len(g) == 1 and any("404" in norm(s) for s in g[0].body)
    ctx.check(ok, "C16.R5", dp, "a path that matches nothing yields 404", witness=[norm(s)[:70] for x in g for s in x.body])
    call = [c for c in calls_named(dp, "getRoute")]
    ctx.check(len(call) == 1 and [norm(a) for a in call[0].args] == ["request.method", "request.path"], "C16.R5", dp, "dispatch looks the route up by request method and path")
    mt = [n for n in walk_own(dp.node) if isinstance(n, ast.Assign) and norm(n.targets[0]) == "request.matches"]
    ctx.check(len(mt) == 1 and norm(mt[0].value) == "matches", "C16.R5", dp, "bound values are reported on the request")


def r6(ctx):
    fi, fr = fragments(ctx)
    from .capacity import _block_of
    for kind in ("?", "*", "+"):
        if kind not in fr:
            continue
        blk = _block_of(fr[kind][2])
        sets = [s for s in blk if isinstance(s, ast.Assign) and norm(s.targets[0]) == "final" and norm(s.value) == "True"]
        guard = [s for s in blk if isinstance(s, ast.If) and norm(s.test) == "final" and any(isinstance(x, ast.Raise) for x in s.body)]
        ok = len(sets) == 1 and len(guard) == 1 and blk.index(guard[0]) < blk.index(fr[kind][2])
        ctx.check(ok, "C16.R6", fi, "%s is final: refused after another final kind, sets final" % kind, line=fr[kind][2].lineno)
    init = [n for n in walk_own(fi.node) if isinstance(n, ast.Assign) and norm(n.targets[0]) == "final" and norm(n.value) == "False"]
    ctx.check(len(init) == 1, "C16.R6", fi, "final starts False")


def r7(ctx):
    fi, fr = fragments(ctx)
    if "literal" not in fr:
        return
    text, dyn, node = fr["literal"]
    ok = isinstance(dyn, ast.Call) and norm(dyn.func) == "re.escape" and len(dyn.args) == 1 and norm(dyn.args[0]) == "part"
    ctx.check(ok, "C16.R7", fi, "literal segments are passed through re.escape", "an unescaped '.' or '+' in a literal segment would match other paths",
              witness=norm(dyn) if dyn is not None else None, line=node.lineno)


def r_idioms(ctx):
    from .common import repo_idioms
    repo_idioms(ctx, "C16.R8", ('http_server',))


def r9(ctx):
    """'the first registered matching route' is per router: the table a router matches against holds exactly the routes
    registered with *that* router.  The table and each of its per-method lists must be fresh objects built in __init__
    (a literal / constructor call evaluated per instance), not shared through a class attribute, a module constant, a default
    argument or a shallow copy of one."""
    init = ctx.fn("http_server:Router.__init__")
    stores = [n for n in walk_own(init.node) if isinstance(n, ast.Assign) and any(norm(t) == "self.route_table" for t in n.targets)]
    if not ctx.require("C16.R9", init, "self.route_table = ... in Router.__init__", len(stores), 1):
        return
    v = stores[0].value

    def fresh(e):
        """an expression that builds a new, unshared container every time it is evaluated"""
        if isinstance(e, ast.Dict):
            return all(fresh_or_scalar(x) for x in e.values)
        if isinstance(e, (ast.List, ast.Set)):
            return all(fresh_or_scalar(x) for x in e.elts)
        if isinstance(e, (ast.DictComp,)):
            return fresh_or_scalar(e.value)
        if isinstance(e, (ast.ListComp, ast.SetComp)):
            return fresh_or_scalar(e.elt)
        if isinstance(e, ast.Call) and norm(e.func) in ("dict", "list", "set", "defaultdict", "collections.defaultdict", "OrderedDict", "collections.OrderedDict"):
            if norm(e.func) in ("defaultdict", "collections.defaultdict"):
                return all(isinstance(a, ast.Name) and a.id in ("list", "dict", "set") for a in e.args) and not e.keywords
            return not e.args and all(fresh_or_scalar(k.value) for k in e.keywords)
        if isinstance(e, ast.Call) and norm(e.func) in ("copy.deepcopy", "deepcopy"):
            return True
        return False

    def fresh_or_scalar(e):
        return fresh(e) or (isinstance(e, ast.Constant) and not isinstance(e.value, (bytes,)) ) or isinstance(e, ast.Tuple) and all(fresh_or_scalar(x) for x in e.elts)
    ctx.check(fresh(v), "C16.R9", init, "every router builds its own route table and its own per-method lists",
              "lists shared between routers make every router match the routes of all of them, in global registration order", witness=norm(v)[:120], line=stores[0].lineno)
    # nobody else replaces the table
    from engine.defuse import attr_accesses
    writers = sorted({a.fi.qual for a in attr_accesses(ctx.repo, "route_table") if a.kind in ("store", "aug") and a.fi.module.name == "http_server"})
    ctx.check(writers == [init.qual], "C16.R9", init, "the route table is bound once, in Router.__init__", witness=writers)


EXPLANATION = EXPLANATION + " (R9) every Router builds its own route table and per-method lists in __init__ (fresh literals / constructor calls, no shared class- or module-level object, no shallow copy) and nobody rebinds it."

RULES = [("C16.R1", r1), ("C16.R2", r2), ("C16.R3", r3), ("C16.R4", r4), ("C16.R5", r5), ("C16.R6", r6), ("C16.R7", r7), ("C16.R8", r_idioms), ("C16.R9", r9)]
