"""C17 - path_join_safe never returns a path outside the root."""
import ast

from engine.index import norm, walk_own
from engine.cfg import cfg_of
from engine.defuse import defuse_of
from .common import calls_named

EXPLANATION = (
    "Static rule on http_server.path_join_safe. Decides: (R1) every normal return is dominated by a containment guard between the "
    "normalised result and the normalised root that raises on failure - recognised forms: `R != root and not R.startswith(root + "
    "sep)` (the separator is required: without it a sibling directory sharing the prefix passes), os.path.commonpath([root, R]) "
    "!= root, os.path.relpath(R, root) starting with '..' - or, alternatively, by both a dot-component guard and an absolute-name "
    "guard that dominate the join; the guarded value is the returned value (no re-binding in between) and both operands are "
    "normalised with os.path.abspath/normpath/realpath; (R2) the guards raise ValueError; (R3) backslashes are replaced before the "
    "component test. Library fact used (trusted): os.path.join(a, b) discards a when b is absolute. Does not decide symbolic links "
    "(abspath, not realpath) nor Windows drive semantics on this POSIX platform."
)
ASSUMPTIONS = ["os.path.join(a, b) discards a when b is absolute; os.path.abspath collapses '.', '..' and duplicate separators"]

PJS = "http_server:path_join_safe"
NORMALISERS = ("os.path.abspath", "os.path.normpath", "os.path.realpath")


def _normalised(fi, var, at_node, du):
    """is every reaching definition of var at node a call of a normaliser?"""
    defs = du.reaching(var, at_node)
    if not defs:
        return False
    for (nid, v, how) in defs:
        if nid == "ENTRY" or not isinstance(v, ast.Call) or norm(v.func) not in NORMALISERS:
            return False
    return True


def _sep_suffix(expr):
    """does the expression end with a path separator?  root + '/'   root.rstrip('/') + os.sep   os.path.join(root, '')"""
    if isinstance(expr, ast.BinOp) and isinstance(expr.op, ast.Add):
        r = expr.right
        if isinstance(r, ast.Constant) and r.value in ("/", "\\"):
            return expr.left
        if norm(r) in ("os.sep", "os.path.sep"):
            return expr.left
    if isinstance(expr, ast.Call) and norm(expr.func) == "os.path.join" and len(expr.args) == 2 and isinstance(expr.args[1], ast.Constant) and expr.args[1].value == "":
        return expr.args[0]
    return None


def _base_name(expr):
    """root   root.rstrip('/')  -> 'root'"""
    if isinstance(expr, ast.Name):
        return expr.id
    if isinstance(expr, ast.Call) and isinstance(expr.func, ast.Attribute) and expr.func.attr == "rstrip" and isinstance(expr.func.value, ast.Name):
        return expr.func.value.id
    return None


def containment_guards(fi):
    """[(if_node, result_var, root_var, form)] for guards of a recognised containment form whose body raises"""
    out = []
    for n in walk_own(fi.node):
        if not (isinstance(n, ast.If) and any(isinstance(s, ast.Raise) for s in n.body)):
            continue
        t = n.test
        # form 1:  R != root and not R.startswith(root + sep)
        conj = t.values if isinstance(t, ast.BoolOp) and isinstance(t.op, ast.And) else [t]
        sw = None
        ne = None
        for c in conj:
            if isinstance(c, ast.UnaryOp) and isinstance(c.op, ast.Not) and isinstance(c.operand, ast.Call) and isinstance(c.operand.func, ast.Attribute) \
                    and c.operand.func.attr == "startswith" and isinstance(c.operand.func.value, ast.Name) and len(c.operand.args) == 1:
                base = _sep_suffix(c.operand.args[0])
                if base is not None and _base_name(base):
                    sw = (c.operand.func.value.id, _base_name(base))
                elif _base_name(c.operand.args[0]):
                    sw = (c.operand.func.value.id, _base_name(c.operand.args[0]), "nosep")
            if isinstance(c, ast.Compare) and len(c.ops) == 1 and isinstance(c.ops[0], ast.NotEq) and isinstance(c.left, ast.Name) and isinstance(c.comparators[0], ast.Name):
                ne = {c.left.id, c.comparators[0].id}
        if sw is not None:
            if len(sw) == 3:
                out.append((n, sw[0], sw[1], "startswith-without-separator"))
            elif len(conj) == 1 or (ne == {sw[0], sw[1]} and len(conj) == 2):
                out.append((n, sw[0], sw[1], "startswith" if len(conj) == 2 else "startswith-strict"))
            continue
        # form 2: os.path.commonpath([root, R]) != root
        if isinstance(t, ast.Compare) and len(t.ops) == 1 and isinstance(t.ops[0], ast.NotEq) and isinstance(t.left, ast.Call) and norm(t.left.func) == "os.path.commonpath" \
                and isinstance(t.left.args[0], (ast.List, ast.Tuple)) and len(t.left.args[0].elts) == 2 and isinstance(t.comparators[0], ast.Name):
            names = [norm(e) for e in t.left.args[0].elts]
            root = t.comparators[0].id
            if root in names:
                other = [x for x in names if x != root]
                if other:
                    out.append((n, other[0], root, "commonpath"))
            continue
        # form 3: os.path.relpath(R, root).startswith('..')   (coarse but safe)
        if isinstance(t, ast.Call) and isinstance(t.func, ast.Attribute) and t.func.attr == "startswith" and isinstance(t.func.value, ast.Call) \
                and norm(t.func.value.func) == "os.path.relpath" and len(t.func.value.args) == 2 and isinstance(t.args[0], ast.Constant) and t.args[0].value == "..":
            out.append((n, norm(t.func.value.args[0]), norm(t.func.value.args[1]), "relpath"))
    return out


def r1(ctx):
    fi = ctx.fn(PJS)
    cfg = cfg_of(fi)
    du = defuse_of(fi)
    rets = [n for n in cfg.stmts((ast.Return,)) if n.ast.value is not None]
    if not ctx.require("C17.R1", fi, "return statement", len(rets), 1):
        return
    guards = containment_guards(fi)
    root_param, name_param = fi.params[0], fi.params[1]
    for r in rets:
        rv = r.ast.value
        if not isinstance(rv, ast.Name):
            ctx.violated("C17.R1", fi, r.ast, "the returned value is not a guarded variable", line=r.lineno)
            continue
        ok = False
        why = {"guards_found": [(g[3], g[1], g[2]) for g in guards]}
        for (g, R, root, form) in guards:
            if form == "startswith-without-separator":
                why["rejected"] = "startswith(root) without a trailing separator accepts sibling directories such as <root>x/"
                continue
            if R != rv.id:
                continue
            tnode = cfg.node_of(g.test.values[0] if isinstance(g.test, ast.BoolOp) else g.test)
            # the return is reached only through the non-raising outcome of the guard
            gnodes = [n for n in cfg.nodes if n.kind == "test" and n.stmt is g]
            raise_nodes = [cfg.node_of(s).id for s in g.body if isinstance(s, ast.Raise)]
            dominated = all(cfg.dominates(n.id, r.id) for n in gnodes[:1]) and r.id not in cfg.reachable(raise_nodes[0], skip_labels=()) if raise_nodes else False
            # same definition of R at the guard and at the return; R and root normalised; root derives from the root parameter
            same = {d[0] for d in du.reaching(R, gnodes[0].id)} == {d[0] for d in du.reaching(R, r.id)} if gnodes else False
            # (a raw, un-normalised root can only over-reject: a textual prefix of a normalised path is itself normalised)
            normed = gnodes and _normalised(fi, R, gnodes[0].id, du)
            # provenance: root <- normaliser(root_param chain), R <- normaliser(join(root, name))
            why.update({"dominates": bool(dominated), "same_binding": bool(same), "result_normalised": bool(normed)})
            if dominated and same and normed:
                ok = True
                ctx.holds("C17.R1", fi, "containment guard (%s) between normalised %s and normalised %s dominates the return" % (form, R, root))
                # the joined value really is join(root, filename)
                rdefs = du.reaching(R, gnodes[0].id)
                inner = rdefs[0][1].args[0] if rdefs and isinstance(rdefs[0][1], ast.Call) and rdefs[0][1].args else None
                src = inner
                if isinstance(inner, ast.Name):
                    d2 = du.reaching(inner.id, rdefs[0][0])
                    src = d2[0][1] if len(d2) == 1 else None
                okj = isinstance(src, ast.Call) and norm(src.func) == "os.path.join" and len(src.args) == 2 and norm(src.args[1]) == name_param
                ctx.check(okj, "C17.R1", fi, "the guarded value is abspath(join(root, filename))", witness=norm(src) if isinstance(src, ast.AST) else None)
                break
        if not ok:
            # alternative (b): dot-component guard and absolute-name guard both dominate the join
            joins = calls_named(fi, "join")
            dot = [n for n in walk_own(fi.node) if isinstance(n, ast.If) and "'..' in" in norm(n.test) and any(isinstance(s, ast.Raise) for s in n.body)]
            absg = [n for n in walk_own(fi.node) if isinstance(n, ast.If) and any(isinstance(s, ast.Raise) for s in n.body) and
                    ("os.path.isabs(%s)" % name_param in norm(n.test) or "%s.startswith('/')" % name_param in norm(n.test))]
            strip = [n for n in walk_own(fi.node) if isinstance(n, ast.Assign) and norm(n.targets[0]) == name_param and ".lstrip('/')" in norm(n.value)]
            if joins and dot and (absg or strip) and all(x.lineno < joins[0].lineno for x in dot + absg + strip):
                ok = True
                ctx.holds("C17.R1", fi, "dot-component guard and absolute-name guard dominate the join")
        if not ok:
            ctx.violated("C17.R1", fi, r.ast, "no containment guard dominates the return: an absolute file name replaces the root in os.path.join",
                         witness=dict(why, path="absolute filename -> os.path.join discards root -> abspath -> return"), line=r.lineno)


def r2(ctx):
    fi = ctx.fn(PJS)
    n = 0
    for g in walk_own(fi.node):
        if isinstance(g, ast.If):
            for s in g.body:
                if isinstance(s, ast.Raise):
                    n += 1
                    ok = isinstance(s.exc, ast.Call) and norm(s.exc.func) == "ValueError"
                    ctx.check(ok, "C17.R2", fi, s, "refusals raise ValueError", line=s.lineno)
    ctx.expect("C17.R2", "raise statements in path_join_safe", n, 1)
    hs = [h for h in ast.walk(fi.node) if isinstance(h, ast.ExceptHandler)]
    ctx.check(not hs, "C17.R2", fi, "no exception is swallowed in path_join_safe", witness=[norm(h)[:50] for h in hs])


def r3(ctx):
    fi = ctx.fn(PJS)
    name_param = fi.params[1]
    rep = [n for n in walk_own(fi.node) if isinstance(n, ast.Assign) and norm(n.targets[0]) == name_param and norm(n.value) in
           ("%s.replace('\\\\', '/')" % name_param,)]
    dot = [n for n in walk_own(fi.node) if isinstance(n, ast.If) and "'..' in" in norm(n.test) and any(isinstance(s, ast.Raise) for s in n.body)]
    joins = calls_named(fi, "join")
    ok = len(rep) == 1 and (not dot or rep[0].lineno < dot[0].lineno) and bool(joins) and rep[0].lineno < joins[0].lineno
    ctx.check(ok, "C17.R3", fi, "backslashes are replaced by '/' before the component test and the join", witness=[norm(r) for r in rep])
    if dot:
        parts = [n for n in walk_own(fi.node) if isinstance(n, ast.Assign) and norm(n.targets[0]) == "parts"]
        ok = len(parts) == 1 and norm(parts[0].value) in ("set(%s.split('/'))" % name_param, "%s.split('/')" % name_param)
        ctx.check(ok, "C17.R3", fi, "the component test looks at every '/'-separated component of the file name", witness=[norm(p.value) for p in parts])
        t = norm(dot[0].test)
        ctx.check("'..' in parts" in t, "C17.R3", fi, "'..' components are refused", witness=t)


def r_idioms(ctx):
    from .common import repo_idioms
    repo_idioms(ctx, "C17.R4", ('http_server',))


RULES = [("C17.R1", r1), ("C17.R2", r2), ("C17.R3", r3), ("C17.R4", r_idioms)]
