"""C17 - path_join_safe never returns a path outside the root."""
import ast

from engine.index import norm, walk_own
from engine.cfg import cfg_of
from engine.defuse import defuse_of
from .common import calls_named, before

EXPLANATION = (
    "Static rule on http_server.path_join_safe. Decides: (R1) containment - first by partial evaluation of the whole function "
    "(engine/minieval.py; os.path.abspath / join / normpath replaced by their POSIX string definitions from posixpath, nothing of the "
    "package is run) on 3 roots x 30 file names without dot components (absolute names, sibling directories sharing the prefix, other "
    "letter case, doubled slashes): the function returns exactly normpath(join(root, name)) when that is the root or lies beneath root "
    "+ separator and raises ValueError when it does not; when the function is outside the evaluator's fragment, by the shape rule: "
    "every normal return is dominated by a containment guard between the "
    "normalised result and the normalised root that raises on failure - recognised forms: `R != root and not R.startswith(root + "
    "sep)` (the separator is required: without it a sibling directory sharing the prefix passes), os.path.commonpath([root, R]) "
    "!= root, os.path.relpath(R, root) starting with '..' - or, alternatively, by both a dot-component guard and an absolute-name "
    "guard that dominate the join; the guarded value is the returned value (no re-binding in between) and both operands are "
    "normalised with os.path.abspath/normpath/realpath; (R2) the guards raise ValueError; (R3) backslashes are replaced before the "
    "component test. Library fact used (trusted): os.path.join(a, b) discards a when b is absolute. Does not decide symbolic links "
    "(abspath, not realpath) nor Windows drive semantics on this POSIX platform."
)
ASSUMPTIONS = ["os.path.join(a, b) discards a when b is absolute; os.path.abspath collapses '.', '..' and duplicate separators"]

PJS = "http_server:path_join_safe"
NORMALISERS = ("os.path.abspath", "os.path.normpath", "os.path.realpath")


def _normalised(fi, var, at_node, du):
    """is every reaching definition of var at node a call of a normaliser?"""
    defs = du.reaching(var, at_node)
    if not defs:
        return False
    for (nid, v, how) in defs:
        if nid == "ENTRY" or not isinstance(v, ast.Call) or norm(v.func) not in NORMALISERS:
            return False
    return True


def _sep_suffix(expr):
    """does the expression end with a path separator?  root + '/'   root.rstrip('/') + os.sep   os.path.join(root, '')"""
    if isinstance(expr, ast.BinOp) and isinstance(expr.op, ast.Add):
        r = expr.right
        if isinstance(r, ast.Constant) and r.value in ("/", "\\"):
            return expr.left
        if norm(r) in ("os.sep", "os.path.sep"):
            return expr.left
    if isinstance(expr, ast.Call) and norm(expr.func) == "os.path.join" and len(expr.args) == 2 and isinstance(expr.args[1], ast.Constant) and expr.args[1].value == "":
        return expr.args[0]
    return None


def _base_name(expr):
    """root   root.rstrip('/')  -> 'root'"""
    if isinstance(expr, ast.Name):
        return expr.id
    if isinstance(expr, ast.Call) and isinstance(expr.func, ast.Attribute) and expr.func.attr == "rstrip" and isinstance(expr.func.value, ast.Name):
        return expr.func.value.id
    return None


def _leaf_fact(t):
    """classify one leaf test: (kind, result var, root var, label of the out-edge on which containment is established)"""
    neg = False
    while isinstance(t, ast.UnaryOp) and isinstance(t.op, ast.Not):
        t = t.operand
        neg = not neg

    def lab(true_establishes):
        return "T" if true_establishes != neg else "F"
    # R == root / R != root
    if isinstance(t, ast.Compare) and len(t.ops) == 1 and isinstance(t.ops[0], (ast.Eq, ast.NotEq)) and isinstance(t.left, ast.Name) and isinstance(t.comparators[0], ast.Name):
        return ("equal", (t.left.id, t.comparators[0].id), None, lab(isinstance(t.ops[0], ast.Eq)))
    # R.startswith(root + sep)
    if isinstance(t, ast.Call) and isinstance(t.func, ast.Attribute) and t.func.attr == "startswith" and isinstance(t.func.value, ast.Name) and len(t.args) == 1:
        base = _sep_suffix(t.args[0])
        if base is not None and _base_name(base):
            return ("under", t.func.value.id, _base_name(base), lab(True))
        if _base_name(t.args[0]):
            return ("under-without-separator", t.func.value.id, _base_name(t.args[0]), None)
    # os.path.commonpath([root, R]) == root
    if isinstance(t, ast.Compare) and len(t.ops) == 1 and isinstance(t.ops[0], (ast.Eq, ast.NotEq)):
        for call, other in ((t.left, t.comparators[0]), (t.comparators[0], t.left)):
            if isinstance(call, ast.Call) and norm(call.func) == "os.path.commonpath" and call.args and isinstance(call.args[0], (ast.List, ast.Tuple)) \
                    and len(call.args[0].elts) == 2 and isinstance(other, ast.Name):
                names = [norm(e) for e in call.args[0].elts]
                if other.id in names:
                    rest = [x for x in names if x != other.id]
                    if rest:
                        return ("commonpath", rest[0], other.id, lab(isinstance(t.ops[0], ast.Eq)))
    # os.path.relpath(R, root).startswith('..')   (coarse but safe: over-rejects names that begin with two dots)
    if isinstance(t, ast.Call) and isinstance(t.func, ast.Attribute) and t.func.attr == "startswith" and isinstance(t.func.value, ast.Call) \
            and norm(t.func.value.func) == "os.path.relpath" and len(t.func.value.args) == 2 and isinstance(t.args[0], ast.Constant) and t.args[0].value == "..":
        return ("relpath", norm(t.func.value.args[0]), norm(t.func.value.args[1]), lab(False))
    return None


def _resolved(fi, e, at):
    from .common import resolve_arg
    return resolve_arg(fi, e, at) if isinstance(e, ast.Name) else e


ROOTS = ["/srv/www", "/srv/www/", "/", "", ".", "rel/dir", "rel/dir/", "/srv/www//"]
ABS_NAMES = ["/etc/passwd", "/srv/wwwx/a", "/srv/www", "/srv/www/", "/srv/www/a", "/srv/wwwx", "/srv/ww", "/", "", "a//b", "/SRV/WWW/a", "\\etc\\passwd", "/srv/www/a/b.txt",
             "/srv", "/srv/www.bak/x", "//etc/passwd"]


def _containment_by_evaluation(ctx, fi):
    """path_join_safe as a whole, decided by partial evaluation (engine/minieval.py) with the os.path functions it uses replaced by
    their POSIX string definitions (posixpath.join / normpath - pure string functions of the standard library, nothing of the
    package is run): on every root x file name of a family that has no dot components, the function returns exactly
    normpath(join(root, name)) when that lies in the root (is the root, or begins with root + separator) and raises ValueError
    when it does not - absolute names, sibling directories that share the prefix, other letter case.  None when the function is
    outside the evaluator's fragment."""
    import posixpath
    from engine.minieval import MiniEval
    from engine.index import Undecided
    ab = lambda p_: posixpath.normpath(p_ if p_.startswith("/") else "/cwd/" + p_)
    stubs = {"os.path.abspath": ab, "os.path.normpath": posixpath.normpath, "os.path.realpath": ab, "os.path.join": posixpath.join, "os.path.isabs": posixpath.isabs,
             "os.path.commonpath": posixpath.commonpath, "os.path.commonprefix": posixpath.commonprefix, "os.path.dirname": posixpath.dirname, "os.path.basename": posixpath.basename}
    out = {"cases": 0, "escaped": [], "refused_inside": [], "other": []}
    try:
        for root in ROOTS:
            R = ab(root)
            for name in GOOD_NAMES + ABS_NAMES:
                out["cases"] += 1
                want = posixpath.normpath(posixpath.join(R, name.replace("\\", "/")))
                inside = want == R or want.startswith(R.rstrip("/") + "/")
                r = MiniEval(ctx.repo, ctx.folder, fi, stubs=stubs).call([root, name])
                rec = {"root": root, "name": name, "joined": want, "outcome": repr(r)}
                if r[0] == "return":
                    if not inside:
                        out["escaped"].append(rec)
                    elif r[1] != want:
                        out["other"].append(rec)
                elif r[0] == "raise" and r[1] == "ValueError":
                    if inside:
                        out["refused_inside"].append(rec)
                else:
                    out["other"].append(rec)
    except Undecided:
        return None
    return out


def r1(ctx):
    fi = ctx.fn(PJS)
    # the answer is a function of the two arguments and of the current directory at the time of the call: nothing that
    # path_join_safe reaches in the package is memoised or otherwise wrapped (a cached `abspath(root)` keeps answering for the
    # directory the process was in at the first call - a relative root then names a directory outside of today's root)
    cg = ctx.callgraph()
    seen, stack, wrapped = {fi.qual}, [fi.qual], []
    while stack:
        q_ = stack.pop()
        for e_ in cg.out.get(q_, []):
            if e_.approx or e_.callee.qual in seen:
                continue
            seen.add(e_.callee.qual)
            stack.append(e_.callee.qual)
            extra = [d_ for d_ in e_.callee.decorators if d_ not in ("staticmethod", "classmethod")]
            if extra:
                wrapped.append({"function": e_.callee.qual, "decorators": extra})
    extra0 = [d_ for d_ in fi.decorators if d_ not in ("staticmethod", "classmethod")]
    if extra0:
        wrapped.append({"function": fi.qual, "decorators": extra0})
    ctx.check(not wrapped, "C17.R1", fi, "path_join_safe and what it calls in the package are plain functions (no cache, no wrapper)",
              "the containment argument is about the values computed in this call", witness=wrapped)
    ev = _containment_by_evaluation(ctx, fi)
    if ev is None:
        return _r1_shape(ctx)
    why = "path_join_safe evaluated (engine/minieval, os.path functions as their POSIX string definitions) on %d root x file name pairs" % ev["cases"]
    ctx.check(not ev["escaped"], "C17.R1", fi, "every returned path is the root or lies beneath root + separator", why + ": an absolute file name replaces the root in os.path.join, "
              "a sibling directory shares the root's prefix", witness=ev["escaped"][:3])
    ctx.check(not ev["other"], "C17.R1", fi, "the returned value is abspath(join(root, filename)); refusals are ValueError", why, witness=ev["other"][:3])
    ctx.check(not ev["refused_inside"], "C17.R1", fi, "names that stay inside the root are served", why, witness=ev["refused_inside"][:3])


def _r1_shape(ctx):
    """edge cut: with every out-edge removed on which a leaf test establishes `R is root or lies beneath root + separator`,
    the return of R must be unreachable - whatever boolean structure (and / or / not, nested ifs, early raise) combines the tests"""
    fi = ctx.fn(PJS)
    cfg = cfg_of(fi)
    du = defuse_of(fi)
    rets = [n for n in cfg.stmts((ast.Return,)) if n.ast.value is not None]
    if not ctx.require("C17.R1", fi, "return statement", len(rets), 1):
        return
    root_param, name_param = fi.params[0], fi.params[1]
    leaves = []
    for n in cfg.nodes:
        if n.kind == "test" and n.ast is not None:
            # (a prefix held in a local - root_prefix = root.rstrip('/') + '/' - is read through its definition)
            from .common import sym_expr as _sxl
            f = _leaf_fact(_sxl(fi, n.ast, n, allow_calls=lambda t_: t_.endswith(".rstrip")))
            if f is not None:
                leaves.append((n, f))
    for r in rets:
        rv = r.ast.value
        if not isinstance(rv, ast.Name):
            ctx.violated("C17.R1", fi, r.ast, "the returned value is not a guarded variable", line=r.lineno)
            continue
        R = rv.id
        why = {"tests_found": [(f[0], norm(n.ast)) for n, f in leaves]}
        ok = False
        roots = set()
        for n, f in leaves:
            if f[0] == "equal" and R in f[1]:
                roots |= set(f[1]) - {R}
            elif f[0] != "equal" and f[1] == R:
                roots.add(f[2])
        for root in sorted(roots):
            cut = {}
            for n, f in leaves:
                if f[3] is None:
                    continue
                if (f[0] == "equal" and set(f[1]) == {R, root}) or (f[0] != "equal" and f[1] == R and f[2] == root):
                    cut[n.id] = f[3]
            if not cut:
                continue
            reach = cfg.reachable(cfg.entry, edge_ok=lambda a, b_, label: not (a.id in cut and label == cut[a.id]))
            separated = r.id not in reach
            # same definition of R at every establishing test and at the return; R normalised
            at_ret = {d[0] for d in du.reaching(R, r.id)}
            same = all({d[0] for d in du.reaching(R, nid)} == at_ret for nid in cut)
            same_root = all({d[0] for d in du.reaching(root, nid)} == {d[0] for d in du.reaching(root, r.id)} for nid in cut)
            first = sorted(cut)[0]
            normed = _normalised(fi, R, first, du)
            why.update({"root": root, "cut": {norm(cfg.nodes[k].ast): v for k, v in cut.items()}, "separates_return": bool(separated), "same_binding": bool(same and same_root),
                        "result_normalised": bool(normed)})
            if separated and same and same_root and normed:
                ok = True
                ctx.holds("C17.R1", fi, "every path to the return passes a test that establishes: normalised %s is %s or lies beneath %s + separator" % (R, root, root),
                          "edge cut over %d leaf test(s)" % len(cut))
                # the joined value really is join(root, filename)
                rdefs = du.reaching(R, first)
                inner = rdefs[0][1].args[0] if rdefs and isinstance(rdefs[0][1], ast.Call) and rdefs[0][1].args else None
                src = inner
                if isinstance(inner, ast.Name):
                    d2 = du.reaching(inner.id, rdefs[0][0])
                    src = d2[0][1] if len(d2) == 1 else None
                okj = isinstance(src, ast.Call) and norm(src.func) == "os.path.join" and len(src.args) == 2
                if okj:
                    # the joined name is the file name parameter, as rebound or as a normalised copy in another local
                    from .common import sym_text as _sxj
                    jn = cfg.node_of(src) or cfg.nodes[first]
                    okj = _sxj(fi, src.args[1], jn, allow_calls=lambda t_: t_.endswith(".replace")) in (name_param, "%s.replace('\\\\', '/')" % name_param)
                ctx.check(okj, "C17.R1", fi, "the guarded value is abspath(join(root, filename))", witness=norm(src) if isinstance(src, ast.AST) else None)
                break
        if not ok and any(f[0] == "under-without-separator" and f[1] == R for n, f in leaves):
            why["rejected"] = "startswith(root) without a trailing separator accepts sibling directories such as <root>x/"
        if not ok:
            # alternative (b): dot-component guard and absolute-name guard both dominate the join
            joins = calls_named(fi, "join")
            dot = [n for n in walk_own(fi.node) if isinstance(n, ast.If) and "'..' in" in norm(n.test) and any(isinstance(s, ast.Raise) for s in n.body)]
            absg = [n for n in walk_own(fi.node) if isinstance(n, ast.If) and any(isinstance(s, ast.Raise) for s in n.body) and
                    ("os.path.isabs(%s)" % name_param in norm(n.test) or "%s.startswith('/')" % name_param in norm(n.test))]
            strip = [n for n in walk_own(fi.node) if isinstance(n, ast.Assign) and norm(n.targets[0]) == name_param and ".lstrip('/')" in norm(n.value)]
            if joins and dot and (absg or strip) and all(before(fi, x, joins[0]) for x in dot + absg + strip):
                ok = True
                ctx.holds("C17.R1", fi, "dot-component guard and absolute-name guard dominate the join")
        if not ok:
            ctx.violated("C17.R1", fi, r.ast, "no containment guard dominates the return: an absolute file name replaces the root in os.path.join",
                         witness=dict(why, path="absolute filename -> os.path.join discards root -> abspath -> return"), line=r.lineno)


def r2(ctx):
    fi = ctx.fn(PJS)
    n = 0
    for g in walk_own(fi.node):
        if isinstance(g, ast.If):
            for s in g.body:
                if isinstance(s, ast.Raise):
                    n += 1
                    ok = isinstance(s.exc, ast.Call) and norm(s.exc.func) == "ValueError"
                    ctx.check(ok, "C17.R2", fi, s, "refusals raise ValueError", line=s.lineno)
    ctx.expect("C17.R2", "raise statements in path_join_safe", n, 1)
    hs = [h for h in ast.walk(fi.node) if isinstance(h, ast.ExceptHandler)]
    ctx.check(not hs, "C17.R2", fi, "no exception is swallowed in path_join_safe", witness=[norm(h)[:50] for h in hs])


BAD_NAMES = ["..", ".", "../x", "a/../b", "a/..", "./a", "a/./b", "a/.", "..\\x", "a\\..\\b", ".\\a", "a\\.", "a/..\\b", "../../etc/passwd", "a/b/../../..", "a\\.\\b"]
GOOD_NAMES = ["a", "a/b", "a..b", "..a", "a..", ".a", "a.", "a/.b/c", "...", "a/.../b", "a\\b", "a\\b/c", "index.html", "a.b/c.d"]


def _component_test_by_evaluation(ctx, fi):
    """the part of path_join_safe in front of os.path.join, decided by partial evaluation (engine/minieval.py; os.path.abspath stands
    for the identity on an absolute root) on a family of file names: every name with a `.` or `..` component - with either kind of
    slash - raises ValueError before the join, every other name reaches the join with its backslashes replaced.
    None when the function is outside the evaluator's fragment."""
    from engine.minieval import MiniEval, Stopped
    from engine.index import Undecided
    out = {"accepted_bad": [], "refused_good": [], "not_normalised": [], "cases": 0}
    ident = lambda p_: p_
    try:
        for name, bad in [(n_, True) for n_ in BAD_NAMES] + [(n_, False) for n_ in GOOD_NAMES]:
            out["cases"] += 1
            ev = MiniEval(ctx.repo, ctx.folder, fi, stubs={"os.path.abspath": ident, "os.path.normpath": ident, "os.path.realpath": ident}, stop_at=("os.path.join",))
            try:
                r = ev.call(["/srv/www", name])
                reached = None
            except Stopped as s_:
                r = None
                reached = s_.args_
            if bad:
                if not (r is not None and r[0] == "raise" and r[1] == "ValueError"):
                    out["accepted_bad"].append({"name": name, "outcome": "reaches os.path.join%r" % (reached,) if reached is not None else repr(r)})
            else:
                if reached is None:
                    out["refused_good"].append({"name": name, "outcome": repr(r)})
                elif len(reached) != 2 or reached[1] != name.replace("\\", "/"):
                    out["not_normalised"].append({"name": name, "joined": list(reached)})
    except Undecided:
        return None
    return out


def r3(ctx):
    fi = ctx.fn(PJS)
    ev = _component_test_by_evaluation(ctx, fi)
    if ev is not None:
        why = "path_join_safe evaluated (engine/minieval) up to os.path.join on %d file names" % ev["cases"]
        ctx.check(not ev["not_normalised"], "C17.R3", fi, "backslashes are replaced by '/' before the component test and the join", why, witness=ev["not_normalised"][:3])
        ctx.check(not ev["accepted_bad"], "C17.R3", fi, "the component test looks at every '/'-separated component of the file name", why, witness=ev["accepted_bad"][:3])
        ctx.check(not [x for x in ev["accepted_bad"] if ".." in x["name"]] and not ev["refused_good"], "C17.R3", fi, "'..' components are refused", why,
                  witness=(ev["accepted_bad"] + ev["refused_good"])[:3])
        return
    name_param = fi.params[1]
    rep = [n for n in walk_own(fi.node) if isinstance(n, ast.Assign) and norm(n.targets[0]) == name_param and norm(n.value) in
           ("%s.replace('\\\\', '/')" % name_param,)]
    dot = [n for n in walk_own(fi.node) if isinstance(n, ast.If) and "'..' in" in norm(n.test) and any(isinstance(s, ast.Raise) for s in n.body)]
    joins = calls_named(fi, "join")
    ok = len(rep) == 1 and (not dot or before(fi, rep[0], dot[0])) and bool(joins) and before(fi, rep[0], joins[0])
    ctx.check(ok, "C17.R3", fi, "backslashes are replaced by '/' before the component test and the join", witness=[norm(r) for r in rep])
    if dot:
        parts = [n for n in walk_own(fi.node) if isinstance(n, ast.Assign) and norm(n.targets[0]) == "parts"]
        ok = len(parts) == 1 and norm(parts[0].value) in ("set(%s.split('/'))" % name_param, "%s.split('/')" % name_param)
        ctx.check(ok, "C17.R3", fi, "the component test looks at every '/'-separated component of the file name", witness=[norm(p.value) for p in parts])
        t = norm(dot[0].test)
        ctx.check("'..' in parts" in t, "C17.R3", fi, "'..' components are refused", witness=t)


def r_idioms(ctx):
    from .common import repo_idioms
    repo_idioms(ctx, "C17.R4", ('http_server',))


EXPLANATION = EXPLANATION + " (R1, as built) the evaluated family has eight roots: absolute with and without trailing separator, the file system root, the empty string, '.', relative with and without trailing separator, doubled trailing separator."

RULES = [("C17.R1", r1), ("C17.R2", r2), ("C17.R3", r3), ("C17.R4", r_idioms)]
