"""C15 - typed JSON round-trip of Serializable objects (sibling-dispatch agreement only)."""
import ast

from engine.index import norm, walk_own
from .common import calls_named

EXPLANATION = (
    "Round-trip equality of values depends on typing introspection, casts and json at run time and is NOT decided. What is "
    "visible in the shape of the code, and is a necessary condition of the round trip, is that Serializable.toJson and fromJson "
    "are sibling implementations of one dispatch. Decides: (R1) both handle the same container origins {list, set, dict, tuple} "
    "with the same guard kind per origin, the same None fall-through and the same final TypeError; (R2) fromJson rebuilds each "
    "origin with that origin's constructor, toJson emits only lists and dicts; (R3) element types: list/set use args[0], dict keys "
    "args[0] and values args[1], tuple position i uses the i-th argument and pads missing positions - identically on both sides; "
    "(R4) _toJsonBasic/_fromJsonBasic dispatch on corresponding predicates; (R5) the enum name maps are filled in one loop from the "
    "same (name, value) pair and toJson/fromJson read the matching map; (R6) dumps/loads are json.dumps(toJson()) / "
    "fromJson(json.loads()). Breaking any of these breaks the round trip for that shape."
)
ASSUMPTIONS = ["typing.get_origin/get_args, json.dumps/loads and the casts behave as documented (not analysed)"]

M = "serializable"
ORIGINS = ("list", "set", "dict", "tuple")


def _branches(ctx, fi, subject):
    """origin -> (guard text, branch body) from the `if origin is X and isinstance(subject, G)` chain; plus ('none', body), ('else', body)"""
    out = {}
    chain = None
    for n in walk_own(fi.node):
        if isinstance(n, ast.If) and norm(n.test).startswith("origin is list"):
            chain = n
            break
    node = chain
    while node is not None:
        t = node.test
        txt = norm(t)
        if isinstance(t, ast.BoolOp) and isinstance(t.op, ast.And) and len(t.values) == 2 and norm(t.values[0]).startswith("origin is "):
            o = norm(t.values[0])[len("origin is "):]
            g = t.values[1]
            guard = norm(g.args[1]) if isinstance(g, ast.Call) and norm(g.func) == "isinstance" and norm(g.args[0]) == subject else "?" + norm(g)
            out[o] = (guard, node.body)
        elif txt == "%s is None" % subject:
            out["none"] = (txt, node.body)
        else:
            out["?" + txt] = (txt, node.body)
        if len(node.orelse) == 1 and isinstance(node.orelse[0], ast.If):
            node = node.orelse[0]
        else:
            out["else"] = ("else", node.orelse)
            node = None
    return out


def _basic_calls(body, helper):
    return [c for s in body for c in ast.walk(s) if isinstance(c, ast.Call) and norm(c.func) == helper]


def r1(ctx):
    tj, fj = ctx.fn("%s:Serializable.toJson" % M), ctx.fn("%s:Serializable.fromJson" % M)
    bt, bf = _branches(ctx, tj, "record"), _branches(ctx, fj, "record[field]")
    ctx.check(set(bt) == set(bf) == set(ORIGINS) | {"none", "else"}, "C15.R1", tj, "toJson and fromJson handle the same origins {list, set, dict, tuple}, None and else",
              "a shape handled on one side only cannot round-trip", witness={"toJson": sorted(bt), "fromJson": sorted(bf)})
    for o in ORIGINS:
        if o in bt and o in bf:
            ctx.check(bt[o][0] == bf[o][0] and bt[o][0] == ("Mapping" if o == "dict" else "(Iterable, Sequence)"), "C15.R1", fj, "origin %s: same guard kind on both sides" % o,
                      witness={"toJson": bt[o][0], "fromJson": bf[o][0]})
    for name, b in (("toJson", bt), ("fromJson", bf)):
        fi = tj if name == "toJson" else fj
        e = b.get("else", ("", []))[1]
        ok = len(e) == 1 and isinstance(e[0], ast.Raise) and isinstance(e[0].exc, ast.Call) and norm(e[0].exc.func) == "TypeError"
        ctx.check(ok, "C15.R1", fi, "%s: a value that matches no shape raises TypeError" % name)
    # None fall-through stores/emits None
    if "none" in bt and "none" in bf:
        ctx.check(norm(bt["none"][1][0]) == "obj[field] = None" and norm(bf["none"][1][0]) == "setattr(inst, field, None)", "C15.R1", tj, "None for a container field round-trips as None",
                  witness=[norm(bt["none"][1][0]), norm(bf["none"][1][0])])
    # same outer structure: iterate _fields; origin = get_origin(annotation); args = get_args(annotation)
    for fi, owner in ((tj, "self"), (fj, "inst")):
        loops = [n for n in walk_own(fi.node) if isinstance(n, ast.For) and norm(n.iter) == "%s._fields" % owner]
        og = [n for n in walk_own(fi.node) if isinstance(n, ast.Assign) and norm(n.targets[0]) == "origin"]
        ag = [n for n in walk_own(fi.node) if isinstance(n, ast.Assign) and norm(n.targets[0]) == "args"]
        ok = len(loops) == 1 and len(og) == 1 and norm(og[0].value) == "get_origin(%s.__annotations__[field])" % owner and len(ag) == 1 and norm(ag[0].value) == "get_args(%s.__annotations__[field])" % owner
        ctx.check(ok, "C15.R1", fi, "%s iterates _fields and dispatches on the field annotation" % fi.name, witness=[norm(x.value) for x in og + ag])
    # fromJson ignores absent keys only
    g = [n for n in walk_own(fj.node) if isinstance(n, ast.If) and norm(n.test) == "field in record"]
    ctx.check(len(g) == 1, "C15.R1", fj, "fromJson sets exactly the fields present in the record")


def r2(ctx):
    tj, fj = ctx.fn("%s:Serializable.toJson" % M), ctx.fn("%s:Serializable.fromJson" % M)
    bt, bf = _branches(ctx, tj, "record"), _branches(ctx, fj, "record[field]")
    want_from = {"list": "lst", "set": "set(lst)", "dict": "map", "tuple": "tuple(lst)"}
    for o, expr in want_from.items():
        if o not in bf:
            continue
        sets = [c for s in bf[o][1] for c in ast.walk(s) if isinstance(c, ast.Call) and norm(c.func) == "setattr"]
        ok = len(sets) == 1 and [norm(a) for a in sets[0].args] == ["inst", "field", expr]
        # and the temporary has the right literal type
        tmp = expr.replace("set(", "").replace("tuple(", "").rstrip(")")
        init = [s for s in bf[o][1] if isinstance(s, ast.Assign) and norm(s.targets[0]) == tmp]
        ok = ok and len(init) == 1 and norm(init[0].value) == ("{}" if o == "dict" else "[]")
        ctx.check(ok, "C15.R2", fj, "origin %s is rebuilt as %s" % (o, expr), "the reconstructed container has the annotated kind", witness=[norm(s) for s in sets])
    want_to = {"list": "lst", "set": "lst", "dict": "map", "tuple": "lst"}
    for o, expr in want_to.items():
        if o not in bt:
            continue
        st = [s for s in bt[o][1] if isinstance(s, ast.Assign) and norm(s.targets[0]) == "obj[field]"]
        init = [s for s in bt[o][1] if isinstance(s, ast.Assign) and norm(s.targets[0]) == expr]
        ok = len(st) == 1 and norm(st[0].value) == expr and len(init) == 1 and norm(init[0].value) == ("{}" if o == "dict" else "[]")
        ctx.check(ok, "C15.R2", tj, "origin %s is emitted as a plain %s" % (o, "dict" if o == "dict" else "list"), "json.dumps accepts the result", witness=[norm(s) for s in st])


def r3(ctx):
    tj, fj = ctx.fn("%s:Serializable.toJson" % M), ctx.fn("%s:Serializable.fromJson" % M)
    bt, bf = _branches(ctx, tj, "record"), _branches(ctx, fj, "record[field]")
    for side, fi, b, helper, subject in (("toJson", tj, bt, "_toJsonBasic", "record"), ("fromJson", fj, bf, "_fromJsonBasic", "record[field]")):
        for o in ("list", "set"):
            if o not in b:
                continue
            cs = _basic_calls(b[o][1], helper)
            loops = [s for s in b[o][1] if isinstance(s, ast.For)]
            ok = len(cs) == 1 and len(loops) == 1 and norm(loops[0].iter) == subject and [norm(a) for a in cs[0].args] == ["args[0]", "field", norm(loops[0].target)]
            ctx.check(ok, "C15.R3", fi, "%s/%s: every element converted with args[0]" % (side, o), witness=[norm(c) for c in cs])
        if "dict" in b:
            cs = _basic_calls(b["dict"][1], helper)
            loops = [s for s in b["dict"][1] if isinstance(s, ast.For)]
            ok = len(cs) == 2 and len(loops) == 1 and norm(loops[0].iter) == "%s.items()" % subject and isinstance(loops[0].target, ast.Tuple)
            if ok:
                k, v = [norm(e) for e in loops[0].target.elts]
                ok = [norm(a) for a in cs[0].args] == ["args[0]", "field", k] and [norm(a) for a in cs[1].args] == ["args[1]", "field", v]
                st = [s for s in loops[0].body if isinstance(s, ast.Assign) and isinstance(s.targets[0], ast.Subscript)]
                kd = {norm(s.targets[0]): s for s in loops[0].body if isinstance(s, ast.Assign) and isinstance(s.value, ast.Call)}
                ok = ok and len(st) == 1 and kd.get(norm(st[0].targets[0].slice)) is not None and kd[norm(st[0].targets[0].slice)].value is cs[0] and \
                    kd.get(norm(st[0].value)) is not None and kd[norm(st[0].value)].value is cs[1]
            ctx.check(ok, "C15.R3", fi, "%s/dict: keys converted with args[0], values with args[1], stored as map[key] = value" % side, witness=[norm(c) for c in cs])
        if "tuple" in b:
            cs = _basic_calls(b["tuple"][1], helper)
            loops = [s for s in b["tuple"][1] if isinstance(s, ast.For)]
            ok = len(cs) == 1 and len(loops) == 1 and norm(loops[0].iter) == "enumerate(args)" and isinstance(loops[0].target, ast.Tuple)
            if ok:
                i, t = [norm(e) for e in loops[0].target.elts]
                conds = [n for n in loops[0].body if isinstance(n, ast.If)]
                ok = len(conds) == 1 and norm(conds[0].test) == "%s < len(%s)" % (i, subject) and norm(cs[0].args[0]) == t
                val = norm(cs[0].args[2])
                src = [s for s in conds[0].body if isinstance(s, ast.Assign) and norm(s.targets[0]) == val]
                ok = ok and (val == "%s[%s]" % (subject, i) or (len(src) == 1 and norm(src[0].value) == "%s[%s]" % (subject, i)))
                pad = [c for s in conds[0].orelse for c in ast.walk(s) if isinstance(c, ast.Call) and norm(c.func) == "lst.append"]
                ok = ok and len(pad) == 1 and norm(pad[0].args[0]) == "None"
            ctx.check(ok, "C15.R3", fi, "%s/tuple: position i converted with the i-th type argument, missing positions padded with None" % side, witness=[norm(c) for c in cs])
    # non-generic fields
    for side, fi, helper in (("toJson", tj, "_toJsonBasic"), ("fromJson", fj, "_fromJsonBasic")):
        cs = [c for c in walk_own(fi.node) if isinstance(c, ast.Call) and norm(c.func) == helper and "__annotations__[field]" in norm(c) or
              (isinstance(c, ast.Call) and norm(c.func) == helper and norm(c.args[0]) == "type_")]
        ctx.check(len(cs) == 1, "C15.R3", fi, "%s: plain fields are converted with their own annotation" % side, witness=[norm(c) for c in cs])


def _basic_table(fi):
    """[(predicate text, returned expression text)] of a *JsonBasic helper"""
    out = []
    node = [n for n in fi.node.body if isinstance(n, ast.If)]
    node = node[0] if node else None
    while node is not None:
        rets = [norm(r.value) for s in node.body for r in ast.walk(s) if isinstance(r, ast.Return)]
        out.append((norm(node.test), rets))
        if len(node.orelse) == 1 and isinstance(node.orelse[0], ast.If):
            node = node.orelse[0]
        else:
            rets = [norm(r.value) for s in node.orelse for r in ast.walk(s) if isinstance(r, ast.Return)]
            out.append(("else", rets))
            node = None
    return out


def r4(ctx):
    tb, fb = ctx.fn("%s:_toJsonBasic" % M), ctx.fn("%s:_fromJsonBasic" % M)
    tt, ft = _basic_table(tb), _basic_table(fb)
    want_t = [("isinstance(type, SerializableType)", ["value.toJson()"]), ("hasattr(type, 'toJson')", ["type(value).toJson()"]), ("else", ["value"])]
    ctx.check(tt == want_t, "C15.R4", tb, "_toJsonBasic: Serializable -> value.toJson(); enum-like -> type(value).toJson(); else identity", witness=tt)
    want_f = [("isinstance(type, SerializableType)", ["inst"]), ("isinstance(type, SerializableEnumType)", ["type(type.fromJson(value))"]),
              ("hasattr(type, 'fromJson')", ["type.fromJson(value)"]), ("else", ["origin(value)", "type(value)"])]
    ctx.check(ft == want_f, "C15.R4", fb, "_fromJsonBasic: Serializable -> type.fromJson; enum -> type(type.fromJson(value)); else cast with origin or type", witness=ft)
    # the Serializable branch of fromJson keeps None and converts everything else
    inst = [n for n in walk_own(fb.node) if isinstance(n, ast.Assign) and norm(n.targets[0]) == "inst"]
    vals = sorted(norm(n.value) for n in inst)
    ctx.check(vals == ["None", "type.fromJson(value)"], "C15.R4", fb, "nested Serializable: None stays None, else type.fromJson(value)", witness=vals)
    g = [n for n in walk_own(fb.node) if isinstance(n, ast.If) and norm(n.test) == "value is not None"]
    ctx.check(len(g) == 1, "C15.R4", fb, "nested Serializable conversion is guarded by `value is not None`")
    # corresponding predicates: first predicate identical, second pair enum-like on both sides
    ctx.check(tt[0][0] == ft[0][0], "C15.R4", tb, "both helpers test the Serializable case first with the same predicate", witness=[tt[0][0], ft[0][0]])


def r5(ctx):
    mt = ctx.fn("%s:SerializableEnumType.__new__" % M)
    loops = [n for n in walk_own(mt.node) if isinstance(n, ast.For) and norm(n.iter) == "dir(cls)"]
    ok = len(loops) == 1
    if ok:
        name = norm(loops[0].target)
        stores = {norm(s.targets[0]): norm(s.value) for s in ast.walk(loops[0]) if isinstance(s, ast.Assign) and isinstance(s.targets[0], ast.Subscript)}
        ok = stores == {"cls._value2name[getattr(cls, %s)]" % name: name, "cls._name2value[%s]" % name: "getattr(cls, %s)" % name}
        # both stores precede the wrapping of the value into an enum instance
        wrap = [s for s in ast.walk(loops[0]) if isinstance(s, ast.Expr) and isinstance(s.value, ast.Call) and norm(s.value.func) == "setattr"]
        st = [s for s in ast.walk(loops[0]) if isinstance(s, ast.Assign) and isinstance(s.targets[0], ast.Subscript)]
        ok = ok and len(wrap) == 1 and all(s.lineno < wrap[0].lineno for s in st)
    else:
        stores = {}
    ctx.check(ok, "C15.R5", mt, "_value2name[v] = name and _name2value[name] = v are filled in one loop from the same pair (before the member is wrapped)",
              "the two maps are mutual inverses", witness=stores)
    inits = sorted(norm(s.targets[0]) for s in walk_own(mt.node) if isinstance(s, ast.Assign) and norm(s.value) == "{}")
    ctx.check(inits == ["cls._name2value", "cls._value2name"], "C15.R5", mt, "each enum class gets its own fresh maps", witness=inits)
    tj, fj = ctx.fn("%s:SerializableEnum.toJson" % M), ctx.fn("%s:SerializableEnum.fromJson" % M)
    rt = [norm(n.value) for n in walk_own(tj.node) if isinstance(n, ast.Return)]
    rf = [norm(n.value) for n in walk_own(fj.node) if isinstance(n, ast.Return)]
    ctx.check(rt == ["self.__class__._value2name[self.value]"], "C15.R5", tj, "enum toJson = member name of the value", witness=rt)
    ctx.check(rf in (["cls._name2value[%s.upper()]" % fj.params[1]], ["cls._name2value[%s]" % fj.params[1]]), "C15.R5", fj, "enum fromJson = value of the (upper-case) member name", witness=rf)
    ctx.check("classmethod" in fj.decorators, "C15.R5", fj, "enum fromJson is a classmethod")


def r6(ctx):
    d, l = ctx.fn("%s:Serializable.dumps" % M), ctx.fn("%s:Serializable.loads" % M)
    rd = [norm(n.value) for n in walk_own(d.node) if isinstance(n, ast.Return)]
    rl = [norm(n.value) for n in walk_own(l.node) if isinstance(n, ast.Return)]
    ctx.check(len(rd) == 1 and rd[0].startswith("json.dumps(self.toJson()"), "C15.R6", d, "dumps = json.dumps(self.toJson(), ...)", witness=rd)
    ctx.check(len(rl) == 1 and rl[0].startswith("cls.fromJson(json.loads(%s" % l.params[1]), "C15.R6", l, "loads = cls.fromJson(json.loads(string, ...))", witness=rl)
    ctx.check("classmethod" in l.decorators and "classmethod" in ctx.fn("%s:Serializable.fromJson" % M).decorators, "C15.R6", l, "loads/fromJson are classmethods (build the class they are called on)")
    fj = ctx.fn("%s:Serializable.fromJson" % M)
    inst = [n for n in walk_own(fj.node) if isinstance(n, ast.Assign) and norm(n.targets[0]) == "inst"]
    rets = [norm(n.value) for n in walk_own(fj.node) if isinstance(n, ast.Return)]
    ctx.check(len(inst) == 1 and norm(inst[0].value) == "cls()" and rets == ["inst"], "C15.R6", fj, "fromJson builds and returns a fresh instance of cls")
    tj = ctx.fn("%s:Serializable.toJson" % M)
    rets = [norm(n.value) for n in walk_own(tj.node) if isinstance(n, ast.Return)]
    init = [n for n in walk_own(tj.node) if isinstance(n, ast.Assign) and norm(n.targets[0]) == "obj"]
    ctx.check(rets == ["obj"] and len(init) == 1 and norm(init[0].value) == "{}", "C15.R6", tj, "toJson returns a fresh dict keyed by field name")


def r_idioms(ctx):
    from .common import repo_idioms
    repo_idioms(ctx, "C15.R7", ('serializable',))


RULES = [("C15.R1", r1), ("C15.R2", r2), ("C15.R3", r3), ("C15.R4", r4), ("C15.R5", r5), ("C15.R6", r6), ("C15.R7", r_idioms)]
