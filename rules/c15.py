"""C15 - typed JSON round-trip of Serializable objects (sibling-dispatch agreement only)."""
import ast

from engine.index import norm, walk_own
from .common import calls_named, before

EXPLANATION = (
    "Round-trip equality of values depends on typing introspection, casts and json at run time and is NOT decided. What is "
    "visible in the code, and is a necessary condition of the round trip, is that Serializable.toJson and fromJson are sibling "
    "implementations of one dispatch. The branch bodies are not compared as text: rules/jsonshape.py evaluates the if-chain's "
    "tests for each container origin (list, set, dict, tuple; `is`, `==` and `in (...)` spellings, merged branches) and runs the "
    "selected body over a small term language (listof / poslist / dictof / conv(type argument, part of the value) / rebuilding "
    "constructor), so loops, comprehensions and temporaries give the same term. Decides: (R1) both sides select a guarded branch "
    "for each origin with the same guard kind, send None to a branch that stores None and anything else to TypeError; (R2) fromJson "
    "converts list/set elements with the first type argument, dict keys/values with the first/second, tuple position i with the i-th "
    "(padding missing positions with None) and rebuilds the annotated container kind; (R3) toJson emits plain lists/dicts using the "
    "same type argument for the same part of the value as fromJson; (R4) _toJsonBasic/_fromJsonBasic dispatch on corresponding "
    "predicates; (R5) the enum name maps are filled in one loop from the same (name, value) pair and toJson/fromJson read the "
    "matching map; (R6) dumps/loads are json.dumps(toJson()) / fromJson(json.loads()). Breaking any of these breaks the round trip "
    "for that shape."
)
ASSUMPTIONS = ["typing.get_origin/get_args, json.dumps/loads and the casts behave as documented (not analysed)"]

M = "serializable"
ORIGINS = ("list", "set", "dict", "tuple")


from . import jsonshape as js

SIDES = (("toJson", "_toJsonBasic", "obj[field]", "to"), ("fromJson", "_fromJsonBasic", "setattr", "from"))
MAPPING_KINDS = {"Mapping", "dict", "MutableMapping"}


def _side(ctx, rule, name):
    fi = ctx.fn("%s:Serializable.%s" % (M, name))
    chain = js.find_chain(fi)
    if not ctx.require(rule, fi, "container dispatch (if-chain on `origin`) in %s" % name, 1 if chain is not None else 0, 1):
        return fi, None, None
    subject = js.subject_of(chain)
    sink_in_chain = any((isinstance(x, ast.Call) and norm(x.func) == "setattr") or (isinstance(x, ast.Assign) and isinstance(x.targets[0], ast.Subscript) and norm(x.targets[0]) == "obj[field]")
                        for x in ast.walk(chain))
    if subject is None or not sink_in_chain:
        # not one if-chain with its guards in the tests: interpret the whole dispatch region (flags, several chains, one store)
        region = js.find_region(fi)
        if region is not None:
            return fi, region, region.subject
        ctx.undecided(rule, fi, "%s: the dispatched value (first argument of the isinstance guards) is not unique" % name)
        return fi, None, None
    return fi, chain, subject


def _guard_names(guards):
    out = set()
    for g in guards:
        try:
            for n in ast.walk(ast.parse(g, mode="eval")):
                if isinstance(n, ast.Name):
                    out.add(n.id)
                elif isinstance(n, ast.Attribute):
                    out.add(n.attr)
        except SyntaxError:
            out.add(g)
    return out


def r1(ctx):
    """dispatch structure: both sides select a branch for each container origin, with a guard of the same kind, send None
    to a None branch and everything else to TypeError"""
    sel = {}
    for (name, helper, sink, side) in SIDES:
        fi, chain, subject = _side(ctx, "C15.R1", name)
        if chain is None:
            return
        for o in js.ORIGINS:
            body, guards, node = js.select(chain, o, subject)
            if body is None:
                ctx.undecided("C15.R1", fi, "%s: test `%s` cannot be evaluated for origin %s" % (name, norm(node.test), o))
                return
            sel[(side, o)] = (body, _guard_names(guards), node)
            ctx.check(node is not None and bool(guards), "C15.R1", fi, "%s: origin %s is handled by a guarded branch" % (name, o),
                      "a shape handled on one side only cannot round-trip", witness={"guards": sorted(_guard_names(guards))})
            nb, _, nn = js.select(chain, o, subject, is_none=True)
            t = js.branch_term(fi, nb, subject, helper, sink) if nb is not None else ("?", "undecidable")
            ctx.check(t == ("none",), "C15.R1", fi, "%s: None in a field annotated %s stays None" % (name, o), "None for a container field round-trips as None",
                      witness=js.show(t))
        # a generic origin that is none of the four (and a value that fails its guard) raises TypeError
        eb, _, en = js.select(chain, "<other>", subject)
        t = js.branch_term(fi, eb, subject, helper, sink) if eb is not None else ("?", "undecidable")
        ctx.check(t == ("raise", "TypeError"), "C15.R1", fi, "%s: a value that matches no shape raises TypeError" % name, witness=js.show(t))
    for o in js.ORIGINS:
        gt, gf = sel[("to", o)][1], sel[("from", o)][1]
        if o == "dict":
            ok = gt == gf and bool(gt) and gt <= MAPPING_KINDS
        else:
            ok = gt == gf and bool(gt) and not (gt & MAPPING_KINDS)
        ctx.check(ok, "C15.R1", ctx.fn("%s:Serializable.fromJson" % M), "origin %s: same guard kind on both sides" % o, witness={"toJson": sorted(gt), "fromJson": sorted(gf)})
    tj, fj = ctx.fn("%s:Serializable.toJson" % M), ctx.fn("%s:Serializable.fromJson" % M)
    # same outer structure: iterate _fields; origin = get_origin(annotation); args = get_args(annotation)
    for fi, owner in ((tj, "self"), (fj, "inst")):
        loops = [n for n in walk_own(fi.node) if isinstance(n, ast.For) and norm(n.iter) == "%s._fields" % owner]
        og = [n for n in walk_own(fi.node) if isinstance(n, ast.Assign) and norm(n.targets[0]) == "origin"]
        ag = [n for n in walk_own(fi.node) if isinstance(n, ast.Assign) and norm(n.targets[0]) == "args"]
        from .common import sym_text
        from engine.cfg import cfg_of as _cfg_of
        fcfg = _cfg_of(fi)
        def _v(n_):
            nn = fcfg.node_of(n_)
            return sym_text(fi, n_.value, nn) if nn is not None else norm(n_.value)
        ok = len(loops) == 1 and len(og) == 1 and _v(og[0]) == "get_origin(%s.__annotations__[field])" % owner and len(ag) == 1 and _v(ag[0]) == "get_args(%s.__annotations__[field])" % owner
        ctx.check(ok, "C15.R1", fi, "%s iterates _fields and dispatches on the field annotation" % fi.name, witness=[norm(x.value) for x in og + ag])
    # fromJson ignores absent keys only
    # (every store into the instance executes under `field in record`, however the test is spelled; no other test on the record's keys)
    from engine.cfg import cfg_of as _cfg
    jcfg = _cfg(fj)
    sets = [c for c in walk_own(fj.node) if isinstance(c, ast.Call) and norm(c.func) == "setattr"]
    present = {("field in record", True), ("field not in record", False)}
    ok = bool(sets) and all(present & {(norm(t), p) for (t, p) in jcfg.conditions_of(jcfg.node_of(c).id)} for c in sets)
    tests = [n for n in walk_own(fj.node) if isinstance(n, ast.Compare) and len(n.ops) == 1 and isinstance(n.ops[0], (ast.In, ast.NotIn)) and norm(n.comparators[0]) == "record"]
    ctx.check(ok and len(tests) == 1, "C15.R1", fj, "fromJson sets exactly the fields present in the record", witness=[norm(t) for t in tests])


def _terms(ctx, rule):
    out = {}
    for (name, helper, sink, side) in SIDES:
        fi, chain, subject = _side(ctx, rule, name)
        if chain is None:
            return None
        for o in js.ORIGINS:
            body, guards, node = js.select(chain, o, subject)
            out[(side, o)] = (fi, js.branch_term(fi, body, subject, helper, sink) if body is not None else ("?", "undecidable"))
    return out


WHAT = {"list": "every element converted with the first type argument", "set": "every element converted with the first type argument",
        "dict": "keys converted with the first and values with the second type argument",
        "tuple": "position i converted with the i-th type argument, missing positions padded with None"}


def r2(ctx):
    """fromJson: per origin, which type argument converts which part of the JSON value, and the container that is rebuilt"""
    terms = _terms(ctx, "C15.R2")
    if terms is None:
        return
    for o in js.ORIGINS:
        fi, t = terms[("from", o)]
        ctx.check(t in js.expected(o, "from"), "C15.R2", fi, "fromJson/%s: %s; rebuilt as %s" % (o, WHAT[o], o), "the reconstructed container has the annotated kind and element types",
                  witness={"found": js.show(t), "expected": [js.show(x) for x in js.expected(o, "from")]})


def r3(ctx):
    """toJson: per origin, the emitted JSON structure; and agreement of the two sides on the type argument used at each place"""
    terms = _terms(ctx, "C15.R3")
    if terms is None:
        return
    for o in js.ORIGINS:
        fi, t = terms[("to", o)]
        ctx.check(t in js.expected(o, "to"), "C15.R3", fi, "toJson/%s: %s; emitted as a plain %s" % (o, WHAT[o], "dict" if o == "dict" else "list"), "json.dumps accepts the result and fromJson can undo it",
                  witness={"found": js.show(t), "expected": [js.show(x) for x in js.expected(o, "to")]})
        ft = terms[("from", o)][1]
        core = ft[2] if ft[0] == "call" else ft
        ctx.check(core == t, "C15.R3", fi, "%s: both directions use the same type argument for the same part of the value" % o,
                  "a part converted with one type on the way out and another on the way in does not round-trip", witness={"toJson": js.show(t), "fromJson": js.show(ft)})
    # non-generic fields
    tj, fj = ctx.fn("%s:Serializable.toJson" % M), ctx.fn("%s:Serializable.fromJson" % M)
    for side, fi, helper in (("toJson", tj, "_toJsonBasic"), ("fromJson", fj, "_fromJsonBasic")):
        from .common import sym_text
        from engine.cfg import cfg_of
        fcfg = cfg_of(fi)
        cs = [c for c in walk_own(fi.node) if isinstance(c, ast.Call) and norm(c.func) == helper and c.args and
              ("__annotations__[field]" in sym_text(fi, c.args[0], fcfg.node_of(c)) or norm(c.args[0]) == "type_")]
        ctx.check(len(cs) == 1, "C15.R3", fi, "%s: plain fields are converted with their own annotation" % side, witness=[norm(c) for c in cs])


def _basic_table(fi):
    """[(predicate text, returned expression text)] of a *JsonBasic helper"""
    out = []
    node = [n for n in fi.node.body if isinstance(n, ast.If)]
    node = node[0] if node else None
    while node is not None:
        rets = [norm(r.value) for s in node.body for r in ast.walk(s) if isinstance(r, ast.Return)]
        out.append((norm(node.test), rets))
        if len(node.orelse) == 1 and isinstance(node.orelse[0], ast.If):
            node = node.orelse[0]
        else:
            rets = [norm(r.value) for s in node.orelse for r in ast.walk(s) if isinstance(r, ast.Return)]
            out.append(("else", rets))
            node = None
    return out


def _decision_paths(ctx, fi):
    """{(frozenset of condition literals), returned expression text} over every path of a loop-free helper: if/elif chains, early
    returns, flag variables and `(a or b)(x)` callee choices all give the same set"""
    from .common import sym_paths
    from engine.cond import CondCtx
    paths = sym_paths(fi)
    if paths is None:
        return None
    cc = CondCtx(ctx.folder, fi.module, fi.cls)
    out = set()
    for (conds, env, ret) in paths:
        alts = []
        work = [(list(conds), ret)]
        while work and len(alts) + len(work) < 64:
            cs0, rt0 = work.pop()
            try:
                r = ast.parse(rt0, mode="eval").body
            except SyntaxError:
                r = None
            # (f or g)(args): the callee is f when f is truthy, else g
            if isinstance(r, ast.Call) and isinstance(r.func, ast.BoolOp) and isinstance(r.func.op, ast.Or) and len(r.func.values) == 2:
                f, g = r.func.values
                argtxt = ", ".join([ast.unparse(x) for x in r.args] + ["%s=%s" % (k.arg, ast.unparse(k.value)) for k in r.keywords])
                work += [(cs0 + [(ast.unparse(f), True)], "%s(%s)" % (ast.unparse(f), argtxt)), (cs0 + [(ast.unparse(f), False)], "%s(%s)" % (ast.unparse(g), argtxt))]
            # a if c else b: one path per arm
            elif isinstance(r, ast.IfExp):
                work += [(cs0 + [(ast.unparse(r.test), True)], ast.unparse(r.body)), (cs0 + [(ast.unparse(r.test), False)], ast.unparse(r.orelse))]
            # (a if c else b)(args)
            elif isinstance(r, ast.Call) and isinstance(r.func, ast.IfExp):
                argtxt = ", ".join([ast.unparse(x) for x in r.args] + ["%s=%s" % (k.arg, ast.unparse(k.value)) for k in r.keywords])
                work += [(cs0 + [(ast.unparse(r.func.test), True)], "%s(%s)" % (ast.unparse(r.func.body), argtxt)),
                         (cs0 + [(ast.unparse(r.func.test), False)], "%s(%s)" % (ast.unparse(r.func.orelse), argtxt))]
            else:
                alts.append((cs0, rt0))
        for (cs, rt) in alts:
            lits = []
            for (t, p) in cs:
                try:
                    e = ast.parse(t, mode="eval").body
                except SyntaxError:
                    lits.append("%s%s" % ("" if p else "not ", t))
                    continue
                lits += [repr(l) for l in cc.literal(e, p)]
            out.add((frozenset(lits), rt))
    return out


def r4(ctx):
    tb, fb = ctx.fn("%s:_toJsonBasic" % M), ctx.fn("%s:_fromJsonBasic" % M)
    S, E = "isinstance(type, SerializableType)", "isinstance(type, SerializableEnumType)"
    HT, HF = "hasattr(type, 'toJson')", "hasattr(type, 'fromJson')"
    G = "get_origin(type)"
    want_t = {(frozenset([S]), "value.toJson()"), (frozenset(["not " + S, HT]), "type(value).toJson()"), (frozenset(["not " + S, "not " + HT]), "value")}
    want_f = {(frozenset([S, "value in {None}"]), "None"), (frozenset([S, "value not in {None}"]), "type.fromJson(value)"),
              (frozenset(["not " + S, E]), "type(type.fromJson(value))"), (frozenset(["not " + S, "not " + E, HF]), "type.fromJson(value)"),
              (frozenset(["not " + S, "not " + E, "not " + HF, G]), "get_origin(type)(value)"),
              (frozenset(["not " + S, "not " + E, "not " + HF, "not " + G]), "type(value)")}
    tt, ft = _decision_paths(ctx, tb), _decision_paths(ctx, fb)

    def show(x):
        return sorted((sorted(c), r) for (c, r) in x) if x is not None else None
    ctx.check(tt == want_t, "C15.R4", tb, "_toJsonBasic: Serializable -> value.toJson(); enum-like -> type(value).toJson(); else identity", witness=show(tt))
    ctx.check(ft == want_f, "C15.R4", fb, "_fromJsonBasic: Serializable -> type.fromJson; enum -> type(type.fromJson(value)); else cast with origin or type", witness=show(ft))
    # the Serializable branch of fromJson keeps None and converts everything else (two of the paths above)
    sub = {(c, r) for (c, r) in (ft or set()) if S in c}
    ctx.check(sub == {x for x in want_f if S in x[0]}, "C15.R4", fb, "nested Serializable: None stays None, else type.fromJson(value)", witness=show(sub))
    # corresponding predicates: both helpers decide the Serializable case first, with the same predicate
    ctx.check(tt is not None and ft is not None and any(c == frozenset([S]) for (c, r) in tt) and all(S in c or ("not " + S) in c for (c, r) in ft), "C15.R4", tb,
              "both helpers test the Serializable case first with the same predicate")


def r5(ctx):
    mt = ctx.fn("%s:SerializableEnumType.__new__" % M)
    loops = [n for n in walk_own(mt.node) if isinstance(n, ast.For) and norm(n.iter) == "dir(cls)"]
    ok = len(loops) == 1
    if ok:
        name = norm(loops[0].target)
        stores = {norm(s.targets[0]): norm(s.value) for s in ast.walk(loops[0]) if isinstance(s, ast.Assign) and isinstance(s.targets[0], ast.Subscript)}
        ok = stores == {"cls._value2name[getattr(cls, %s)]" % name: name, "cls._name2value[%s]" % name: "getattr(cls, %s)" % name}
        # both stores precede the wrapping of the value into an enum instance
        wrap = [s for s in ast.walk(loops[0]) if isinstance(s, ast.Expr) and isinstance(s.value, ast.Call) and norm(s.value.func) == "setattr"]
        st = [s for s in ast.walk(loops[0]) if isinstance(s, ast.Assign) and isinstance(s.targets[0], ast.Subscript)]
        ok = ok and len(wrap) == 1 and all(before(mt, s, wrap[0]) for s in st)
    else:
        stores = {}
    ctx.check(ok, "C15.R5", mt, "_value2name[v] = name and _name2value[name] = v are filled in one loop from the same pair (before the member is wrapped)",
              "the two maps are mutual inverses", witness=stores)
    inits = sorted(norm(s.targets[0]) for s in walk_own(mt.node) if isinstance(s, ast.Assign) and norm(s.value) == "{}")
    ctx.check(inits == ["cls._name2value", "cls._value2name"], "C15.R5", mt, "each enum class gets its own fresh maps", witness=inits)
    tj, fj = ctx.fn("%s:SerializableEnum.toJson" % M), ctx.fn("%s:SerializableEnum.fromJson" % M)
    rt = [norm(n.value) for n in walk_own(tj.node) if isinstance(n, ast.Return)]
    rf = [norm(n.value) for n in walk_own(fj.node) if isinstance(n, ast.Return)]
    ctx.check(rt == ["self.__class__._value2name[self.value]"], "C15.R5", tj, "enum toJson = member name of the value", witness=rt)
    ctx.check(rf in (["cls._name2value[%s.upper()]" % fj.params[1]], ["cls._name2value[%s]" % fj.params[1]]), "C15.R5", fj, "enum fromJson = value of the (upper-case) member name", witness=rf)
    ctx.check("classmethod" in fj.decorators, "C15.R5", fj, "enum fromJson is a classmethod")


def r6(ctx):
    d, l = ctx.fn("%s:Serializable.dumps" % M), ctx.fn("%s:Serializable.loads" % M)
    rd = [norm(n.value) for n in walk_own(d.node) if isinstance(n, ast.Return)]
    rl = [norm(n.value) for n in walk_own(l.node) if isinstance(n, ast.Return)]
    ctx.check(len(rd) == 1 and rd[0].startswith("json.dumps(self.toJson()"), "C15.R6", d, "dumps = json.dumps(self.toJson(), ...)", witness=rd)
    # (the document goes to the parser as it is: the first argument of json.loads is the parameter itself - a filter in front of the parser,
    # comment stripping or the like, has its own idea of where strings begin and end)
    rets_l = [n.value for n in walk_own(l.node) if isinstance(n, ast.Return)]
    ok_l = len(rets_l) == 1 and isinstance(rets_l[0], ast.Call) and norm(rets_l[0].func) == "cls.fromJson" and len(rets_l[0].args) == 1 and isinstance(rets_l[0].args[0], ast.Call) \
        and norm(rets_l[0].args[0].func) == "json.loads" and rets_l[0].args[0].args and isinstance(rets_l[0].args[0].args[0], ast.Name) and rets_l[0].args[0].args[0].id == l.params[1] \
        and not any(isinstance(x, ast.Name) and x.id == l.params[1] and isinstance(x.ctx, ast.Store) for x in walk_own(l.node))
    ctx.check(ok_l, "C15.R6", l, "loads = cls.fromJson(json.loads(string, ...))", witness=rl)
    rets_d = [n.value for n in walk_own(d.node) if isinstance(n, ast.Return)]
    ok_d = len(rets_d) == 1 and isinstance(rets_d[0], ast.Call) and norm(rets_d[0].func) == "json.dumps" and rets_d[0].args and norm(rets_d[0].args[0]) == "self.toJson()"
    ctx.check(ok_d, "C15.R6", d, "the text dumps returns is the output of json.dumps on toJson(), unchanged", witness=rd)
    ctx.check("classmethod" in l.decorators and "classmethod" in ctx.fn("%s:Serializable.fromJson" % M).decorators, "C15.R6", l, "loads/fromJson are classmethods (build the class they are called on)")
    fj = ctx.fn("%s:Serializable.fromJson" % M)
    inst = [n for n in walk_own(fj.node) if isinstance(n, ast.Assign) and norm(n.targets[0]) == "inst"]
    rets = [norm(n.value) for n in walk_own(fj.node) if isinstance(n, ast.Return)]
    ctx.check(len(inst) == 1 and norm(inst[0].value) == "cls()" and rets == ["inst"], "C15.R6", fj, "fromJson builds and returns a fresh instance of cls")
    tj = ctx.fn("%s:Serializable.toJson" % M)
    rets = [norm(n.value) for n in walk_own(tj.node) if isinstance(n, ast.Return)]
    init = [n for n in walk_own(tj.node) if isinstance(n, ast.Assign) and norm(n.targets[0]) == "obj"]
    ctx.check(rets == ["obj"] and len(init) == 1 and norm(init[0].value) == "{}", "C15.R6", tj, "toJson returns a fresh dict keyed by field name")


def r_idioms(ctx):
    from .common import repo_idioms
    repo_idioms(ctx, "C15.R7", ('serializable',))


RULES = [("C15.R1", r1), ("C15.R2", r2), ("C15.R3", r3), ("C15.R4", r4), ("C15.R5", r5), ("C15.R6", r6), ("C15.R7", r_idioms)]
