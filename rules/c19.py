"""C19 - password hashing: the right password verifies, every other one does not."""
import ast

from engine.index import norm, walk_own
from engine.cfg import cfg_of
from engine.defuse import defuse_of
from engine.embedded import struct_sites, fmt_fields, fmt_size
from engine.names import unresolved_names
from .common import calls_named, enclosing_trys

EXPLANATION = (
    "Static rules over Auth.hash_password / Auth.verify_password. Decides: (R1) exception discipline: every operation on data "
    "derived from the hash string that can raise (constant-index subscripts of the split result, b64decode, struct.unpack, encode, "
    "the Scrypt constructor, kdf.verify) raises a subclass of ValueError/TypeError, or is converted by a handler / the `e = ...; if "
    "e: raise e` idiom, or is dominated by a guard that excludes the failure (field-count test); (R2) True reaches the return only "
    "on the path where kdf.verify completed normally, the InvalidKey handler leaves False; (R3) writer/reader agreement: separator, "
    "kind/version constants, parameter struct format and order, salt+digest layout, the same pre-hash, the same Scrypt argument "
    "order; the separator is outside the base64 alphabet; (R4) the salt's only source is os.urandom(SALT_LENGTH) inside "
    "hash_password; (R5) both functions type-check their arguments first; (R6) the embedded lengths are validated against the "
    "embedded data and an empty digest is refused before verification (an empty digest equals every derived key of length 0). "
    "Does not decide the strength of scrypt nor the corner where edited parameters select a prefix of the true digest."
)
ASSUMPTIONS = [
    "library exception table: base64.b64decode -> binascii.Error (ValueError); str.encode -> UnicodeEncodeError (ValueError); struct.unpack -> struct.error; "
    "Scrypt(...) -> ValueError/TypeError for invalid parameters; kdf.verify -> InvalidKey on mismatch",
]

HP, VP = "auth:Auth.hash_password", "auth:Auth.verify_password"


def r1(ctx):
    vp = ctx.fn(VP)
    cfg = cfg_of(vp)
    # constant-index subscripts of the split result
    parts_def = [n for n in walk_own(vp.node) if isinstance(n, ast.Assign) and isinstance(n.value, ast.Call) and norm(n.value.func).endswith(".split")]
    if not ctx.require("C19.R1", vp, "split of the hash string", len(parts_def), 1):
        return
    pv = norm(parts_def[0].targets[0])
    subs = [n for n in walk_own(vp.node) if isinstance(n, ast.Subscript) and norm(n.value) == pv and isinstance(n.slice, ast.Constant)]
    ctx.expect("C19.R1", "constant-index subscripts of the split result", len(subs), 4)
    maxidx = max(n.slice.value for n in subs)
    for s in subs:
        if s.slice.value == 0:
            ctx.holds("C19.R1", vp, "%s[0] always exists (split returns at least one element)" % pv)
            continue
        node = cfg.node_of(s)
        conds = [(norm(t), p) for (t, p) in cfg.conditions_of(node.id)]
        ok = any((t in ("len(%s) != %d" % (pv, maxidx + 1),) and not p) or (t in ("len(%s) == %d" % (pv, maxidx + 1),) and p) or
                 (t in ("len(%s) < %d" % (pv, maxidx + 1), "len(%s) <= %d" % (pv, maxidx)) and not p) for (t, p) in conds)
        in_try = any(any(h.type is not None and "IndexError" in norm(h.type) and any(isinstance(x, ast.Raise) for x in h.body) for h in t.handlers) for t in enclosing_trys(s))
        ctx.check(ok or in_try, "C19.R1", vp, "%s[%d] is guarded by a field-count test" % (pv, s.slice.value),
                  "a hash string with a missing field must raise ValueError, not IndexError", witness={"conditions": conds}, line=s.lineno)
    # the guard raises ValueError
    guards = [n for n in walk_own(vp.node) if isinstance(n, ast.If) and norm(n.test).startswith("len(%s)" % pv) and any(isinstance(s, ast.Raise) for s in n.body)]
    for g in guards:
        rz = [s for s in g.body if isinstance(s, ast.Raise)][0]
        ctx.check(isinstance(rz.exc, ast.Call) and norm(rz.exc.func) in ("ValueError", "TypeError"), "C19.R1", vp, "the field-count guard raises ValueError", witness=norm(rz), line=rz.lineno)
    # struct.unpack conversion
    us = [s for s in struct_sites(vp, ctx.folder) if s.kind == "unpack"]
    if ctx.require("C19.R1", vp, "struct.unpack of the parameters", len(us), 1):
        u = us[0]
        trys = enclosing_trys(u.call)
        ok = False
        for t in trys[:1]:
            for h in t.handlers:
                if h.type is not None and norm(h.type) == "struct.error":
                    asg = [s for s in h.body if isinstance(s, ast.Assign) and isinstance(s.value, ast.Call) and norm(s.value.func) in ("ValueError", "TypeError")]
                    if asg:
                        ev = norm(asg[0].targets[0])
                        from .capacity import _block_of
                        blk = _block_of(t)
                        nxt = blk[blk.index(t) + 1] if blk.index(t) + 1 < len(blk) else None
                        ok = isinstance(nxt, ast.If) and norm(nxt.test) == ev and len(nxt.body) == 1 and isinstance(nxt.body[0], ast.Raise) and norm(nxt.body[0].exc) == ev
                    if any(isinstance(s, ast.Raise) and isinstance(s.exc, ast.Call) and norm(s.exc.func) in ("ValueError", "TypeError") for s in h.body):
                        ok = True
        ctx.check(ok, "C19.R1", vp, "struct.error from the parameter block is converted to ValueError", line=u.lineno)
    # every other raise in verify_password is ValueError/TypeError; no handler swallows or converts to another type
    for rz in [n for n in walk_own(vp.node) if isinstance(n, ast.Raise)]:
        t = norm(rz.exc.func) if isinstance(rz.exc, ast.Call) else norm(rz.exc)
        src_ok = t in ("ValueError", "TypeError")
        if not src_ok and isinstance(rz.exc, ast.Name):
            du = defuse_of(vp)
            defs = du.reaching(rz.exc.id, cfg.node_of(rz).id)
            src_ok = all(isinstance(d[1], ast.Call) and norm(d[1].func) in ("ValueError", "TypeError") or (isinstance(d[1], ast.Constant) and d[1].value is None) for d in defs)
        ctx.check(src_ok, "C19.R1", vp, rz, "verify_password raises only ValueError/TypeError itself", witness=t, line=rz.lineno)
    hs = [h for h in ast.walk(vp.node) if isinstance(h, ast.ExceptHandler)]
    types = sorted(norm(h.type) if h.type is not None else "<bare>" for h in hs)
    ctx.check(types == ["InvalidKey", "struct.error"], "C19.R1", vp, "handlers: struct.error (converted) and InvalidKey (-> False) only", "no broad handler can turn a malformed hash into a result", witness=types)
    # calls on hash-derived data outside handlers: only the documented library calls
    lib = sorted({norm(c.func) for c in walk_own(vp.node) if isinstance(c, ast.Call)} - {"isinstance", "type", "TypeError", "ValueError", "str", "len"})
    allowed = {"base64.b64decode", "struct.unpack", "scrypt.Scrypt", "kdf.verify", "digest.update", "digest.finalize", "hashes.Hash", "hashes.SHA256", "default_backend",
               "password_hash.encode('utf-8').split", "password_hash.encode"}
    ctx.check(set(lib) <= allowed, "C19.R1", vp, "operations on hash-derived data are the ones in the library exception table", witness=sorted(set(lib) - allowed))
    ctx.check(not unresolved_names(vp) and not unresolved_names(ctx.fn(HP)), "C19.R1", vp, "all names resolve (no NameError instead of the documented exceptions)",
              witness=[u[0] for u in unresolved_names(vp) + unresolved_names(ctx.fn(HP))])


def r2(ctx):
    vp = ctx.fn(VP)
    cfg = cfg_of(vp)
    du = defuse_of(vp)
    ver = [c for c in calls_named(vp, "verify") if norm(c.func) == "kdf.verify"]
    if not ctx.require("C19.R2", vp, "kdf.verify call", len(ver), 1):
        return
    V = cfg.node_of(ver[0])
    rets = [n for n in cfg.stmts((ast.Return,))]
    ctx.expect("C19.R2", "return statements", len(rets), 1)
    pre = cfg.reachable(cfg.entry, through_effect={V.id})
    for r in rets:
        v = r.ast.value
        if isinstance(v, ast.Constant):
            ok = v.value is not True or r.id not in pre
            ctx.check(ok, "C19.R2", vp, r.ast, "a literal True is returned only after verification", line=r.lineno)
            continue
        if not isinstance(v, ast.Name):
            ctx.violated("C19.R2", vp, r.ast, "return value is neither a constant nor a tracked variable", line=r.lineno)
            continue
        defs = du.defs.get(v.id, [])
        trues = [d for d in defs if isinstance(d[1], ast.Constant) and d[1].value is True]
        others = [d for d in defs if not (isinstance(d[1], ast.Constant) and d[1].value in (True, False))]
        ok = bool(trues) and not others and all(d[0] not in pre and cfg.dominates(V.id, d[0]) for d in trues)
        ctx.check(ok, "C19.R2", vp, "`%s = True` only after kdf.verify completed normally" % v.id, "True can reach the return only through a successful verification",
                  witness=[norm(cfg.nodes[d[0]].ast) for d in defs], line=r.lineno)
        # the InvalidKey handler leaves False
        for t in enclosing_trys(ver[0])[:1]:
            for h in t.handlers:
                sets = [s for s in ast.walk(h) if isinstance(s, ast.Assign) and norm(s.targets[0]) == v.id]
                rz = [s for s in ast.walk(h) if isinstance(s, ast.Return)]
                ctx.check(all(isinstance(s.value, ast.Constant) and s.value.value is False for s in sets) and all(isinstance(x.value, ast.Constant) and x.value.value is False for x in rz),
                          "C19.R2", vp, "the %s handler leaves the result False" % norm(h.type), line=h.lineno)
        init = [d for d in defs if isinstance(d[1], ast.Constant) and d[1].value is False]
        ctx.check(len(init) >= 1 and all(d[0] in pre for d in init[:1]), "C19.R2", vp, "the result starts False")
    ctx.check([norm(a) for a in ver[0].args] == ["key_material", "expected"], "C19.R2", vp, "verify(pre-hashed password, expected digest)", witness=[norm(a) for a in ver[0].args])


def _scrypt(fi):
    cs = calls_named(fi, "Scrypt")
    return cs[0] if len(cs) == 1 else None


def r3(ctx):
    hp, vp = ctx.fn(HP), ctx.fn(VP)
    # parameter block
    p = [s for s in struct_sites(hp, ctx.folder) if s.kind == "pack"]
    u = [s for s in struct_sites(vp, ctx.folder) if s.kind == "unpack"]
    ok = len(p) == 1 and len(u) == 1 and fmt_fields(p[0].fmt) == fmt_fields(u[0].fmt) and fmt_fields(p[0].fmt)[0] == ">"
    ctx.check(ok, "C19.R3", hp, "parameter block: same struct format on both sides", witness={"pack": [s.fmt for s in p], "unpack": [s.fmt for s in u]})
    if ok:
        pa = [norm(a) for a in p[0].args]
        ua = [norm(e) for e in u[0].call._parent.targets[0].elts] if isinstance(u[0].call._parent, ast.Assign) and isinstance(u[0].call._parent.targets[0], ast.Tuple) else []
        ctx.check(pa == ["N", "r", "p", "Auth.SALT_LENGTH", "Auth.DIGEST_LENGTH"] and ua == ["N", "r", "p", "salt_length", "length"], "C19.R3", vp,
                  "parameters (N, r, p, salt length, digest length) in the same order", witness={"pack": pa, "unpack": ua})
    # header / separator / constants
    hdr = [n for n in walk_own(hp.node) if isinstance(n, ast.Assign) and norm(n.targets[0]) == "header"]
    okh = len(hdr) == 1 and norm(hdr[0].value) == "b'scrypt:1:' + base64.b64encode(params) + b':'"
    ctx.check(okh, "C19.R3", hp, "header = b'scrypt:1:' + b64(params) + b':'", witness=[norm(h.value) for h in hdr])
    sp = [c for c in walk_own(vp.node) if isinstance(c, ast.Call) and norm(c.func).endswith(".split")]
    oks = len(sp) == 1 and norm(sp[0].args[0]) == "b':'"
    ctx.check(oks, "C19.R3", vp, "fields are split on b':' (the writer's separator)", witness=[norm(s) for s in sp])
    import base64
    import string
    alphabet = set((string.ascii_letters + string.digits + "+/=").encode())
    ctx.check(ord(":") not in alphabet, "C19.R3", vp, "the separator is outside the base64 alphabet")
    chk = [n for n in walk_own(vp.node) if isinstance(n, ast.If) and "kind != b'scrypt'" in norm(n.test) and "version != b'1'" in norm(n.test) and any(isinstance(s, ast.Raise) for s in n.body)]
    ctx.check(len(chk) >= 1 and isinstance(chk[0].test, ast.BoolOp) and isinstance(chk[0].test.op, ast.Or), "C19.R3", vp, "kind and version are compared with the writer's constants (either mismatch raises)",
              witness=[norm(c.test) for c in chk])
    asg = {norm(n.targets[0]): norm(n.value) for n in walk_own(vp.node) if isinstance(n, ast.Assign)}
    ctx.check(asg.get("kind") == "parts[0]" and asg.get("version") == "parts[1]" and asg.get("params") == "base64.b64decode(parts[2])" and asg.get("data") == "base64.b64decode(parts[3])",
              "C19.R3", vp, "field positions: kind, version, params, data", witness={k: asg.get(k) for k in ("kind", "version", "params", "data")})
    # salt + out layout
    ft = [n for n in walk_own(hp.node) if isinstance(n, ast.Assign) and norm(n.targets[0]) == "footer"]
    ctx.check(len(ft) == 1 and norm(ft[0].value) == "base64.b64encode(salt + out)", "C19.R3", hp, "data = b64(salt + digest)", witness=[norm(f.value) for f in ft])
    ctx.check(asg.get("salt") == "data[:salt_length]" and asg.get("expected") == "data[salt_length:]", "C19.R3", vp, "salt = data[:salt_length], digest = data[salt_length:]",
              witness={k: asg.get(k) for k in ("salt", "expected")})
    rets = [norm(n.value) for n in walk_own(hp.node) if isinstance(n, ast.Return)]
    ctx.check(rets == ["(header + footer).decode('utf-8')"], "C19.R3", hp, "hash string = header + footer", witness=rets)
    ctx.check("password_hash.encode('utf-8')" in norm(sp[0].func) if sp else False, "C19.R3", vp, "the hash string is encoded with the writer's codec before splitting")
    # same pre-hash
    def prehash(fi):
        return [norm(n) for n in walk_own(fi.node) if isinstance(n, (ast.Assign, ast.Expr)) and ("digest" in norm(n)) and "hashes" in norm(n) or (isinstance(n, (ast.Assign, ast.Expr)) and norm(n).startswith(("digest.", "key_material =")))]
    a, b = prehash(hp), prehash(vp)
    ctx.check(a == b and len(a) == 3 and "SHA256" in a[0], "C19.R3", vp, "both sides pre-hash the password identically (SHA-256)", witness={"hash_password": a, "verify_password": b})
    # Scrypt argument order
    sh, sv = _scrypt(hp), _scrypt(vp)
    ok = sh is not None and sv is not None and [norm(x) for x in sh.args] == ["salt", "Auth.DIGEST_LENGTH", "N", "r", "p"] and [norm(x) for x in sv.args] == ["salt", "length", "N", "r", "p"]
    ctx.check(ok, "C19.R3", vp, "Scrypt(salt, length, N, r, p) on both sides", witness={"hash": [norm(x) for x in sh.args] if sh else None, "verify": [norm(x) for x in sv.args] if sv else None})
    der = calls_named(hp, "derive")
    ctx.check(len(der) == 1 and norm(der[0].args[0]) == "key_material" and isinstance(der[0]._parent, ast.Assign) and norm(der[0]._parent.targets[0]) == "out", "C19.R3", hp, "digest = kdf.derive(pre-hashed password)")
    # constants
    A = ctx.repo.cls("auth:Auth")
    sl, dl = ctx.folder.class_attr(A, "SALT_LENGTH"), ctx.folder.class_attr(A, "DIGEST_LENGTH")
    ctx.check(isinstance(sl, int) and isinstance(dl, int) and 8 <= sl <= 255 and 16 <= dl <= 255, "C19.R3", A, "salt and digest lengths fit their one-byte fields and are not trivially short", witness={"SALT_LENGTH": sl, "DIGEST_LENGTH": dl})
    nv = {norm(n.targets[0]): ctx.folder.fold(n.value, hp.module) for n in walk_own(hp.node) if isinstance(n, ast.Assign) and norm(n.targets[0]) in ("N", "r", "p")}
    ctx.check(nv == {"N": 16384, "r": 16, "p": 1}, "C19.R3", hp, "documented scrypt parameters N=16384, r=16, p=1 (fit the H/B/B fields)", witness=nv)


CSPRNG = ("os.urandom", "secrets.token_bytes")


def r4(ctx):
    hp = ctx.fn(HP)
    du = defuse_of(hp)
    sc = _scrypt(hp)
    if not ctx.require("C19.R4", hp, "Scrypt(...) call in hash_password", 1 if sc is not None else 0, 1):
        return
    A = ctx.repo.cls("auth:Auth")
    sl = ctx.folder.class_attr(A, "SALT_LENGTH")
    arg = sc.args[0] if sc.args else None
    wit = []
    ok = isinstance(arg, ast.Name)
    if ok:
        node = du.cfg.node_of(sc)
        defs = du.reaching(arg.id, node.id)
        ok = bool(defs)
        for d in defs:
            v = d[1]
            wit.append(norm(v) if isinstance(v, ast.AST) else str(d[0]))
            fresh = isinstance(v, ast.Call) and norm(v.func) in CSPRNG and len(v.args) == 1 and not v.keywords \
                and ctx.folder.fold(v.args[0], hp.module, cls=hp.cls) == sl and isinstance(sl, int)
            ok = ok and fresh
    elif isinstance(arg, ast.Call):
        wit.append(norm(arg))
    ctx.check(ok, "C19.R4", hp, "the salt given to scrypt is drawn from the OS random source (%s) with SALT_LENGTH bytes on every path, inside hash_password" % " / ".join(CSPRNG),
              "two hashes of one password differ", witness=wit)
    # the salt written into the hash string is that same value
    mod = ctx.repo.mod("auth")
    glob = [n for n in mod.tree.body if isinstance(n, ast.Assign) and any(c in norm(n) for c in CSPRNG)]
    cls_level = [n for n in A.node.body if isinstance(n, (ast.Assign, ast.AnnAssign)) and any(c in norm(n) for c in CSPRNG)]
    ctx.check(not glob and not cls_level, "C19.R4", hp, "no module-level or class-level (shared) salt")
    dflt = [norm(d) for d in hp.node.args.defaults + [k for k in hp.node.args.kw_defaults if k is not None] if any(c in norm(d) for c in CSPRNG)]
    ctx.check(not dflt, "C19.R4", hp, "no random value in a parameter default (evaluated once at import)", witness=dflt)


def r5(ctx):
    for q, params in ((HP, ["password"]), (VP, ["password", "password_hash"])):
        fi = ctx.fn(q)
        body = [s for s in fi.body if not (isinstance(s, ast.Expr) and isinstance(s.value, ast.Constant))]
        want = {"password": "bytes", "password_hash": "str"}
        for i, p in enumerate(params):
            s = body[i] if i < len(body) else None
            ok = isinstance(s, ast.If) and norm(s.test) == "not isinstance(%s, %s)" % (p, want[p]) and len(s.body) == 1 and isinstance(s.body[0], ast.Raise) and \
                isinstance(s.body[0].exc, ast.Call) and norm(s.body[0].exc.func) == "TypeError"
            ctx.check(ok, "C19.R5", fi, "%s: `%s` must be %s (TypeError), checked first" % (fi.name, p, want[p]), witness=norm(s.test) if isinstance(s, ast.If) else None)
        ctx.check(fi.is_static, "C19.R5", fi, "%s is a staticmethod" % fi.name)


def r6(ctx):
    vp = ctx.fn(VP)
    cfg = cfg_of(vp)
    ver = [c for c in calls_named(vp, "verify") if norm(c.func) == "kdf.verify"]
    sc = _scrypt(vp)
    if not ver or sc is None:
        return
    guards = [n for n in walk_own(vp.node) if isinstance(n, ast.If) and any(isinstance(s, ast.Raise) for s in n.body) and ("length" in norm(n.test) and "expected" in norm(n.test))]
    if not ctx.require("C19.R6", vp, "guard relating the embedded digest length to the embedded digest", len(guards), 1):
        return
    g = guards[0]
    alts = [norm(v) for v in (g.test.values if isinstance(g.test, ast.BoolOp) and isinstance(g.test.op, ast.Or) else [g.test])]
    nonempty = any(a in ("length < 1", "length <= 0", "length == 0", "not length", "len(expected) < 1", "len(expected) == 0", "not expected") for a in alts)
    match = any(a in ("len(expected) != length", "length != len(expected)") for a in alts)
    ctx.check(nonempty and match, "C19.R6", vp, "digest length >= 1 and equal to the length of the embedded digest, else ValueError",
              "with digest length 0 the derived key and the (empty) expected digest are equal for every password", witness=alts, line=g.lineno)
    rz = [s for s in g.body if isinstance(s, ast.Raise)][0]
    ctx.check(isinstance(rz.exc, ast.Call) and norm(rz.exc.func) == "ValueError", "C19.R6", vp, "the length guard raises ValueError", line=rz.lineno)
    gnodes = [n for n in cfg.nodes if n.kind == "test" and n.stmt is g]
    V = cfg.node_of(ver[0])
    ok = bool(gnodes) and all(cfg.edge_dominates(n.id, "F", V.id) for n in gnodes)
    ctx.check(ok, "C19.R6", vp, "every alternative of the length guard is false on the way to kdf.verify", line=g.lineno)
    # and the guarded names are the ones used
    ctx.check(norm(sc.args[1]) == "length" and norm(ver[0].args[1]) == "expected", "C19.R6", vp, "the validated length and digest are the ones handed to scrypt")


def r_idioms(ctx):
    from .common import repo_idioms
    repo_idioms(ctx, "C19.R7", ('auth',))


RULES = [("C19.R1", r1), ("C19.R2", r2), ("C19.R3", r3), ("C19.R4", r4), ("C19.R5", r5), ("C19.R6", r6), ("C19.R7", r_idioms)]
