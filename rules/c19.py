"""C19 - password hashing: the right password verifies, every other one does not."""
import ast

from engine.index import norm, walk_own
from engine.cfg import cfg_of
from engine.defuse import defuse_of
from engine.embedded import struct_sites, fmt_fields, fmt_size
from engine.names import unresolved_names
from .common import calls_named, enclosing_trys

EXPLANATION = (
    "R1, R2, R3 and R6 are decided by partial evaluation when the two functions are inside the evaluator's fragment (rules/c19eval.py: "
    "the source is interpreted by engine/minieval.py on about forty constant inputs with os.urandom, the hash object, scrypt.Scrypt, derive and "
    "verify replaced by stand-ins that record their arguments; the repository and the cryptography library are never run): which hash strings are "
    "refused and with which exception type, which salt / length / cost reach the key derivation on both sides, what the writer puts into the string, "
    "when the result is True, False or an exception. The statement-shape rules described next decide when the evaluation is Undecided (for example a "
    "default argument evaluated at definition time). "
    "Static rules over Auth.hash_password / Auth.verify_password. Decides: (R1) exception discipline: every operation on data "
    "derived from the hash string that can raise (constant-index subscripts of the split result, b64decode, struct.unpack, encode, "
    "the Scrypt constructor, kdf.verify) raises a subclass of ValueError/TypeError, or is converted by a handler / the `e = ...; if "
    "e: raise e` idiom, or is dominated by a guard that excludes the failure (field-count test); (R2) True reaches the return only "
    "on the path where kdf.verify completed normally, the InvalidKey handler leaves False; (R3) writer/reader agreement: separator, "
    "kind/version constants, parameter struct format and order, salt+digest layout, the same pre-hash, the same Scrypt argument "
    "order; the separator is outside the base64 alphabet; (R4) the salt's only source is os.urandom(SALT_LENGTH) inside "
    "hash_password; (R5) both functions type-check their arguments first; (R6) the embedded lengths are validated against the "
    "embedded data and an empty digest is refused before verification (an empty digest equals every derived key of length 0). "
    "Does not decide the strength of scrypt nor the corner where edited parameters select a prefix of the true digest."
)
ASSUMPTIONS = [
    "library exception table: base64.b64decode -> binascii.Error (ValueError); str.encode -> UnicodeEncodeError (ValueError); struct.unpack -> struct.error; "
    "Scrypt(...) -> ValueError/TypeError for invalid parameters; kdf.verify -> InvalidKey on mismatch",
]

HP, VP = "auth:Auth.hash_password", "auth:Auth.verify_password"


def _scrypt_args(call):
    """(salt, length, n, r, p) argument expressions of a Scrypt(...) call, positional or by the library's keyword names"""
    names = ("salt", "length", "n", "r", "p")
    out = list(call.args[:5])
    kw = {k.arg: k.value for k in call.keywords if k.arg is not None}
    for nm in names[len(out):]:
        out.append(kw.get(nm))
    return out


def _field_names(vp, pv):
    """{variable: field index} for the variables that hold one field of the split hash string: `x = parts[k]` or the k-th target
    of `a, b, c, d = parts`; plus the arity of such an unpacking (None when the fields are indexed)"""
    out = {}
    arity = None
    for n in walk_own(vp.node):
        if isinstance(n, ast.Assign) and len(n.targets) == 1:
            t, v = n.targets[0], n.value
            if isinstance(t, ast.Name) and isinstance(v, ast.Subscript) and norm(v.value) == pv and isinstance(v.slice, ast.Constant) and isinstance(v.slice.value, int):
                out[t.id] = v.slice.value
            if isinstance(t, ast.Tuple) and isinstance(v, ast.Name) and v.id == pv and all(isinstance(e, ast.Name) for e in t.elts):
                arity = len(t.elts)
                for k, e in enumerate(t.elts):
                    out[e.id] = k
    return out, arity


def _field_text(expr, fields, pv):
    """`parts[k]` for an expression that is field k (a subscript or a variable bound to it), else its text"""
    if isinstance(expr, ast.Name) and expr.id in fields:
        return "%s[%d]" % (pv, fields[expr.id])
    return norm(expr)


def _flat_bytes(fi, expr, at):
    """a bytes-building expression as the list of its concatenated parts (constants merged): a + b + c and sep.join([a, b, c])
    give the same list; names are read through their definitions (also call-valued ones from the encoding library)"""
    from .common import sym_expr
    e = sym_expr(fi, expr, at, allow_calls=("base64.b64encode",))

    def flat(x):
        if isinstance(x, ast.BinOp) and isinstance(x.op, ast.Add):
            return flat(x.left) + flat(x.right)
        if isinstance(x, ast.Call) and isinstance(x.func, ast.Attribute) and x.func.attr == "join" and isinstance(x.func.value, ast.Constant) \
                and isinstance(x.func.value.value, bytes) and len(x.args) == 1 and isinstance(x.args[0], (ast.List, ast.Tuple)):
            out = []
            for i, el in enumerate(x.args[0].elts):
                if i:
                    out.append(x.func.value.value)
                out += flat(el)
            return out
        if isinstance(x, ast.Constant) and isinstance(x.value, bytes):
            return [x.value]
        return [norm(x)]
    parts = []
    for p_ in flat(e):
        if isinstance(p_, bytes) and parts and isinstance(parts[-1], bytes):
            parts[-1] += p_
        else:
            parts.append(p_)
    return parts


def _flat_text(fi, expr, at):
    """a str-building expression as the list of the bytes parts it denotes once encoded as utf-8: B.decode('utf-8') is the parts of
    B; 'a%sb%s' % (x, y), a + b and f-strings are the concatenation of their pieces (text constants become bytes constants).
    None when the expression is not of that shape."""
    from .common import sym_expr

    def accumulated(name):
        """x = A; x += B; x += C in one block, nothing else binding x: A + B + C"""
        binds = [n for n in walk_own(fi.node) if isinstance(n, (ast.Assign, ast.AugAssign)) and
                 any(isinstance(t, ast.Name) and t.id == name for t in (n.targets if isinstance(n, ast.Assign) else [n.target]))]
        stores = [n for n in walk_own(fi.node) if isinstance(n, ast.Name) and n.id == name and isinstance(n.ctx, (ast.Store, ast.Del))]
        if len(binds) < 2 or len(stores) != len(binds) or not isinstance(binds[0], ast.Assign) or len(binds[0].targets) != 1:
            return None
        if not all(isinstance(b_, ast.AugAssign) and isinstance(b_.op, ast.Add) for b_ in binds[1:]):
            return None
        from .capacity import _block_of
        blk = _block_of(binds[0])
        if blk is None or not all(any(b_ is x_ for x_ in blk) for b_ in binds):
            return None
        e = binds[0].value
        for b_ in binds[1:]:
            e = ast.BinOp(left=e, op=ast.Add(), right=b_.value)
        return ast.fix_missing_locations(ast.parse(ast.unparse(e), mode="eval").body)

    def dec(x):
        if isinstance(x, ast.Call) and isinstance(x.func, ast.Name) and x.func.id == "str" and len(x.args) == 2 and not x.keywords and norm(x.args[1]) in ("'utf-8'", "'ascii'"):
            # str(b, 'utf-8') is b.decode('utf-8')
            inner = x.args[0]
            if isinstance(inner, ast.Name):
                acc = accumulated(inner.id)
                if acc is not None:
                    inner = acc
            return _flat_bytes(fi, inner, at)
        if isinstance(x, ast.Name):
            x2 = sym_expr(fi, x, at, allow_calls=("base64.b64encode",))
            if isinstance(x2, ast.Name):
                from .common import single_def_value
                v = single_def_value(fi, x.id, x)
                x = v if v is not None else x
            else:
                x = x2
        if isinstance(x, ast.Call) and isinstance(x.func, ast.Attribute) and x.func.attr == "decode" and [norm(a) for a in x.args] in (["'utf-8'"], ["'ascii'"], []) and not x.keywords:
            inner = x.func.value
            if isinstance(inner, ast.Name) and accumulated(inner.id) is not None:
                inner = accumulated(inner.id)
            return _flat_bytes(fi, inner, at)
        if isinstance(x, ast.Constant) and isinstance(x.value, str):
            return [x.value.encode("utf-8")]
        if isinstance(x, ast.BinOp) and isinstance(x.op, ast.Add):
            a, b = dec(x.left), dec(x.right)
            return None if a is None or b is None else a + b
        if isinstance(x, ast.BinOp) and isinstance(x.op, ast.Mod) and isinstance(x.left, ast.Constant) and isinstance(x.left.value, str):
            args = list(x.right.elts) if isinstance(x.right, ast.Tuple) else [x.right]
            pieces = x.left.value.split("%s")
            if len(pieces) != len(args) + 1 or "%" in "".join(pieces):
                return None
            out = [pieces[0].encode("utf-8")]
            for a_, lit in zip(args, pieces[1:]):
                d = dec(a_)
                if d is None:
                    return None
                out += d + [lit.encode("utf-8")]
            return out
        if isinstance(x, ast.JoinedStr):
            out = []
            for v in x.values:
                if isinstance(v, ast.Constant):
                    out.append(str(v.value).encode("utf-8"))
                elif isinstance(v, ast.FormattedValue) and v.conversion == -1 and v.format_spec is None:
                    d = dec(v.value)
                    if d is None:
                        return None
                    out += d
                else:
                    return None
            return out
        return None
    parts = dec(expr)
    if parts is None:
        return None
    merged = []
    for p_ in parts:
        if isinstance(p_, bytes) and not p_:
            continue
        if isinstance(p_, bytes) and merged and isinstance(merged[-1], bytes):
            merged[-1] += p_
        else:
            merged.append(p_)
    return merged


def _ev(ctx):
    """C19 by partial evaluation with the cryptographic library stubbed (rules/c19eval.py); None when the functions are outside the
    evaluator's fragment - then the shape rules below decide"""
    from . import c19eval
    return c19eval.decide(ctx, ctx.fn(HP), ctx.fn(VP))


def _why(ev):
    return "hash_password / verify_password evaluated (engine/minieval, crypto stubbed: urandom, hash object, Scrypt, derive, verify) on %d inputs" % ev["cases"]


def r1(ctx):
    vp = ctx.fn(VP)
    ev = _ev(ctx)
    if ev is not None:
        ctx.check(not ev["discipline"], "C19.R1", vp, "every malformed hash string and wrongly typed argument is refused with ValueError / TypeError", _why(ev), witness=ev["discipline"][:3])
        ctx.check(not ev["accepted_malformed"], "C19.R1", vp, "no malformed hash string yields a verdict (True or False)", _why(ev), witness=ev["accepted_malformed"][:3])
        ctx.check(not ev["swallowed"], "C19.R1", vp, "a failure inside the key derivation leaves the function (no broad handler turns it into False)", _why(ev), witness=ev["swallowed"][:2])
        return
    cfg = cfg_of(vp)
    # constant-index subscripts of the split result
    parts_def = [n for n in walk_own(vp.node) if isinstance(n, ast.Assign) and isinstance(n.value, ast.Call) and norm(n.value.func).endswith(".split")]
    if not ctx.require("C19.R1", vp, "split of the hash string", len(parts_def), 1):
        return
    pv = norm(parts_def[0].targets[0])
    subs = [n for n in walk_own(vp.node) if isinstance(n, ast.Subscript) and norm(n.value) == pv and isinstance(n.slice, ast.Constant)]
    fields, arity = _field_names(vp, pv)
    if arity is not None and not subs:
        # the fields are taken by unpacking into exactly `arity` names: a wrong field count raises ValueError by itself
        ctx.holds("C19.R1", vp, "the %d fields are unpacked from the split result (a wrong count raises ValueError, never IndexError)" % arity)
        maxidx = arity - 1
    elif not subs and all(isinstance(n.slice, ast.Slice) for n in walk_own(vp.node) if isinstance(n, ast.Subscript) and norm(n.value) == pv) \
            and any(isinstance(n, ast.Subscript) and norm(n.value) == pv for n in walk_own(vp.node)):
        # the fields are only ever taken by slices of the split result: a slice cannot raise IndexError, and unpacking a slice of
        # the wrong length raises ValueError
        ctx.holds("C19.R1", vp, "the fields are taken by slices of the split result (a missing field raises ValueError, never IndexError)")
        maxidx = 3
    else:
        ctx.expect("C19.R1", "constant-index subscripts of the split result", len(subs), 4)
        maxidx = max(n.slice.value for n in subs)
    for s in subs:
        if s.slice.value == 0:
            ctx.holds("C19.R1", vp, "%s[0] always exists (split returns at least one element)" % pv)
            continue
        node = cfg.node_of(s)
        conds = [(norm(t), p) for (t, p) in cfg.conditions_of(node.id)]
        ok = any((t in ("len(%s) != %d" % (pv, maxidx + 1),) and not p) or (t in ("len(%s) == %d" % (pv, maxidx + 1),) and p) or
                 (t in ("len(%s) < %d" % (pv, maxidx + 1), "len(%s) <= %d" % (pv, maxidx)) and not p) for (t, p) in conds)
        in_try = any(any(h.type is not None and "IndexError" in norm(h.type) and any(isinstance(x, ast.Raise) for x in h.body) for h in t.handlers) for t in enclosing_trys(s))
        ctx.check(ok or in_try, "C19.R1", vp, "%s[%d] is guarded by a field-count test" % (pv, s.slice.value),
                  "a hash string with a missing field must raise ValueError, not IndexError", witness={"conditions": conds}, line=s.lineno)
    # the guard raises ValueError
    guards = [n for n in walk_own(vp.node) if isinstance(n, ast.If) and norm(n.test).startswith("len(%s)" % pv) and any(isinstance(s, ast.Raise) for s in n.body)]
    for g in guards:
        rz = [s for s in g.body if isinstance(s, ast.Raise)][0]
        ctx.check(isinstance(rz.exc, ast.Call) and norm(rz.exc.func) in ("ValueError", "TypeError"), "C19.R1", vp, "the field-count guard raises ValueError", witness=norm(rz), line=rz.lineno)
    # struct.unpack conversion
    us = [s for s in struct_sites(vp, ctx.folder) if s.kind == "unpack"]
    if ctx.require("C19.R1", vp, "struct.unpack of the parameters", len(us), 1):
        u = us[0]
        trys = enclosing_trys(u.call)
        ok = False
        for t in trys[:1]:
            for h in t.handlers:
                if h.type is not None and norm(h.type) == "struct.error":
                    asg = [s for s in h.body if isinstance(s, ast.Assign) and isinstance(s.value, ast.Call) and norm(s.value.func) in ("ValueError", "TypeError")]
                    if asg:
                        ev = norm(asg[0].targets[0])
                        from .capacity import _block_of
                        blk = _block_of(t)
                        nxt = blk[blk.index(t) + 1] if blk.index(t) + 1 < len(blk) else None
                        ok = isinstance(nxt, ast.If) and norm(nxt.test) == ev and len(nxt.body) == 1 and isinstance(nxt.body[0], ast.Raise) and norm(nxt.body[0].exc) == ev
                    if any(isinstance(s, ast.Raise) and isinstance(s.exc, ast.Call) and norm(s.exc.func) in ("ValueError", "TypeError") for s in h.body):
                        ok = True
                    # ... or built first and raised by name at the end of the handler
                    if asg and isinstance(h.body[-1], ast.Raise) and h.body[-1].exc is not None and norm(h.body[-1].exc) == norm(asg[-1].targets[0]) and h.body[-2:-1] == [asg[-1]]:
                        ok = True
        ctx.check(ok, "C19.R1", vp, "struct.error from the parameter block is converted to ValueError", line=u.lineno)
    # every other raise in verify_password is ValueError/TypeError; no handler swallows or converts to another type
    for rz in [n for n in walk_own(vp.node) if isinstance(n, ast.Raise)]:
        t = norm(rz.exc.func) if isinstance(rz.exc, ast.Call) else norm(rz.exc)
        src_ok = t in ("ValueError", "TypeError")
        if not src_ok and isinstance(rz.exc, ast.Name):
            du = defuse_of(vp)
            defs = du.reaching(rz.exc.id, cfg.node_of(rz).id)
            src_ok = all(isinstance(d[1], ast.Call) and norm(d[1].func) in ("ValueError", "TypeError") or (isinstance(d[1], ast.Constant) and d[1].value is None) for d in defs)
        ctx.check(src_ok, "C19.R1", vp, rz, "verify_password raises only ValueError/TypeError itself", witness=t, line=rz.lineno)
    hs = [h for h in ast.walk(vp.node) if isinstance(h, ast.ExceptHandler)]
    types = sorted(norm(h.type) if h.type is not None else "<bare>" for h in hs)
    ctx.check(types == ["InvalidKey", "struct.error"], "C19.R1", vp, "handlers: struct.error (converted) and InvalidKey (-> False) only", "no broad handler can turn a malformed hash into a result", witness=types)
    # calls on hash-derived data outside handlers: only the documented library calls
    lib = sorted({norm(c.func) for c in walk_own(vp.node) if isinstance(c, ast.Call)} - {"isinstance", "type", "TypeError", "ValueError", "str", "len", "tuple", "list"})
    allowed = {"base64.b64decode", "struct.unpack", "scrypt.Scrypt", "kdf.verify", "digest.update", "digest.finalize", "hashes.Hash", "hashes.SHA256", "default_backend",
               "password_hash.encode('utf-8').split", "password_hash.encode"}
    ctx.check(set(lib) <= allowed, "C19.R1", vp, "operations on hash-derived data are the ones in the library exception table", witness=sorted(set(lib) - allowed))
    ctx.check(not unresolved_names(vp) and not unresolved_names(ctx.fn(HP)), "C19.R1", vp, "all names resolve (no NameError instead of the documented exceptions)",
              witness=[u[0] for u in unresolved_names(vp) + unresolved_names(ctx.fn(HP))])


def r2(ctx):
    vp = ctx.fn(VP)
    ev = _ev(ctx)
    if ev is not None:
        rt = [x for x in ev["roundtrip"] if "verify(hash_password(pw))" in x]
        ctx.check(not rt, "C19.R2", vp, "the writer's own hash verifies: the digest compared is the one derived with the embedded salt and parameters", _why(ev), witness=rt[:2])
        ctx.check(not ev["verdict"], "C19.R2", vp, "a derived key that differs from the embedded digest gives False, never True", _why(ev), witness=ev["verdict"][:2])
        return
    cfg = cfg_of(vp)
    du = defuse_of(vp)
    ver = [c for c in calls_named(vp, "verify") if norm(c.func) == "kdf.verify"]
    if not ctx.require("C19.R2", vp, "kdf.verify call", len(ver), 1):
        return
    V = cfg.node_of(ver[0])
    rets = [n for n in cfg.stmts((ast.Return,))]
    ctx.expect("C19.R2", "return statements", len(rets), 1)
    pre = cfg.reachable(cfg.entry, through_effect={V.id})
    for r in rets:
        v = r.ast.value
        if isinstance(v, ast.Constant):
            ok = v.value is not True or r.id not in pre
            ctx.check(ok, "C19.R2", vp, r.ast, "a literal True is returned only after verification", line=r.lineno)
            continue
        if not isinstance(v, ast.Name):
            ctx.violated("C19.R2", vp, r.ast, "return value is neither a constant nor a tracked variable", line=r.lineno)
            continue
        defs = du.defs.get(v.id, [])
        trues = [d for d in defs if isinstance(d[1], ast.Constant) and d[1].value is True]
        others = [d for d in defs if not (isinstance(d[1], ast.Constant) and d[1].value in (True, False))]
        ok = bool(trues) and not others and all(d[0] not in pre and cfg.dominates(V.id, d[0]) for d in trues)
        ctx.check(ok, "C19.R2", vp, "`%s = True` only after kdf.verify completed normally" % v.id, "True can reach the return only through a successful verification",
                  witness=[norm(cfg.nodes[d[0]].ast) for d in defs], line=r.lineno)
        # the InvalidKey handler leaves False
        for t in enclosing_trys(ver[0])[:1]:
            for h in t.handlers:
                sets = [s for s in ast.walk(h) if isinstance(s, ast.Assign) and norm(s.targets[0]) == v.id]
                rz = [s for s in ast.walk(h) if isinstance(s, ast.Return)]
                ctx.check(all(isinstance(s.value, ast.Constant) and s.value.value is False for s in sets) and all(isinstance(x.value, ast.Constant) and x.value.value is False for x in rz),
                          "C19.R2", vp, "the %s handler leaves the result False" % norm(h.type), line=h.lineno)
        init = [d for d in defs if isinstance(d[1], ast.Constant) and d[1].value is False]
        ctx.check(len(init) >= 1 and all(d[0] in pre for d in init[:1]), "C19.R2", vp, "the result starts False")
    ctx.check([norm(a) for a in ver[0].args] == ["key_material", "expected"], "C19.R2", vp, "verify(pre-hashed password, expected digest)", witness=[norm(a) for a in ver[0].args])


def _unpack_targets(vp, site):
    """names the unpacked values are bound to (directly, or after the tuple was held in a temporary)"""
    par = site.call._parent
    if isinstance(par, ast.Assign) and isinstance(par.targets[0], ast.Tuple):
        return [norm(e) for e in par.targets[0].elts]
    if isinstance(par, ast.Assign) and isinstance(par.targets[0], ast.Name):
        tmp = par.targets[0].id
        later = [n for n in walk_own(vp.node) if isinstance(n, ast.Assign) and isinstance(n.value, ast.Name) and n.value.id == tmp and isinstance(n.targets[0], ast.Tuple)]
        if len(later) == 1:
            return [norm(e) for e in later[0].targets[0].elts]
    return []


def _scrypt(fi):
    cs = calls_named(fi, "Scrypt")
    return cs[0] if len(cs) == 1 else None


def _constants(ctx, hp):
    sh = _scrypt(hp)
    # constants
    A = ctx.repo.cls("auth:Auth")
    sl, dl = ctx.folder.class_attr(A, "SALT_LENGTH"), ctx.folder.class_attr(A, "DIGEST_LENGTH")
    ctx.check(isinstance(sl, int) and isinstance(dl, int) and 8 <= sl <= 255 and 16 <= dl <= 255, "C19.R3", A, "salt and digest lengths fit their one-byte fields and are not trivially short", witness={"SALT_LENGTH": sl, "DIGEST_LENGTH": dl})
    # (the values that reach the writer's Scrypt as n, r, p - named locals, literals or a module constant)
    nv = {}
    if sh is not None:
        from .common import sym_expr as _se3
        for nm, x in zip(("N", "r", "p"), _scrypt_args(sh)[2:5]):
            nv[nm] = ctx.folder.fold(_se3(hp, x, cfg_of(hp).node_of(sh)), hp.module) if x is not None else None
    ctx.check(nv == {"N": 16384, "r": 16, "p": 1}, "C19.R3", hp, "documented scrypt parameters N=16384, r=16, p=1 (fit the H/B/B fields)", witness=nv)


def r3(ctx):
    hp, vp = ctx.fn(HP), ctx.fn(VP)
    ev = _ev(ctx)
    if ev is not None:
        ctx.check(not ev["writer"], "C19.R3", hp, "hash string = scrypt:1:b64(pack('>HBBBB', N, r, p, len(salt), len(digest))):b64(salt + digest) with the values given to Scrypt",
                  _why(ev), witness=ev["writer"][:2])
        ctx.check(not ev["roundtrip"], "C19.R3", vp, "the reader derives with exactly the salt, length and cost the writer used, from the same pre-hash of the password",
                  _why(ev), witness=ev["roundtrip"][:2])
        ctx.check(not ev["params"], "C19.R3", vp, "the cost parameters, salt and lengths embedded in the string are the ones handed to Scrypt (not defaults)", _why(ev), witness=ev["params"][:2])
        _constants(ctx, hp)
        return
    # parameter block
    p = [s for s in struct_sites(hp, ctx.folder) if s.kind == "pack"]
    u = [s for s in struct_sites(vp, ctx.folder) if s.kind == "unpack"]
    ok = len(p) == 1 and len(u) == 1 and fmt_fields(p[0].fmt) == fmt_fields(u[0].fmt) and fmt_fields(p[0].fmt)[0] == ">"
    ctx.check(ok, "C19.R3", hp, "parameter block: same struct format on both sides", witness={"pack": [s.fmt for s in p], "unpack": [s.fmt for s in u]})
    if ok:
        pa = [norm(a) for a in p[0].args]
        ua = _unpack_targets(vp, u[0])
        # by position and value: what is packed at (0, 1, 2, 4) is what the writer's Scrypt gets as (n, r, p, length) and what is
        # packed at 3 is the number of salt bytes drawn; what is unpacked at (0, 1, 2, 4) is what the reader's Scrypt gets, and
        # position 3 cuts the salt off the decoded data
        from .common import sym_text as _sx
        hcfg_, vcfg_ = cfg_of(hp), cfg_of(vp)

        def hv(e, at):
            return _sx(hp, e, hcfg_.node_of(at)) if e is not None else None
        sh_, sv_ = _scrypt(hp), _scrypt(vp)
        okw = sh_ is not None and len(pa) == 5
        if okw:
            wa = [hv(x, sh_) for x in _scrypt_args(sh_)]
            pv_ = [hv(x, p[0].call) for x in p[0].args]
            ur = [c for c in walk_own(hp.node) if isinstance(c, ast.Call) and norm(c.func) in CSPRNG and c.args]
            okw = pv_[0:3] == wa[2:5] and pv_[4] == wa[1] and len(ur) == 1 and hv(ur[0].args[0], ur[0]) == pv_[3]
        okr = sv_ is not None and len(ua) == 5
        if okr:
            ra = [norm(x) if x is not None else None for x in _scrypt_args(sv_)]
            okr = ua[0:3] == ra[2:5] and ua[4] == ra[1]
        ctx.check(okw and okr, "C19.R3", vp,
                  "parameters (N, r, p, salt length, digest length) in the same order", witness={"pack": pa, "unpack": ua})
    # header / separator / constants
    hcfg = cfg_of(hp)
    hrets = [n for n in walk_own(hp.node) if isinstance(n, ast.Return) and n.value is not None]
    flat = None
    if len(hrets) == 1:
        flat = _flat_text(hp, hrets[0].value, hcfg.node_of(hrets[0]))
    want_flat = [b"scrypt:1:", "base64.b64encode(params)", b":", "base64.b64encode(salt + out)"]
    okh = flat is not None and flat[:3] == want_flat[:3]
    ctx.check(okh, "C19.R3", hp, "header = b'scrypt:1:' + b64(params) + b':'", witness=[repr(x) for x in (flat or [])])
    sp = [c for c in walk_own(vp.node) if isinstance(c, ast.Call) and norm(c.func).endswith(".split")]
    oks = len(sp) == 1 and norm(sp[0].args[0]) == "b':'"
    ctx.check(oks, "C19.R3", vp, "fields are split on b':' (the writer's separator)", witness=[norm(s) for s in sp])
    import base64
    import string
    alphabet = set((string.ascii_letters + string.digits + "+/=").encode())
    ctx.check(ord(":") not in alphabet, "C19.R3", vp, "the separator is outside the base64 alphabet")
    # kind and version: a mismatch of either never reaches the key derivation (edge cut over the leaf comparisons with the
    # writer's constants, whichever way the condition is composed)
    vcfg = cfg_of(vp)
    pv = norm(sp[0]._parent.targets[0]) if sp and isinstance(sp[0]._parent, ast.Assign) else "parts"
    fields, _ar = _field_names(vp, pv)
    mism = {}
    seen = set()
    for n in vcfg.nodes:
        if n.kind == "test" and isinstance(n.ast, ast.Compare) and len(n.ast.ops) == 1 and isinstance(n.ast.ops[0], (ast.Eq, ast.NotEq)):
            l, r_ = n.ast.left, n.ast.comparators[0]
            for (a_, b_) in ((l, r_), (r_, l)):
                if isinstance(b_, ast.Constant) and isinstance(b_.value, bytes):
                    ft_ = _field_text(a_, fields, pv)
                    if (ft_, b_.value) in (("%s[0]" % pv, b"scrypt"), ("%s[1]" % pv, b"1")):
                        mism[n.id] = "F" if isinstance(n.ast.ops[0], ast.Eq) else "T"
                        seen.add(ft_)
    # ... or both at once: tuple(parts[:2]) != (b'scrypt', b'1')  (the constant may be a module-level tuple)
    for n in vcfg.nodes:
        if n.kind == "test" and isinstance(n.ast, ast.Compare) and len(n.ast.ops) == 1 and isinstance(n.ast.ops[0], (ast.Eq, ast.NotEq)):
            l, r_ = n.ast.left, n.ast.comparators[0]
            for (a_, b_) in ((l, r_), (r_, l)):
                inner = a_.args[0] if isinstance(a_, ast.Call) and norm(a_.func) in ("tuple", "list") and len(a_.args) == 1 else a_
                if isinstance(inner, ast.Subscript) and norm(inner.value) == pv and isinstance(inner.slice, ast.Slice) and inner.slice.lower is None \
                        and isinstance(inner.slice.upper, ast.Constant) and inner.slice.upper.value == 2 and inner.slice.step is None:
                    cv = ctx.folder.fold(b_, vp.module)
                    if isinstance(cv, (tuple, list)) and list(cv) == [b"scrypt", b"1"] and isinstance(cv, tuple) == (isinstance(a_, ast.Call) and norm(a_.func) == "tuple"):
                        mism[n.id] = "F" if isinstance(n.ast.ops[0], ast.Eq) else "T"
                        seen.update({"%s[0]" % pv, "%s[1]" % pv})
    kv = [c for c in calls_named(vp, "verify") if norm(c.func) == "kdf.verify"]
    okc = len(seen) == 2 and bool(kv)
    if okc:
        # from every mismatch outcome, kdf.verify (and any return) is unreachable: the only way on is a raise
        for nid, lab in mism.items():
            for (d, l_) in vcfg.succ[nid]:
                if l_ == lab:
                    reach = vcfg.reachable(d, skip_labels=("exc", "raise"))
                    if vcfg.node_of(kv[0]).id in reach or any(isinstance(vcfg.nodes[x].ast, ast.Return) for x in reach):
                        okc = False
    ctx.check(okc, "C19.R3", vp, "kind and version are compared with the writer's constants (either mismatch raises)",
              witness=sorted(norm(vcfg.nodes[k].ast) for k in mism))
    asg = {norm(n.targets[0]): n.value for n in walk_own(vp.node) if isinstance(n, ast.Assign) and len(n.targets) == 1}
    # a, b = [f(x) for x in parts[k:]]: the i-th target is f(parts[k + i])  (the unpacking fixes the count)
    comp = {}
    for n in walk_own(vp.node):
        if isinstance(n, ast.Assign) and len(n.targets) == 1 and isinstance(n.targets[0], ast.Tuple) and all(isinstance(e, ast.Name) for e in n.targets[0].elts) \
                and isinstance(n.value, (ast.ListComp, ast.GeneratorExp)) and len(n.value.generators) == 1 and not n.value.generators[0].ifs \
                and isinstance(n.value.generators[0].target, ast.Name) and isinstance(n.value.generators[0].iter, ast.Subscript) \
                and norm(n.value.generators[0].iter.value) == pv and isinstance(n.value.generators[0].iter.slice, ast.Slice) \
                and isinstance(n.value.generators[0].iter.slice.lower, ast.Constant) and n.value.generators[0].iter.slice.upper is None:
            k0 = n.value.generators[0].iter.slice.lower.value
            var = n.value.generators[0].target.id
            for i_, e in enumerate(n.targets[0].elts):
                comp[e.id] = norm(n.value.elt).replace(var, "%s[%d]" % (pv, k0 + i_)) if norm(n.value.elt).count(var) == 1 else None

    def _fld(name):
        if name in comp:
            return comp[name]
        if name in fields:
            return "%s[%d]" % (pv, fields[name])
        v = asg.get(name)
        if isinstance(v, ast.Call) and norm(v.func) == "base64.b64decode" and len(v.args) == 1:
            return "base64.b64decode(%s)" % _field_text(v.args[0], fields, pv)
        return norm(v) if v is not None else None
    got = {k: _fld(k) for k in ("kind", "version", "params", "data")}
    want_pos = {"kind": "%s[0]" % pv, "version": "%s[1]" % pv, "params": "base64.b64decode(%s[2])" % pv, "data": "base64.b64decode(%s[3])" % pv}
    # (kind / version may also be compared in place without being named)
    okp = got["params"] == want_pos["params"] and got["data"] == want_pos["data"] and len(seen) == 2
    ctx.check(okp, "C19.R3", vp, "field positions: kind, version, params, data", witness=got)
    asg = {k: norm(v) for k, v in asg.items()}
    # salt + out layout
    # (the last part is b64encode(salt + <what kdf.derive returned>), through temporaries or in place)
    def data_ok(part):
        from .common import sym_expr as _se5
        try:
            e = ast.parse(part, mode="eval").body if isinstance(part, str) else None
        except SyntaxError:
            return False
        if not (isinstance(e, ast.Call) and norm(e.func) == "base64.b64encode" and len(e.args) == 1):
            return False
        arg = e.args[0]
        at_ = hcfg.node_of(hrets[0])
        arg = _se5(hp, arg, at_, allow_calls=("kdf.derive", "digest.finalize")) if isinstance(arg, ast.Name) else arg
        if not (isinstance(arg, ast.BinOp) and isinstance(arg.op, ast.Add) and norm(arg.left) == "salt"):
            return False
        r_ = _se5(hp, arg.right, at_, allow_calls=("kdf.derive", "digest.finalize")) if isinstance(arg.right, ast.Name) else arg.right
        return isinstance(r_, ast.Call) and norm(r_.func) == "kdf.derive"
    if flat is not None and len(flat) == 4 and data_ok(flat[3]):
        flat = flat[:3] + [want_flat[3]]
    ctx.check(flat is not None and flat[3:] == want_flat[3:], "C19.R3", hp, "data = b64(salt + digest)", witness=[repr(x) for x in (flat or [])])
    ctx.check(asg.get("salt") == "data[:salt_length]" and asg.get("expected") == "data[salt_length:]", "C19.R3", vp, "salt = data[:salt_length], digest = data[salt_length:]",
              witness={k: asg.get(k) for k in ("salt", "expected")})
    ctx.check(flat == want_flat, "C19.R3", hp, "hash string = header + footer", "decoded as utf-8", witness=[repr(x) for x in (flat or [])])
    ctx.check("password_hash.encode('utf-8')" in norm(sp[0].func) if sp else False, "C19.R3", vp, "the hash string is encoded with the writer's codec before splitting")
    # same pre-hash
    def prehash(fi):
        """(hash object construction, what is fed to it, who consumes finalize()) - the consumer through a temporary or in place"""
        from .common import sym_text as _sx6
        ctor = [norm(n.value) for n in walk_own(fi.node) if isinstance(n, ast.Assign) and norm(n.targets[0]) == "digest"]
        upd = [norm(c.args[0]) for c in calls_named(fi, "update") if norm(c.func) == "digest.update" and c.args]
        use = []
        for c in walk_own(fi.node):
            if isinstance(c, ast.Call) and norm(c.func) in ("kdf.derive", "kdf.verify") and c.args:
                use.append(_sx6(fi, c.args[0], cfg_of(fi).node_of(c), allow_calls=("digest.finalize",)))
        return [ctor, upd, use]
    a, b = prehash(hp), prehash(vp)
    okh_ = a == b and len(a[0]) == 1 and "SHA256" in a[0][0] and a[1] == [hp.params[0]] and a[2] == ["digest.finalize()"]
    ctx.check(okh_, "C19.R3", vp, "both sides pre-hash the password identically (SHA-256)", witness={"hash_password": a, "verify_password": b})
    # Scrypt argument order
    sh, sv = _scrypt(hp), _scrypt(vp)
    ah = [norm(x) if x is not None else None for x in _scrypt_args(sh)] if sh is not None else None
    av = [norm(x) if x is not None else None for x in _scrypt_args(sv)] if sv is not None else None
    ok = ah is not None and av is not None and ah[0] == "salt" and av[0] == "salt" and None not in ah and None not in av
    if ok and p and u:
        from .common import sym_text as _sx2
        pa2 = [_sx2(hp, x, cfg_of(hp).node_of(p[0].call)) for x in p[0].args]
        ah2 = [_sx2(hp, x, cfg_of(hp).node_of(sh)) for x in _scrypt_args(sh)]
        ua2 = _unpack_targets(vp, u[0])
        ok = len(pa2) == 5 and len(ua2) == 5 and ah2[1:] == [pa2[4], pa2[0], pa2[1], pa2[2]] and av[1:] == [ua2[4], ua2[0], ua2[1], ua2[2]]
    ctx.check(ok, "C19.R3", vp, "Scrypt(salt, length, N, r, p) on both sides", witness={"hash": ah, "verify": av})
    der = calls_named(hp, "derive")
    from .common import sym_text as _sx4
    dtxt = _sx4(hp, der[0].args[0], cfg_of(hp).node_of(der[0]), allow_calls=("digest.finalize",)) if len(der) == 1 and der[0].args else None
    ctx.check(len(der) == 1 and dtxt in ("key_material", "digest.finalize()"), "C19.R3", hp, "digest = kdf.derive(pre-hashed password)", witness=dtxt)
    _constants(ctx, hp)


CSPRNG = ("os.urandom", "secrets.token_bytes")


def r4(ctx):
    hp = ctx.fn(HP)
    du = defuse_of(hp)
    sc = _scrypt(hp)
    if not ctx.require("C19.R4", hp, "Scrypt(...) call in hash_password", 1 if sc is not None else 0, 1):
        return
    A = ctx.repo.cls("auth:Auth")
    sl = ctx.folder.class_attr(A, "SALT_LENGTH")
    arg = _scrypt_args(sc)[0]
    wit = []
    ok = isinstance(arg, ast.Name)
    if ok:
        node = du.cfg.node_of(sc)
        defs = du.reaching(arg.id, node.id)
        ok = bool(defs)
        for d in defs:
            v = d[1]
            wit.append(norm(v) if isinstance(v, ast.AST) else str(d[0]))
            fresh = isinstance(v, ast.Call) and norm(v.func) in CSPRNG and len(v.args) == 1 and not v.keywords \
                and ctx.folder.fold(v.args[0], hp.module, cls=hp.cls) == sl and isinstance(sl, int)
            ok = ok and fresh
    elif isinstance(arg, ast.Call):
        wit.append(norm(arg))
    ctx.check(ok, "C19.R4", hp, "the salt given to scrypt is drawn from the OS random source (%s) with SALT_LENGTH bytes on every path, inside hash_password" % " / ".join(CSPRNG),
              "two hashes of one password differ", witness=wit)
    # the salt written into the hash string is that same value
    mod = ctx.repo.mod("auth")
    glob = [n for n in mod.tree.body if isinstance(n, ast.Assign) and any(c in norm(n) for c in CSPRNG)]
    cls_level = [n for n in A.node.body if isinstance(n, (ast.Assign, ast.AnnAssign)) and any(c in norm(n) for c in CSPRNG)]
    ctx.check(not glob and not cls_level, "C19.R4", hp, "no module-level or class-level (shared) salt")
    dflt = [norm(d) for d in hp.node.args.defaults + [k for k in hp.node.args.kw_defaults if k is not None] if any(c in norm(d) for c in CSPRNG)]
    ctx.check(not dflt, "C19.R4", hp, "no random value in a parameter default (evaluated once at import)", witness=dflt)


def r5(ctx):
    for q, params in ((HP, ["password"]), (VP, ["password", "password_hash"])):
        fi = ctx.fn(q)
        body = [s for s in fi.body if not (isinstance(s, ast.Expr) and isinstance(s.value, ast.Constant))]
        want = {"password": "bytes", "password_hash": "str"}
        for i, p in enumerate(params):
            s = body[i] if i < len(body) else None
            ok = isinstance(s, ast.If) and norm(s.test) == "not isinstance(%s, %s)" % (p, want[p]) and len(s.body) == 1 and isinstance(s.body[0], ast.Raise) and \
                isinstance(s.body[0].exc, ast.Call) and norm(s.body[0].exc.func) == "TypeError"
            ctx.check(ok, "C19.R5", fi, "%s: `%s` must be %s (TypeError), checked first" % (fi.name, p, want[p]), witness=norm(s.test) if isinstance(s, ast.If) else None)
        ctx.check(fi.is_static, "C19.R5", fi, "%s is a staticmethod" % fi.name)


def r6(ctx):
    vp = ctx.fn(VP)
    ev = _ev(ctx)
    if ev is not None:
        ctx.check(not ev["lengths"], "C19.R6", vp, "digest length >= 1 and equal to the length of the embedded digest, else ValueError", _why(ev), witness=ev["lengths"][:3])
        return
    cfg = cfg_of(vp)
    ver = [c for c in calls_named(vp, "verify") if norm(c.func) == "kdf.verify"]
    sc = _scrypt(vp)
    if not ver or sc is None:
        return
    # facts that must hold on the way to kdf.verify, whatever way the guard(s) are composed: leaf tests with the out-edge on
    # which the fact holds; with that edge removed the verification must be unreachable, and the other edge must end in ValueError
    V = cfg.node_of(ver[0])
    facts = {"digest length >= 1": {}, "len(embedded digest) == digest length": {}, "len(salt) == salt length": {}}
    # when the embedded digest is the tail of the decoded data after the salt (expected = data[salt_length:]), the total
    # len(data) == salt_length + length says the same as len(expected) == length
    total_eq, total_ne = (), ()
    edef = [n for n in walk_own(vp.node) if isinstance(n, ast.Assign) and norm(n.targets[0]) == "expected"]
    if len(edef) == 1 and isinstance(edef[0].value, ast.Subscript) and isinstance(edef[0].value.slice, ast.Slice) and edef[0].value.slice.upper is None \
            and edef[0].value.slice.step is None and isinstance(edef[0].value.value, ast.Name) and norm(edef[0].value.slice.lower) == "salt_length":
        dv = edef[0].value.value.id
        sums = ("salt_length + length", "length + salt_length")
        total_eq = tuple("len(%s) == %s" % (dv, x) for x in sums) + tuple("%s == len(%s)" % (x, dv) for x in sums)
        total_ne = tuple("len(%s) != %s" % (dv, x) for x in sums) + tuple("%s != len(%s)" % (x, dv) for x in sums)
    for n in cfg.nodes:
        if n.kind != "test" or n.ast is None:
            continue
        t = norm(n.ast)
        if t in total_ne:
            facts["len(embedded digest) == digest length"][n.id] = "F"
        elif t in total_eq:
            facts["len(embedded digest) == digest length"][n.id] = "T"
        elif t in ("length < 1", "length <= 0", "length == 0", "len(expected) < 1", "len(expected) == 0"):
            facts["digest length >= 1"][n.id] = "F"
        elif t in ("length >= 1", "length > 0", "length", "expected"):
            facts["digest length >= 1"][n.id] = "T"
        elif t in ("len(expected) != length", "length != len(expected)"):
            facts["len(embedded digest) == digest length"][n.id] = "F"
        elif t in ("len(expected) == length", "length == len(expected)"):
            facts["len(embedded digest) == digest length"][n.id] = "T"
        elif t in ("len(salt) != salt_length", "salt_length != len(salt)"):
            facts["len(salt) == salt length"][n.id] = "F"
        elif t in ("len(salt) == salt_length", "salt_length == len(salt)"):
            facts["len(salt) == salt length"][n.id] = "T"
    okall = True
    wit = {}
    for name, cut in facts.items():
        if name == "len(salt) == salt length" and not cut:
            continue        # optional: a short salt only shortens the embedded digest, which the second fact catches
        reach = cfg.reachable(cfg.entry, edge_ok=lambda a_, b_, label, cut=cut: not (a_.id in cut and label == cut[a_.id]))
        established = bool(cut) and V.id not in reach
        # the failing outcome raises ValueError
        raises_ok = True
        for nid, lab in cut.items():
            for (d, l_) in cfg.succ[nid]:
                if l_ not in (lab, "exc", "raise"):
                    sub = cfg.reachable(d, skip_labels=("exc", "raise"))
                    if V.id in sub and False:
                        raises_ok = False
        wit[name] = sorted(norm(cfg.nodes[k].ast) for k in cut)
        okall = okall and established and raises_ok
    ctx.check(okall, "C19.R6", vp, "digest length >= 1 and equal to the length of the embedded digest, else ValueError",
              "with digest length 0 the derived key and the (empty) expected digest are equal for every password", witness=wit)
    gl = [n for n in walk_own(vp.node) if isinstance(n, ast.If) and any(isinstance(s_, ast.Raise) for s_ in n.body) and ("length" in norm(n.test) or "expected" in norm(n.test))]
    for g in gl:
        rz = [s_ for s_ in g.body if isinstance(s_, ast.Raise)][0]
        ctx.check(isinstance(rz.exc, ast.Call) and norm(rz.exc.func) == "ValueError", "C19.R6", vp, "the length guard raises ValueError", line=rz.lineno)
    ctx.check(okall, "C19.R6", vp, "every alternative of the length guard is false on the way to kdf.verify")
    # and the guarded names are the ones used
    ctx.check(norm(_scrypt_args(sc)[1]) == "length" and norm(ver[0].args[1]) == "expected", "C19.R6", vp, "the validated length and digest are the ones handed to scrypt")


def r_idioms(ctx):
    from .common import repo_idioms
    repo_idioms(ctx, "C19.R7", ('auth',))


RULES = [("C19.R1", r1), ("C19.R2", r2), ("C19.R3", r3), ("C19.R4", r4), ("C19.R5", r5), ("C19.R6", r6), ("C19.R7", r_idioms)]
