"""C05 - guaranteed sends are eventually delivered, for every size, from both APIs."""
import ast
import re

from engine.index import norm, walk_own
from engine.cfg import cfg_of
from engine.cond import CondCtx, satisfiable
from engine.defuse import defuse_of, attr_accesses
from engine.names import unresolved_names, possibly_unbound
from engine.fold import UNKNOWN, EnumVal
from .common import calls_named, package_calls, node_lits, enum_lit, resolve_arg, is_snapshot_of
from .capacity import capacity, MTUS

EXPLANATION = (
    "Structural preconditions of the liveness claim, decided from the source. (R1) capacity liveness for every MTU 512..1500 "
    "with the thresholds extracted from send(), FragmentSender.build(), Packet.setMTU() and the admission guards of "
    "_build_packet_impl: the largest unfragmented payload, an intermediate fragment and the largest last fragment each fit "
    "alone into an empty datagram (the accounted size comes from a linear abstract interpretation of the packing loops, the fragment "
    "lengths from an offset abstraction of FragmentSender.build evaluated at every boundary length), the split terminates; (R2) no unresolved name / possibly-unbound local in the send, "
    "pack, timeout and retry functions; (R3) both send_guaranteed APIs pass RETRY_ON_TIMEOUT, _send_type wraps the callback in "
    "RetrySender exactly then, the retry chain re-queues itself until success, fragments re-send while the caller's mode is "
    "not NONE; (R4) timeouts are evaluated on every send tick on both sides; (R5) a message leaves a queue only on the path "
    "that packs it and the packed list flows whole into the packet. Does not decide eventual delivery under arbitrary "
    "loss/reorder schedules (a liveness claim over histories)."
)
ASSUMPTIONS = [
    "the application keeps calling update() and the network eventually delivers datagrams (stated by the property)",
]

SEND_FUNCS = [
    "client:UdpClient.send", "client:UdpClient.send_guaranteed", "client:UdpClient.update",
    "connection:ServerClientConnection.send_guaranteed", "connection:ServerClientConnection.update",
    "connection:ConnectionBase.send", "connection:ConnectionBase._send_type", "connection:ConnectionBase._build_packet",
    "connection:ConnectionBase._build_packet_impl", "connection:ConnectionBase._check_timeout", "connection:ConnectionBase._encode_packet",
    "connection:ConnectionBase._handle_timeout", "connection:ConnectionBase._handle_ack", "connection:ConnectionBase._handle_ack_bits",
    "connection:RetrySender.__call__", "connection:RetrySender.__init__", "connection:FragmentSender.build",
    "connection:FragmentSender.callback", "connection:FragmentSender.__init__", "connection:PendingMessage.__init__",
    "connection:Packet.create", "connection:Packet.to_bytes", "connection:PacketHeader.to_bytes", "connection:PacketHeader.create",
]


def sweep(ctx, rule, name, what, pred, fmt, site):
    """evaluate pred(model) for every MTU; one obligation per named inequality"""
    cap = capacity(ctx)
    bad = []
    for mtu in MTUS:
        m = cap.at(mtu)
        if not pred(m, cap):
            bad.append(mtu)
    ctx.analysed["mtus"] = len(MTUS)
    w = None
    if bad:
        m = cap.at(bad[-1])
        w = {"failing_mtus": "%d of %d (first %d, last %d)" % (len(bad), len(MTUS), bad[0], bad[-1]), "at_mtu_%d" % bad[-1]: fmt(m, cap)}
    ctx.check(not bad, rule, site, name, what, witness=w, line=getattr(site, "lineno", 0))


def _parents_of(node, stop):
    out = []
    p = getattr(node, "_parent", None)
    while p is not None and p is not stop:
        out.append(p)
        p = getattr(p, "_parent", None)
    return out


def r1(ctx):
    from .capacity import stale_copies
    stale_copies(ctx, "C05.R1")
    cap = capacity(ctx)
    o1 = cap.overhead(1)
    fo = cap.FRAG_OVERHEAD
    bpi, snd, bld = cap.bpi, cap.send, cap.build
    ctx.check(all(m == "msg" or m for m in [g["msg"] for g in cap.guards]) and len(cap.guards) == 2, "C05.R1", bpi, "two admission guards (resend loop, new-message loop)",
              "both packing loops bound the datagram size", witness=[norm(g["if"].test) for g in cap.guards])
    for i, g in enumerate(cap.guards):
        tag = "resend" if i == 0 else "new"
        sweep(ctx, "C05.R1", "L1[%s] T_frag + overhead(1) <= CAP" % tag,
              "the largest payload that send() does not fragment fits alone into an empty datagram (else it stays queued for ever)",
              lambda m, c, i=i: c.size_alone(m, i, m["T_frag"]) <= m["CAPS"][i],
              lambda m, c, i=i: {"T_frag": m["T_frag"], "accounted_size_alone": c.size_alone(m, i, m["T_frag"]), "CAP": m["CAPS"][i], "guard": norm(c.guards[i]["if"].test)}, bpi)
        if cap.build_shape:
            sweep(ctx, "C05.R1", "L2[%s] F + FRAGMENT_OVERHEAD + overhead(1) <= CAP" % tag,
                  "an intermediate fragment (with its prefix) fits alone into an empty datagram",
                  lambda m, c, i=i: c.size_alone(m, i, max(m["F_set"]) + fo) <= m["CAPS"][i],
                  lambda m, c, i=i: {"F": m["F_set"], "FRAGMENT_OVERHEAD": fo, "accounted_size_alone": c.size_alone(m, i, max(m["F_set"]) + fo), "CAP": m["CAPS"][i]}, bpi)
            sweep(ctx, "C05.R1", "L3[%s] (L_last - 1) + FRAGMENT_OVERHEAD + overhead(1) <= CAP" % tag,
                  "the largest last fragment (with its prefix) fits alone into an empty datagram",
                  lambda m, c, i=i: c.size_alone(m, i, (m["L_last"] - 1) + fo) <= m["CAPS"][i],
                  lambda m, c, i=i: {"L_last": m["L_last"], "FRAGMENT_OVERHEAD": fo, "accounted_size_alone": c.size_alone(m, i, (m["L_last"] - 1) + fo), "CAP": m["CAPS"][i]}, bpi)
        sweep(ctx, "C05.R1", "Lc[%s] count guard admits a first message" % tag,
              "an empty datagram always admits one message",
              lambda m, c, i=i: m["COUNT_CAPS"][i] is None or m["COUNT_CAPS"][i] >= 1,
              lambda m, c, i=i: {"count_cap": m["COUNT_CAPS"][i]}, bpi)
    from .capacity import split_sweep
    stats, finds = split_sweep(ctx)
    what = "length abstraction of FragmentSender.build over %d payload lengths at %d MTUs (every boundary of the split; %s)" % (
        stats["lengths"], stats["mtus"], "all lengths of four periods at MTUs 512/1096/1097/1500" if ctx.tier == "thorough" else "boundary lengths")
    for kind, name, why in (("too_big", "S1 every fragment the split produces fits alone into an empty datagram", "a fragment that is never admitted stays queued for ever"),
                            ("nonterminating", "S2 the split loop terminates", "build() must return"),
                            ("raises", "S3 the split raises only above the fragmentation limit", "a payload within the limit is never refused")):
        f = finds[kind]
        ctx.check(not f, "C05.R1", bld, name, why + " - " + what,
                  witness={"failing_cases": len(f), "first": [{"mtu": x[0], "payload_length": x[1], "detail": x[2]} for x in f[:3]]})
    if cap.build_shape:
        sweep(ctx, "C05.R1", "L4 F >= 1", "the split loop makes progress and produces no empty fragment",
              lambda m, c: m["F"] >= 1 and len(m["F_set"]) == 1, lambda m, c: {"F": m["F_set"]}, bld)
        sweep(ctx, "C05.R1", "L5 a payload that is not the last fragment is longer than F",
              "when the last-fragment test fails the remainder is at least one full slice, so the loop never emits a short intermediate fragment",
              lambda m, c: m["L_last"] >= 1, lambda m, c: {"L_last": m["L_last"]}, bld)
    else:
        ctx.note("FragmentSender.build: the if/else shape of the split loop is not recognised; L2-L5 are decided by the length abstraction only")
    # the prefix really has FRAGMENT_OVERHEAD bytes (used by L2/L3)
    from engine.embedded import fmt_size
    ctx.check(fmt_size(cap.prefix_site.fmt) == fo, "C05.R1", bld, "calcsize(fragment prefix) == FRAGMENT_OVERHEAD", "the accounted prefix size is the real one",
              witness={"fmt": cap.prefix_site.fmt, "FRAGMENT_OVERHEAD": fo})
    # the packing loops scan the whole queue: the index advances on the non-admit path and the loop runs to len()
    # each admit statement sits in a loop that visits every element: `while idx < len(queue)` whose non-admit paths advance idx,
    # or a `for` over (a snapshot of) the queue; no break
    loops = []
    for g in cap.guards:
        st = g["if"].body[0] if g["if"].body else None
        lp = [p_ for p_ in _parents_of(st, bpi.node) if isinstance(p_, (ast.For, ast.While))] if st is not None else []
        loops.append(lp[0] if lp else None)
    ok = len(loops) == 2 and all(l is not None for l in loops)
    for l in loops:
        if l is None:
            continue
        if any(isinstance(x, ast.Break) for x in ast.walk(l)):
            ok = False
        if isinstance(l, ast.While):
            ok = ok and norm(l.test).startswith("idx < len(")
        else:
            ok = ok and ("pending_retry_msg" in norm(l.iter) or "outgoing_messages" in norm(l.iter))
    whiles = [l for l in loops if l is not None]
    ctx.check(ok, "C05.R1", bpi, "packing loops scan the whole queue", "first-fit: a message that does not fit is skipped, later ones are still tried",
              witness=[norm(w.test) if isinstance(w, ast.While) else norm(w.iter) for w in whiles])


def r2(ctx):
    n = 0
    for q in SEND_FUNCS:
        fi = ctx.fn(q)
        un = unresolved_names(fi)
        pu = possibly_unbound(fi)
        n += 1
        for (name, line, node) in un:
            ctx.violated("C05.R2", fi, "unresolved name `%s`" % name, "NameError on the send path: the message is never queued / packed / retried",
                         witness={"name": name}, line=line)
        seen = set()
        for (name, line, node) in pu:
            if name in seen:
                continue
            seen.add(name)
            ctx.violated("C05.R2", fi, "possibly unbound local `%s`" % name, "UnboundLocalError on the send path",
                         witness={"name": name}, line=line)
        if not un and not pu:
            ctx.holds("C05.R2", fi, "all names resolve", "no unresolved global and no possibly-unbound local")
    ctx.expect("C05.R2", "send-path functions analysed", n, 20)


def r3(ctx):
    repo = ctx.repo
    RM = "connection:RetryMode"
    for q, recv in (("client:UdpClient.send_guaranteed", "self.conn.send"), ("connection:ServerClientConnection.send_guaranteed", "self.send")):
        fi = ctx.fn(q)
        cs = [c for c in calls_named(fi, "send") if norm(c.func) == recv]
        if not ctx.require("C05.R3", fi, "%s(...) call" % recv, len(cs), 1):
            continue
        c = cs[0]
        kw = {k.arg: k.value for k in c.keywords}
        retry = kw.get("retry") or (c.args[1] if len(c.args) > 1 else None)
        v = ctx.folder.fold(retry, fi.module, cls=fi.cls) if retry is not None else UNKNOWN
        ctx.check(isinstance(v, EnumVal) and v.member == "RETRY_ON_TIMEOUT", "C05.R3", fi, c, "send_guaranteed passes RetryMode.RETRY_ON_TIMEOUT",
                  witness=norm(retry), line=c.lineno)
        pay = c.args[0] if c.args else kw.get("payload")
        ctx.check(pay is not None and norm(pay) == fi.params[1] and norm(kw.get("callback") or (c.args[2] if len(c.args) > 2 else None)) == fi.params[2],
                  "C05.R3", fi, "payload and callback are passed through", "arguments", line=c.lineno)
    # UdpClient.send forwards to the connection
    us = ctx.fn("client:UdpClient.send")
    cs = [c for c in calls_named(us, "send") if norm(c.func) == "self.conn.send"]
    ok = len(cs) == 1 and norm(cs[0].args[0]) == us.params[1] and {k.arg: norm(k.value) for k in cs[0].keywords} == {"retry": us.params[2], "callback": us.params[3]}
    ctx.check(ok, "C05.R3", us, "UdpClient.send forwards (msg, retry, callback)", "forwarding", witness=[norm(c) for c in cs])
    # _send_type wraps exactly under RETRY_ON_TIMEOUT
    st = ctx.fn("connection:ConnectionBase._send_type")
    cfg = cfg_of(st)
    cc = CondCtx(ctx.folder, st.module, st.cls)
    rs = calls_named(st, "RetrySender")
    if ctx.require("C05.R3", st, "RetrySender construction in _send_type", len(rs), 1):
        lits = node_lits(cfg, cfg.node_of(rs[0]).id, cc)
        not_rot = enum_lit(ctx.folder, repo, st.params[3], RM, ("RETRY_ON_TIMEOUT",), False)
        is_rot = enum_lit(ctx.folder, repo, st.params[3], RM, ("RETRY_ON_TIMEOUT",), True)
        ctx.check(not satisfiable(lits + [not_rot]) and satisfiable(lits + [is_rot]), "C05.R3", st, rs[0], "callback wrapped in RetrySender exactly when retry == RETRY_ON_TIMEOUT",
                  witness=[repr(l) for l in lits], line=rs[0].lineno)
        args = [norm(a) for a in rs[0].args]
        ctx.check(args == ["self", "self.seq_message", st.params[1], st.params[2], st.params[4]], "C05.R3", st, "RetrySender(self, seq, type, payload, callback)",
                  "the sender remembers what to re-send", witness=args)
        p = rs[0]._parent
        pm = calls_named(st, "PendingMessage")
        # by value: what reaches the message's callback slot is the RetrySender built above or the caller's callback as passed in
        # (in whichever local the two are merged)
        ok = isinstance(p, ast.Assign) and isinstance(p.targets[0], ast.Name) and len(pm) == 1 and len(pm[0].args) == 5 and isinstance(pm[0].args[3], ast.Name) \
            and norm(pm[0].args[4]) == st.params[3]
        if ok:
            V = pm[0].args[3].id
            du_ = defuse_of(st)
            defs = du_.reaching(V, cfg.node_of(pm[0]).id)
            kinds = set()
            for (nid, val, how) in defs:
                if nid == "ENTRY":
                    kinds.add("param" if V == st.params[4] else "unbound")
                elif val is rs[0]:
                    kinds.add("sender")
                elif isinstance(val, ast.Name) and val.id == st.params[4] and {d[0] for d in du_.reaching(st.params[4], nid)} == {"ENTRY"}:
                    kinds.add("param")
                else:
                    kinds.add("other")
            ok = kinds == {"param", "sender"} and p.targets[0].id == V
        ctx.check(ok, "C05.R3", st, "the queued message carries the (wrapped) callback and the retry mode", "PendingMessage(seq, type, payload, callback, retry)")
        ap = [c for c in calls_named(st, "append") if norm(c.func.value) == "self.outgoing_messages"]
        # (what is appended is the PendingMessage built here, through a temporary or directly)
        queued = len(ap) == 1 and ((isinstance(pm[0]._parent, ast.Assign) and norm(ap[0].args[0]) == norm(pm[0]._parent.targets[0])) or ap[0].args[0] is pm[0])
        ctx.check(queued and not cfg.conditions_of(cfg.node_of(ap[0]).id), "C05.R3", st, "the message is queued unconditionally", "outgoing_messages.append(msg)")
    # RetrySender.__call__: failure path re-queues itself with RETRY_ON_TIMEOUT
    call = ctx.fn("connection:RetrySender.__call__")
    ccfg = cfg_of(call)
    pms = calls_named(call, "PendingMessage")
    if ctx.require("C05.R3", call, "PendingMessage re-queue in RetrySender.__call__", len(pms), 1):
        pm = pms[0]
        args = [norm(a) for a in pm.args]
        v = ctx.folder.fold(pm.args[4], call.module, cls=call.cls) if len(pm.args) == 5 else UNKNOWN
        ctx.check(args[:4] == ["self.seq_message", "self.pkt_type", "self.payload", "self"] and isinstance(v, EnumVal) and v.member == "RETRY_ON_TIMEOUT",
                  "C05.R3", call, pm, "re-queued message = (stored seq, stored type, stored payload, this sender, RETRY_ON_TIMEOUT)", witness=args, line=pm.lineno)
        conds = [(norm(t), pol) for (t, pol) in ccfg.conditions_of(ccfg.node_of(pm).id)]
        sp = call.params[1]
        ok = (sp, False) in conds or ("not %s" % sp, True) in conds
        # the only other condition allowed is the one-shot flag being clear
        others = [(t, p) for (t, p) in conds if t != sp]
        # (a bare flag attribute of the sender itself - not a test on connection state, which can starve the chain: a message
        # skipped because "it is still parked in the resend queue" is in no queue at all once the timeout handler purges that entry)
        ok = ok and all(re.fullmatch(r"self\.[A-Za-z_][A-Za-z0-9_]*", t) is not None and p is False for (t, p) in others)
        ctx.check(ok, "C05.R3", call, "re-queue happens on every failure until the first success", "failure branch is `not success` (and the one-shot flag clear)", witness=conds)
        ap = [c for c in calls_named(call, "append") if norm(c.func.value) == "self.conn.outgoing_messages"]
        ctx.check(len(ap) == 1 and ccfg.dominates(ccfg.node_of(pm).id, ccfg.node_of(ap[0]).id), "C05.R3", call, "re-queue appends to conn.outgoing_messages", "append")
        # the one-shot flag is only set on success
        flags = [n for n in ccfg.stmts((ast.Assign,)) if norm(n.ast.targets[0]).startswith("self.") and norm(n.ast.value) == "True"]
        for n in flags:
            conds = [(norm(t), pol) for (t, pol) in ccfg.conditions_of(n.id)]
            ctx.check((sp, True) in conds, "C05.R3", call, n.ast, "the done flag is set only on success", witness=conds, line=n.lineno)
    init = ctx.fn("connection:RetrySender.__init__")
    assigns = {norm(n.targets[0]): norm(n.value) for n in walk_own(init.node) if isinstance(n, ast.Assign)}
    want = {"self.conn": init.params[1], "self.seq_message": init.params[2], "self.pkt_type": init.params[3], "self.payload": init.params[4], "self.callback": init.params[5]}
    ctx.check(all(assigns.get(k) == v for k, v in want.items()), "C05.R3", init, "RetrySender stores its five parameters", "stored values", witness=assigns)
    # fragments: send() keeps the caller's mode in the FragmentSender; callback re-sends while mode != NONE
    snd = ctx.fn("connection:ConnectionBase.send")
    fs = calls_named(snd, "FragmentSender")
    if ctx.require("C05.R3", snd, "FragmentSender construction in send()", len(fs), 1):
        scfg = cfg_of(snd)
        args = [norm(a) for a in fs[0].args]
        ctx.check(args == ["self", "self.seq_fragment", snd.params[2], snd.params[3]], "C05.R3", snd, "FragmentSender(self, seq_fragment, retry, callback)", "ctor args", witness=args)
        # retry not rebound before the construction (other than the int -> RetryMode normalisation)
        du = defuse_of(snd)
        defs = du.reaching(snd.params[2], scfg.node_of(fs[0]).id)
        vals = sorted(norm(d[1]) if isinstance(d[1], ast.AST) else str(d[0]) for d in defs)
        ctx.check(set(vals) <= {"ENTRY", "RetryMode(%s)" % snd.params[2]}, "C05.R3", snd, "FragmentSender keeps the caller's retry mode", "retry reaches the constructor unchanged", witness=vals)
    cb = ctx.fn("connection:FragmentSender.callback")
    cbcfg = cfg_of(cb)
    cbcc = CondCtx(ctx.folder, cb.module, cb.cls)
    pms = calls_named(cb, "PendingMessage") or calls_named(cb, "_send_type")
    if ctx.require("C05.R3", cb, "re-send in FragmentSender.callback", len(pms), 1):
        lits = node_lits(cbcfg, cbcfg.node_of(pms[0]).id, cbcc)
        texts = [repr(l) for l in lits]
        none_mode = enum_lit(ctx.folder, repo, "self.retry", RM, ("NONE",), True)
        fail = any(l.kind == "truth" and l.subject == cb.params[2] and not l.positive for l in lits)
        # re-send reachable for every mode other than NONE
        modes_ok = all(satisfiable(lits + [enum_lit(ctx.folder, repo, "self.retry", RM, (m,), True)]) for m in ("BEST_EFFORT", "RETRY_ON_TIMEOUT"))
        ctx.check(fail and modes_ok and not satisfiable(lits + [none_mode]), "C05.R3", cb, "a failed fragment is re-sent whenever the caller's mode is not NONE", witness=texts, line=pms[0].lineno)
    finit = ctx.fn("connection:FragmentSender.__init__")
    assigns = {norm(n.targets[0]): norm(n.value) for n in walk_own(finit.node) if isinstance(n, ast.Assign)}
    ctx.check(assigns.get("self.retry") == finit.params[3] and assigns.get("self.conn") == finit.params[1], "C05.R3", finit, "FragmentSender stores conn and retry", "stored values", witness=assigns)
    ws = [a for a in attr_accesses(repo, "retry") if a.kind in ("store", "aug") and a.fi.qual not in
          ("connection:FragmentSender.__init__", "connection:PendingMessage.__init__")]
    ctx.check(not ws, "C05.R3", finit, "no other writer of .retry", "the remembered mode never changes", witness=[repr(a) for a in ws])


def r4(ctx):
    up = ctx.fn("client:UdpClient.update")
    cfg = cfg_of(up)
    ct = calls_named(up, "_check_timeout")
    bp = calls_named(up, "_build_packet")
    if ctx.require("C05.R4", up, "_check_timeout call in UdpClient.update", len(ct), 1) and ctx.require("C05.R4", up, "_build_packet call in UdpClient.update", len(bp), 1):
        c1 = set(norm(t) + ("" if p else " [F]") for (t, p) in cfg.conditions_of(cfg.node_of(ct[0]).id))
        c2 = set(norm(t) + ("" if p else " [F]") for (t, p) in cfg.conditions_of(cfg.node_of(bp[0]).id))
        ctx.check(c1 == c2, "C05.R4", up, "timeouts are checked on every send tick (same guard as _build_packet)",
                  "the timeout sweep does not depend on a packet having been built", witness={"check_timeout": sorted(c1), "build_packet": sorted(c2)}, line=ct[0].lineno)
        tick = [t for t in c2 if "last_send_time" in t]
        ctx.check(len(tick) == 1 and tick[0].endswith("> self.conn.send_interval"), "C05.R4", up, "send tick = clock - last_send_time > send_interval", "tick guard", witness=sorted(c2))
    ck = ctx.fn("connection:ConnectionBase._check_timeout")
    _timeout_loop(ctx, ck, "C05.R4")
    su = ctx.fn("connection:ServerClientConnection.update")
    _timeout_loop(ctx, su, "C05.R4")
    scfg = cfg_of(su)
    bp = calls_named(su, "_build_packet")
    ht = calls_named(su, "_handle_timeout")
    if bp and ht:
        c1 = [(norm(t), p) for (t, p) in scfg.conditions_of(scfg.node_of(bp[0]).id)]
        loop = [p for p in _parents(ht[0], su.node) if isinstance(p, ast.For)]
        c2 = [(norm(t), p) for (t, p) in scfg.conditions_of(scfg.node_of(loop[0]).id)] if loop else None
        ctx.check(c1 == c2, "C05.R4", su, "server sweep runs on every send tick", "same guard as _build_packet", witness={"build": c1, "sweep": c2})
    # every tick: the server loop calls client.update() for every connected client
    run = ctx.fn("server:UdpServerThread.run")
    ups = [c for c in calls_named(run, "update") if norm(c.func) == "client.update"]
    ctx.check(len(ups) >= 3, "C05.R4", run, "client.update() in the connection sweeps", "connections are driven every tick", witness=len(ups))


def _parents(node, stop):
    out = []
    p = getattr(node, "_parent", None)
    while p is not None and p is not stop:
        out.append(p)
        p = getattr(p, "_parent", None)
    return out


def _timeout_loop(ctx, fi, rule):
    ht = calls_named(fi, "_handle_timeout")
    if not ctx.require(rule, fi, "_handle_timeout call in %s" % fi.name, len(ht), 1):
        return
    c = ht[0]
    loop = [p for p in _parents(c, fi.node) if isinstance(p, ast.For)]
    ok = bool(loop) and is_snapshot_of(loop[0].iter, "self.pending_acks") and norm(c.args[0]) == norm(loop[0].target)
    ctx.check(ok, rule, fi, "sweep iterates a snapshot of pending_acks", "for seqnum in list(self.pending_acks): ... _handle_timeout(seqnum)", line=c.lineno)
    ifs = [p for p in _parents(c, fi.node) if isinstance(p, ast.If)]
    t = ifs[0].test if ifs else None
    ok = isinstance(t, ast.Compare) and len(t.ops) == 1 and isinstance(t.ops[0], (ast.Gt, ast.GtE)) and norm(t.comparators[0]) == "self.outgoing_timeout" \
        and isinstance(t.left, ast.BinOp) and isinstance(t.left.op, ast.Sub) and norm(t.left.right) == "self.pending_acks[%s]" % norm(c.args[0])
    ctx.check(ok, rule, fi, "timeout test: now - pending_acks[seq] >(=) outgoing_timeout", "a datagram times out once its age reaches the message timeout",
              witness=norm(t), line=c.lineno)


def r5(ctx):
    bpi = ctx.fn("connection:ConnectionBase._build_packet_impl")
    cfg = cfg_of(bpi)
    removals = []
    for n in walk_own(bpi.node):
        if isinstance(n, ast.Delete) and any(norm(t).startswith(("self.pending_retry_msg[", "self.outgoing_messages[")) for t in n.targets):
            removals.append(n)
        if isinstance(n, ast.Expr) and isinstance(n.value, ast.Call) and norm(n.value.func) in ("self.outgoing_messages.pop", "self.outgoing_messages.remove"):
            removals.append(n)
        if isinstance(n, ast.Assign) and norm(n.targets[0]) in ("self.outgoing_messages", "self.pending_retry_msg"):
            removals.append(n)
    ctx.expect("C05.R5", "queue removals in _build_packet_impl", len(removals), 2)
    from .capacity import _block_of
    for r in removals:
        blk = _block_of(r)
        apps = [s for s in blk if isinstance(s, ast.Expr) and isinstance(s.value, ast.Call) and norm(s.value.func) == "msgs.append"]
        ok = len(apps) == 1
        if ok and isinstance(r, ast.Expr):
            # pop(idx) removes outgoing_messages[idx] == the message appended
            v = resolve_arg(bpi, apps[0].value.args[0], apps[0])
            ok = norm(v) == "self.outgoing_messages[%s]" % norm(r.value.args[0]) if r.value.args else False
        elif ok and isinstance(r, ast.Delete) and norm(r.targets[0]).startswith("self.outgoing_messages["):
            # del outgoing_messages[idx] removes the very element that is appended
            v = resolve_arg(bpi, apps[0].value.args[0], apps[0])
            ok = len(r.targets) == 1 and norm(v) == norm(r.targets[0])
        elif ok and isinstance(r, ast.Delete):
            # del pending_retry_msg[msgseq] where (msgseq, msg) is the item appended
            ok = isinstance(apps[0].value.args[0], ast.Name)
        ctx.check(ok, "C05.R5", bpi, r, "a message is removed from its queue only where it is appended to the packet's message list", line=r.lineno)
    # msgs flows whole into Packet.create and is never rebound after its initialisation
    du = defuse_of(bpi)
    ctx.check(len(du.defs.get("msgs", [])) == 1 and norm(du.defs["msgs"][0][1]) == "[]", "C05.R5", bpi, "msgs is bound once (msgs = [])", "the packed list is never replaced or cleared")
    muts = [c for c in walk_own(bpi.node) if isinstance(c, ast.Call) and isinstance(c.func, ast.Attribute) and norm(c.func.value) == "msgs" and c.func.attr != "append"]
    ctx.check(not muts, "C05.R5", bpi, "msgs is only appended to", "no pop/clear/remove on the packed list", witness=[norm(m) for m in muts])
    cr = [c for c in calls_named(bpi, "create") if norm(c.func) == "Packet.create"]
    if ctx.require("C05.R5", bpi, "Packet.create(hdr, msgs)", len(cr), 1):
        ctx.check(len(cr[0].args) == 2 and norm(cr[0].args[1]) == "msgs", "C05.R5", bpi, cr[0], "the whole message list goes into the packet", line=cr[0].lineno)
        rets = [n for n in cfg.stmts((ast.Return,))]
        pv = norm(cr[0]._parent.targets[0]) if isinstance(cr[0]._parent, ast.Assign) else None
        late = [r for r in rets if not ((pv is not None and norm(r.ast.value) == pv) or r.ast.value is cr[0])]
        # early returns happen only when nothing was selected: pkt_type is UNKNOWN only if msgs is empty
        ok = all(norm(r.ast.value) == "None" for r in late)
        for r in late:
            conds = [(norm(t), p) for (t, p) in cfg.conditions_of(r.id)]
            ok = ok and any(t in ("pkt_type == PacketType.UNKNOWN",) and p for (t, p) in conds)
        ctx.check(ok, "C05.R5", bpi, "the only early return is `pkt_type == UNKNOWN -> None`", "no message taken from a queue is dropped by an early return",
                  witness=[norm(r.ast) for r in late])
        sel = [n for n in walk_own(bpi.node) if isinstance(n, ast.Assign) and norm(n.targets[0]) == "pkt_type"]
        vals = sorted(norm(s.value) for s in sel)
        ctx.check(vals == ["PacketType.KEEP_ALIVE", "PacketType.UNKNOWN", "msgs[0].type"], "C05.R5", bpi, "pkt_type in {UNKNOWN, KEEP_ALIVE, msgs[0].type}",
                  "with messages selected the packet type is the first message's type", witness=vals)
        # and no queued message ever has type UNKNOWN
        bad = []
        n_sites = 0
        for (f, c) in package_calls(ctx.repo, "_send_type"):
            n_sites += 1
            v = ctx.folder.fold(c.args[0], f.module, cls=f.cls) if c.args else UNKNOWN
            if not (isinstance(v, EnumVal) and v.member != "UNKNOWN"):
                bad.append("%s: %s" % (f.qual, norm(c)))
        ctx.expect("C05.R5", "_send_type call sites", n_sites, 6)
        ctx.check(not bad, "C05.R5", "connection:ConnectionBase._send_type", "every _send_type call passes a concrete packet type", "no message is queued as UNKNOWN", witness=bad)


def r6(ctx):
    from .common import repo_idioms
    repo_idioms(ctx, "C05.R6", ("connection", "client"))


def r7(ctx, RULE="C05.R7"):
    """receiver side: a partially reassembled message must survive until it is complete - a guaranteed sender keeps
    retransmitting a lost fragment (once per message timeout), so any discard of an *incomplete* reassembly context turns
    'delayed' into 'silently lost' while every fragment is acknowledged at the datagram level"""
    fi = ctx.fn("connection:ConnectionBase._recvAppFragment")
    cfg = cfg_of(fi)
    dels = [n for n in cfg.stmts((ast.Delete,)) if norm(n.ast.targets[0]).startswith("self.received_fragments[")]
    deliver = [cfg.node_of(c) for c in calls_named(fi, "_recvApp")]
    recv = [cfg.node_of(c) for c in calls_named(fi, "receive")]
    if not ctx.require(RULE, fi, "fragment store `.receive(...)` and delivery `_recvApp(...)` in _recvAppFragment", min(len(deliver), len(recv)), 1):
        return
    # a store into the reassembly table replaces whatever context was there: it may only open a context for an unseen id
    from engine.cond import CondCtx
    from .common import node_lits, known_absent
    cc = CondCtx(ctx.folder, fi.module, fi.cls)
    opens = [n for n in walk_own(fi.node) if isinstance(n, ast.Subscript) and isinstance(n.ctx, ast.Store) and norm(n.value) == "self.received_fragments"]
    if ctx.require(RULE, fi, "opening of a reassembly context (self.received_fragments[id] = ...)", len(opens), 1):
        for n in opens:
            lits = node_lits(cfg, cfg.node_of(n).id, cc)
            key = norm(n.slice)
            fresh = known_absent(fi, cfg, cc, n, key, "self.received_fragments")
            ctx.check(fresh, RULE, fi, n, "a reassembly context is opened only for a fragment id that has none (fragments already received are never dropped by an overwrite)",
                      witness=[repr(l) for l in lits], line=n.lineno)
    for d in dels:
        after_delivery = any(cfg.dominates(x.id, d.id) for x in deliver)
        if after_delivery:
            ctx.holds(RULE, fi, d.ast, "the context of a delivered message is removed")
            continue
        # a discard that is not dominated by the delivery of that context: is it at least restricted to complete / finished contexts?
        conds = [(norm(t), p) for (t, p) in cfg.conditions_of(d.id)]
        guarded = any(("isComplete()" in t and p) for (t, p) in conds)
        # (the construct is named independently of the sweep's loop variable: `for key in expired: del ...[key]`)
        tgt = d.ast.targets[0]
        swept = isinstance(tgt, ast.Subscript) and isinstance(tgt.slice, ast.Name) and any(
            isinstance(p_, ast.For) and any(isinstance(x, ast.Name) and x.id == tgt.slice.id for x in ast.walk(p_.target)) for p_ in _parents(d.ast, fi.node))
        label = "del self.received_fragments[key]" if swept else d.ast
        ctx.check(guarded, RULE, fi, label, "a reassembly context is discarded only after its message was delivered",
                  witness={"path": "expired() -> del received_fragments[key] without isComplete()/delivery: a guaranteed fragmented message whose fragments "
                                   "take longer than 1.0 + 0.5*count seconds (for example one fragment lost twice) is purged when any other fragment arrives; "
                                   "the late fragment then opens a fresh context that can never complete, the sender still sees every fragment acked"},
                  line=d.lineno)
        # whatever the expiry policy is, it must not run before the arriving fragment was stored and its completion was checked
        ok = all(cfg.dominates(x.id, d.id) for x in recv)
        ctx.check(ok, RULE, fi, "expiry runs after the arriving fragment was stored", "purging first would discard the very context the arriving (re-sent) fragment completes",
                  line=d.lineno)


EXPLANATION = EXPLANATION + ' (R7) receiver side: a reassembly context is opened only for a fragment id that has none, the expiry runs only after the arriving fragment was stored, and a context is discarded only after its message was delivered - the last obligation is violated on the pinned tree (known finding, DESIGN 8.4).'

def r8(ctx):
    """a retransmission travels under the message's original number (C04); the receiver may refuse a message only as a
    duplicate it has really seen.  (a) every `raise DuplicationError` of the package is inside BitField.insert; (b) for the
    message window, insert accepts every number it has no record of: newer ones, unset bits inside the window and - the
    flip side of the known finding C04.R1 - numbers older than the window; (c) _recv_message drops a message before
    dispatch only in the DuplicationError handler of that insert."""
    from . import c04
    ins = ctx.fn(c04.INS)
    raises = []
    for fi in ctx.repo.all_functions():
        if fi.is_lambda or fi.module.name not in ("connection", "server", "client", "context", "twisted"):
            continue
        for n in walk_own(fi.node):
            if isinstance(n, ast.Raise) and n.exc is not None and "DuplicationError" in norm(n.exc):
                raises.append((fi, n))
    outside = [(f, n) for (f, n) in raises if f.qual != ins.qual]
    ctx.require("C05.R8", ins, "raise DuplicationError in BitField.insert", len(raises) - len(outside), 1)
    for (f, n) in outside:
        ctx.violated("C05.R8", f, n, "a message / datagram is refused as a duplicate outside BitField.insert: a retransmission (same number, fresh datagram) "
                     "that is merely old is dropped while its datagram is acknowledged", line=n.lineno)
    if not outside:
        ctx.holds("C05.R8", ins, "DuplicationError is raised only by BitField.insert", "%d raise site(s)" % len(raises))
    wins = c04.windows(ctx)
    nb = wins.get("bitfield_msg")
    if not ctx.require("C05.R8", ins, "message window self.bitfield_msg = BitField(n)", 1 if nb else 0, 1):
        return
    T = ctx.folder.class_attr(ctx.repo.cls("connection:SeqNum"), "_threshold")
    for (name, cell) in (("newer beyond window", (-T, -nb - 1)), ("newer inside window", (-nb, -1)), ("older than window", (nb + 1, T))):
        outs, used, _ = c04.explore_insert(ctx, nb, cell)
        outs2 = [o for o in outs if not any(lab and "current_seqnum == 0" in lab and pol and "not" not in lab for (lab, pol) in o.path)]
        rej = [o for o in outs2 if o.kind == "raise"]
        ctx.check(bool(outs2) and not rej, "C05.R8", ins, "bitfield_msg nbits=%d cell=%s: accepted" % (nb, name),
                  "a number the window has no record of is not refused (a late retransmission of a guaranteed message must still be delivered)",
                  witness=[repr(o) for o in rej][:2])
    rm = ctx.fn("connection:ConnectionBase._recv_message")
    cfg = cfg_of(rm)
    calls = [c for c in calls_named(rm, "insert") if norm(c.func) == "self.bitfield_msg.insert"]
    if not ctx.require("C05.R8", rm, "self.bitfield_msg.insert(...) in _recv_message", len(calls), 1):
        return
    from .common import enclosing_trys
    trys = enclosing_trys(calls[0])
    body_calls = [c for t in trys[:1] for s in t.body for c in ast.walk(s) if isinstance(c, (ast.Call, ast.Raise))]
    extra = [c for c in body_calls if not (isinstance(c, ast.Call) and (c is calls[0] or norm(c.func) in ("self.bitfield_msg.insert",)))]
    extra = [c for c in extra if not (isinstance(c, ast.Call) and norm(c.func) in ("SeqNum", "int", "len"))]
    ctx.check(bool(trys) and not extra, "C05.R8", rm, "the try around the duplicate test contains nothing else that can refuse the message",
              witness=[norm(c)[:80] for c in extra])
    # early returns before the dispatch chain, other than the handler's
    disp = [n for n in cfg.nodes if n.kind == "test" and n.ast is not None and "pkt_typ" in norm(n.ast)]
    first = min((n.id for n in disp), default=None)
    handlers = {id(s) for t in trys for h in t.handlers for s in ast.walk(h)}
    early = [n for n in cfg.stmts((ast.Return, ast.Raise)) if id(n.ast) not in handlers and first is not None
             and first not in cfg.reachable(n.id) and not any(cfg.dominates(d.id, n.id) for d in disp)]
    ctx.check(not early, "C05.R8", rm, "no other way out of _recv_message before the dispatch on the message type", witness=[norm(n.ast)[:80] for n in early])


EXPLANATION = EXPLANATION + (" (R8) a retransmission is never refused for being old: DuplicationError is raised only by BitField.insert, the message window accepts every "
                             "number it has no record of (including numbers older than the window - the flip side of the known finding C04.R1), and _recv_message "
                             "drops a message before dispatch only in the handler of that test.")


def r_shared_r9(ctx):
    """a queued message reaches the peer as it was written, with its own type, number and bytes (shared C09.R1, C09.R2): a message decoded under another type or number is not delivered"""
    from . import c09 as _m
    from .c02 import _Sub
    for _f in ['r1', 'r2']:
        getattr(_m, _f)(_Sub(ctx, "C05.R9"))


EXPLANATION = EXPLANATION + ' (R9) a queued message reaches the peer as it was written, with its own type, number and bytes (shared C09.R1, C09.R2): a message decoded under another type or number is not delivered.'

def r_shared_r10(ctx):
    """a retransmission carries the number the message was first sent under (shared C04.R3): re-sent under a number the peer has
    already recorded, the one copy that could still deliver the message is dropped as a duplicate and the sender's queues empty"""
    from . import c04 as _m
    from .c02 import _Sub
    _m.r3(_Sub(ctx, "C05.R10"))


EXPLANATION = EXPLANATION + (' (R10) every retransmission carries the message number first used, per fragment in fragment order (shared C04.R3): a copy re-sent '
                             'under a number the peer has already recorded is dropped there as a duplicate, its datagram is acknowledged, and the message is never delivered.')

def r_shared_r11(ctx):
    """every callback registered for a resolved datagram runs, each contained on its own (shared C07.R1): the re-queue of a lost guaranteed message or fragment is one of those callbacks - a user callback that raises in front of it must not keep it from running"""
    from . import c07 as _m
    from .c02 import _Sub
    for _f in ['r1']:
        getattr(_m, _f)(_Sub(ctx, "C05.R11"))


EXPLANATION = EXPLANATION + ' (R11) the callbacks of a resolved datagram run each inside its own containment (shared C07.R1): the retry chain lives in those callbacks, so one raising user callback must not skip the re-queue of a fragment that travelled in the same datagram.'

RULES = [("C05.R6", r6), ("C05.R1", r1), ("C05.R2", r2), ("C05.R3", r3), ("C05.R4", r4), ("C05.R5", r5), ("C05.R7", r7), ("C05.R8", r8), ("C05.R9", r_shared_r9), ("C05.R10", r_shared_r10), ("C05.R11", r_shared_r11)]
