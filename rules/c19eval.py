"""C19 decided by partial evaluation (engine/minieval.py) with the cryptographic library stubbed out.

hash_password and verify_password are interpreted on constant arguments; os.urandom, the hash object, scrypt.Scrypt and its
derive / verify are stand-ins that record what they are given.  What is decided is what the two functions *do with the hash
string*: which strings are refused and how, which parameters reach the key derivation, what is compared with what, and when the
result is True - whatever statements spell it.  None is returned when either function is outside the evaluator's fragment; the
shape rules of rules/c19.py decide then."""
import base64
import struct

from engine.index import Undecided
from engine.minieval import MiniEval, Raised, Stopped

SALT = bytes(range(16))


def dig(n):
    """the stand-in derived key of n bytes"""
    return bytes((100 + i) % 256 for i in range(n)) if isinstance(n, int) and 0 <= n <= 255 else b""


DIG = dig(32)
ALLOWED = ("ValueError", "TypeError", "binascii.Error", "UnicodeEncodeError", "UnicodeDecodeError")


class _World(object):
    def __init__(self, derive_result="right"):
        self.urandom = []
        self.scrypt = []
        self.derive = []
        self.verify = []
        self.updates = []
        self.derive_result = derive_result

    def evaluator(self, ctx, fi):
        w = self

        def urandom(n):
            w.urandom.append(n)
            return bytes(range(n)) if isinstance(n, int) and 0 <= n <= 255 else b""

        def Scrypt(*a, **k):
            names = ("salt", "length", "n", "r", "p")
            vals = list(a[:5]) + [k.get(nm) for nm in names[len(a[:5]):]]
            w.scrypt.append(tuple(vals))
            return ("<sym>", "scrypt.Scrypt", tuple(vals), ())

        def derived(base):
            n = base[2][1] if len(base) > 2 and len(base[2]) > 1 else 0
            return dig(n) if w.derive_result == "right" else bytes(n if isinstance(n, int) and 0 <= n <= 255 else 0)

        def derive(base, km):
            w.derive.append(km)
            if w.derive_result == "library failure":
                raise Raised("UnsupportedAlgorithm", ("stand-in for a failure inside the library",))
            return derived(base)

        def verify(base, km, expected):
            w.verify.append((km, expected))
            if w.derive_result == "library failure":
                raise Raised("UnsupportedAlgorithm", ("stand-in for a failure inside the library",))
            if expected != derived(base):
                raise Raised("InvalidKey", ())
            return None

        def update(base, data):
            w.updates.append(data)
            return None

        def bytes_eq(a, b):
            if not isinstance(a, bytes) or not isinstance(b, bytes):
                raise Raised("TypeError", ())
            return a == b
        def sha256(*data):
            # hashlib's one-shot form: the constructor argument is the first update
            for d_ in data:
                w.updates.append(d_)
            return ("<sym>", "hashlib.sha256", (), ())
        ev = MiniEval(ctx.repo, ctx.folder, fi, symbolic=("hashes.Hash", "hashes.SHA256", "default_backend"),
                      stubs={"os.urandom": urandom, "secrets.token_bytes": urandom, "scrypt.Scrypt": Scrypt, "Scrypt": Scrypt, "constant_time.bytes_eq": bytes_eq,
                             "hmac.compare_digest": bytes_eq, "hashlib.sha256": sha256, "sha256": sha256})
        ev.symbolic_methods = True
        ev.method_stubs = {"derive": derive, "verify": verify, "update": update}
        return ev


def make(n=16384, r=16, p=1, salt=SALT, dig=DIG, salt_len=None, length=None, method="scrypt", version="1", params=None, data=None):
    params = struct.pack(">HBBBB", n, r, p, len(salt) if salt_len is None else salt_len, len(dig) if length is None else length) if params is None else params
    data = salt + dig if data is None else data
    return "%s:%s:%s:%s" % (method, version, base64.b64encode(params).decode(), base64.b64encode(data).decode())


def decide(ctx, hp, vp):
    cached = getattr(ctx, "_c19eval", "unset")
    if cached != "unset":
        return cached
    out = {"cases": 0, "discipline": [], "accepted_malformed": [], "roundtrip": [], "params": [], "lengths": [], "verdict": [], "writer": [], "swallowed": []}

    def verify(h, pw=b"correct horse", derive_result="right"):
        w = _World(derive_result)
        out["cases"] += 1
        try:
            r = w.evaluator(ctx, vp).call([pw, h])
        except Raised as e:           # an exception type the evaluator does not model leaving the function
            r = ("raise", e.typ, e.eargs)
        return r, w
    try:
        # --- writer, then reader on the writer's output
        w0 = _World()
        out["cases"] += 1
        hr = w0.evaluator(ctx, hp).call([b"correct horse"])
        if hr[0] != "return" or not isinstance(hr[1], str):
            out["writer"].append({"hash_password": repr(hr)[:120]})
            H = None
        else:
            H = hr[1]
            parts = H.split(":")
            ok = len(parts) == 4 and parts[0] == "scrypt" and parts[1] == "1"
            try:
                pb, db = base64.b64decode(parts[2]), base64.b64decode(parts[3])
            except Exception:
                pb, db, ok = b"", b"", False
            if not ok or len(w0.scrypt) != 1 or len(w0.urandom) != 1:
                out["writer"].append({"hash": H[:80], "scrypt_calls": len(w0.scrypt), "urandom_calls": len(w0.urandom)})
            else:
                salt, length, n_, r_, p_ = w0.scrypt[0]
                if pb != struct.pack(">HBBBB", n_, r_, p_, len(salt), length) or db != salt + dig(length) or salt != bytes(range(w0.urandom[0])) or len(w0.derive) != 1:
                    out["writer"].append({"hash": H[:80], "scrypt": repr(w0.scrypt[0])[:100], "params_field": pb.hex(), "data_field_is_salt_plus_digest": db == salt + dig(length)})
                r, w = verify(H)
                if not (r == ("return", True) and len(w.scrypt) == 1 and w.scrypt[0] == w0.scrypt[0]):
                    out["roundtrip"].append({"verify(hash_password(pw))": repr(r)[:80], "writer_scrypt": repr(w0.scrypt[0])[:90], "reader_scrypt": repr(w.scrypt[:1])[:90]})
                # what is fed to the key derivation is the same pre-hash on both sides, never the raw password
                km_w = w0.derive[0] if w0.derive else None
                km_r = (w.verify[0][0] if w.verify else w.derive[0] if w.derive else None)
                if km_w != km_r or isinstance(km_w, bytes) or w0.updates != [b"correct horse"] or w.updates != [b"correct horse"]:
                    out["roundtrip"].append({"key_material_writer": repr(km_w)[:80], "key_material_reader": repr(km_r)[:80]})
                # wrong password / tampered digest -> False, never True
                r2, w2 = verify(H, derive_result="wrong")
                if r2 != ("return", False):
                    out["verdict"].append({"digest differs": repr(r2)[:80]})
        # --- the whole password is hashed, whatever its length (a truncated pre-hash makes long passwords that share a prefix equal)
        long_pw = bytes((i * 7 + 3) % 251 for i in range(5000))
        wl = _World()
        out["cases"] += 1
        hl = wl.evaluator(ctx, hp).call([long_pw])
        if wl.updates != [long_pw]:
            out["roundtrip"].append({"hash_password feeds the hash object": "%d of %d password bytes" % (sum(len(u) for u in wl.updates if isinstance(u, bytes)), len(long_pw))})
        if hl[0] == "return" and isinstance(hl[1], str):
            rl, wl2 = verify(hl[1], pw=long_pw)
            if wl2.updates != [long_pw]:
                out["roundtrip"].append({"verify_password feeds the hash object": "%d of %d password bytes" % (sum(len(u) for u in wl2.updates if isinstance(u, bytes)), len(long_pw))})
        # --- every password takes the same way through both functions, also the degenerate ones (an "empty input" shortcut in the
        # reader makes the right password fail and turns malformed strings into a verdict)
        for pw in (b"", b"\x00", b" ", b"0"):
            we = _World()
            out["cases"] += 1
            he = we.evaluator(ctx, hp).call([pw])
            if he[0] != "return" or not isinstance(he[1], str) or we.updates != [pw]:
                out["roundtrip"].append({"hash_password(%r)" % pw: repr(he)[:80], "fed to the hash object": repr(we.updates)[:60]})
                continue
            re_, we2 = verify(he[1], pw=pw)
            if re_ != ("return", True) or we2.updates != [pw] or len(we2.scrypt) != 1:
                out["roundtrip"].append({"verify_password(%r, hash_password(%r))" % (pw, pw): repr(re_)[:80], "fed to the hash object": repr(we2.updates)[:60]})
            rm_, _wm = verify("scrypt:1", pw=pw)
            if rm_[0] != "raise" or rm_[1] not in ALLOWED:
                (out["accepted_malformed"] if rm_[0] == "return" else out["discipline"]).append({"input": "two fields, password %r" % pw, "outcome": repr(rm_)[:80]})
        # --- a failure inside the key derivation is not a verdict: it must leave the function (no broad handler returns False)
        r3_, w3_ = verify(make(), derive_result="library failure")
        if r3_[0] != "raise" or r3_[1] != "UnsupportedAlgorithm":
            out["swallowed"].append({"library failure during verification": repr(r3_)[:80]})
        # --- the parameters in the string are the ones used (not defaults)
        for (n_, r_, p_) in ((1024, 8, 2), (2, 1, 1), (32768, 255, 3)):
            h = make(n_, r_, p_)
            r, w = verify(h)
            if not (len(w.scrypt) == 1 and w.scrypt[0] == (SALT, len(DIG), n_, r_, p_) and r == ("return", True)):
                out["params"].append({"hash": "N=%d r=%d p=%d" % (n_, r_, p_), "reader_scrypt": repr(w.scrypt[:1])[:90], "result": repr(r)[:60]})
        r, w = verify(make(salt=bytes(range(7)), dig=bytes(range(50, 70))))
        if not (len(w.scrypt) == 1 and w.scrypt[0][:2] == (bytes(range(7)), 20)):
            out["params"].append({"hash": "salt of 7, digest of 20 bytes", "reader_scrypt": repr(w.scrypt[:1])[:90]})
        # --- malformed strings: refused with ValueError / TypeError before any verdict
        good = make()
        g = good.split(":")
        bad = {
            "empty": "", "no separator": "scrypt", "one field": "scrypt:1", "three fields": ":".join(g[:3]), "five fields": good + ":x", "leading separator": ":" + good,
            "method": make(method="bcrypt"), "method upper": make(method="SCRYPT"), "method empty": make(method=""), "version 2": make(version="2"), "version empty": make(version=""),
            "params not base64": "scrypt:1:!!!!:" + g[3], "data not base64": ":".join(g[:3]) + ":!!!!", "params empty": "scrypt:1::" + g[3],
            "params short": make(params=b"\\x40\\x00\\x10\\x01\\x10"), "params long": make(params=struct.pack(">HBBBB", 16384, 16, 1, 16, 32) + b"\\x00"),
            "params very long": make(params=struct.pack(">HBBBB", 16384, 16, 1, 16, 32) * 2),
            "non ascii": "scrypt:1:\\u00e9:" + g[3], "surrogate": "scrypt:1:\\ud800:" + g[3],
        }
        for name, h in bad.items():
            r, w = verify(h)
            if r[0] != "raise" or r[1] not in ALLOWED:
                (out["accepted_malformed"] if r[0] == "return" else out["discipline"]).append({"input": name, "outcome": repr(r)[:80]})
        for name, args in {"password str": ("pw", good), "hash bytes": (b"pw", good.encode()), "hash None": (b"pw", None), "password None": (None, good)}.items():
            out["cases"] += 1
            w = _World()
            try:
                r = w.evaluator(ctx, vp).call(list(args))
            except Raised as e:
                r = ("raise", e.typ, e.eargs)
            if r[0] != "raise" or r[1] not in ("TypeError", "ValueError"):
                out["discipline"].append({"input": name, "outcome": repr(r)[:80]})
        # --- length facts
        lens = {
            "digest length 0, empty digest": make(dig=b"", length=0), "digest length 0, digest present": make(length=0),
            "length field larger than the digest": make(length=33), "length field smaller than the digest": make(length=31),
            "salt length larger than the data": make(salt_len=200), "salt length eats into the digest": make(salt_len=20), "salt length shorter (digest grows)": make(salt_len=12),
            "data empty": make(data=b""),
        }
        for name, h in lens.items():
            r, w = verify(h)
            if r[0] != "raise" or r[1] not in ALLOWED:
                out["lengths"].append({"input": name, "outcome": repr(r)[:80], "reached_scrypt": bool(w.scrypt)})
        # --- a damaged string is refused, not repaired: the stored form is exactly what hash_password wrote - base64 with its padding.
        # A reader that strips white space or restores missing padding accepts strings that lost their last characters (the data
        # field of the writer's format ends in padding) and verifies the right password against them
        good = make()
        damaged = {"last character missing": good[:-1], "last two characters missing": good[:-2], "trailing newline": good + "\n", "trailing blank": good + " ",
                   "blank inside the data field": good[:-6] + " " + good[-6:], "params field without its padding": ":".join(p_.rstrip("=") if k_ == 2 else p_ for k_, p_ in enumerate(good.split(":")))}
        for name, h in damaged.items():
            if h == good:
                continue
            r, w = verify(h)
            if r[0] != "raise" or r[1] not in ALLOWED:
                out["accepted_malformed"].append({"input": name, "outcome": repr(r)[:80], "reached_scrypt": bool(w.scrypt)})
    except Undecided as e:
        ctx._c19eval = None
        ctx._c19eval_reason = str(e)
        return None
    ctx._c19eval = out
    return out
