"""C12 - keep-alives and timeouts: idle links stay up, dead peers are detected."""
import ast

from engine.index import norm, walk_own
from engine.cfg import cfg_of
from engine.cond import CondCtx, satisfiable
from engine.defuse import defuse_of, attr_accesses
from engine.names import unresolved_names, possibly_unbound
from engine.fold import UNKNOWN
from .common import calls_named, package_calls, node_lits, enum_lit, stmt_effects, before
from . import c01
from .c02 import _Sub

EXPLANATION = (
    "Static plumbing and mechanism rules. Decides: (R1) no unresolved name in the UdpClient setters/connect and the ServerContext "
    "setters (they 'never raise'); (R2) every attribute the client or the server loop stores on a connection object is declared "
    "by the connection classes and read by connection code, setter and connect() write the same attribute, each ServerContext "
    "setter writes the attribute that the server loop reads for the matching pool; (R3) the keep-alive flag is computed from the "
    "keep-alive clock, that clock is written only when a packet was built, KEEP_ALIVE is emitted iff nothing was selected and "
    "the flag is set and the connection is CONNECTED, and _build_packet runs on every tick regardless of queue contents; (R4) the "
    "liveness clock is written only after authentication and de-duplication, timedout compares clock - last_recv_time with the "
    "timeout, the client's DROPPED constant folds to 5; (R5) the connect timeout changes the status whether or not a callback was "
    "given, the callback is optional and fires once. Does not decide inter-datagram gaps and timeout instants over virtual time."
)
ASSUMPTIONS = ["the application calls update() every tick; keep-alive interval < timeout (stated by the property)"]

CLIENT_FUNCS = ("client:UdpClient.setKeepAliveInterval", "client:UdpClient.setConnectionTimeout", "client:UdpClient.setMessageTimeout", "client:UdpClient.connect",
                "client:UdpClient.__init__")
CTX_SETTERS = ("context:ServerContext.setInterval", "context:ServerContext.setKeepAliveInterval", "context:ServerContext.setConnectionTimeout",
               "context:ServerContext.setTempConnectionTimeout", "context:ServerContext.setMessageTimeout")


def r1(ctx):
    for q in CLIENT_FUNCS + CTX_SETTERS + ("connection:ClientServerConnection.update", "connection:ConnectionBase.timedout", "connection:ClientServerConnection._sendClientHello"):
        fi = ctx.fn(q)
        un = unresolved_names(fi)
        for (name, line, node) in un:
            ctx.violated("C12.R1", fi, "unresolved name `%s`" % name, "NameError: the setting call raises instead of taking effect", witness={"name": name}, line=line)
        if not un:
            ctx.holds("C12.R1", fi, "all names resolve")


def _declared_attrs(repo, cls_qual):
    out = set()
    ci = repo.cls(cls_qual)
    for c in repo.mro(ci):
        init = c.methods.get("__init__")
        if init is None:
            continue
        for n in walk_own(init.node):
            if isinstance(n, ast.Assign):
                for t in n.targets:
                    if isinstance(t, ast.Attribute) and norm(t.value) == "self":
                        out.add(t.attr)
    return out


def _read_attrs(repo, modules=("connection",)):
    out = set()
    for fi in repo.functions_in("connection"):
        for n in walk_own(fi.node):
            if isinstance(n, ast.Attribute) and isinstance(n.ctx, ast.Load) and norm(n.value) == "self":
                out.add(n.attr)
    return out


def r2(ctx):
    repo = ctx.repo
    decl_c = _declared_attrs(repo, "connection:ClientServerConnection")
    decl_s = _declared_attrs(repo, "connection:ServerClientConnection")
    reads = _read_attrs(repo)
    # client: stores on self.conn
    stores = {}
    for q in CLIENT_FUNCS:
        fi = ctx.fn(q)
        for n in walk_own(fi.node):
            if isinstance(n, ast.Assign) and isinstance(n.targets[0], ast.Attribute) and norm(n.targets[0].value) == "self.conn":
                stores.setdefault(fi.name, {})[n.targets[0].attr] = n
    n_sites = sum(len(v) for v in stores.values())
    ctx.expect("C12.R2", "stores on self.conn in UdpClient", n_sites, 7)
    for fname, d in sorted(stores.items()):
        for attr, n in sorted(d.items()):
            fi = ctx.fn("client:UdpClient." + fname)
            ctx.check(attr in decl_c and attr in reads, "C12.R2", fi, "self.conn.%s" % attr,
                      "a setting stored on the connection must be an attribute the connection declares and reads (else it has no effect)",
                      witness={"declared": attr in decl_c, "read_by_connection_code": attr in reads}, line=n.lineno)
    # setter <-> connect agreement and value flow
    pairs = (("setKeepAliveInterval", "keep_alive_interval"), ("setConnectionTimeout", "temp_connection_timeout"), ("setMessageTimeout", "outgoing_timeout"))
    con = stores.get("connect", {})
    for setter, cattr in pairs:
        fi = ctx.fn("client:UdpClient." + setter)
        p = fi.params[1]
        own = [n for n in walk_own(fi.node) if isinstance(n, ast.Assign) and norm(n.targets[0]) == "self.%s" % cattr and norm(n.value) == p]
        ctx.check(len(own) == 1, "C12.R2", fi, "%s remembers the value in self.%s" % (setter, cattr), "a setting made before connect is kept", witness=[norm(o) for o in own])
        after = stores.get(setter, {})
        ok = len(after) == 1 and norm(list(after.values())[0].value) == p
        ctx.check(ok, "C12.R2", fi, "%s applies its parameter to the live connection" % setter, witness={k: norm(v.value) for k, v in after.items()})
        if ok:
            attr = list(after)[0]
            n = list(after.values())[0]
            guarded = any(isinstance(pp, ast.If) and norm(pp.test) == "self.conn" for pp in _parents(n, fi.node))
            ctx.check(guarded, "C12.R2", fi, "the live connection is updated only if it exists (`if self.conn`)", line=n.lineno)
            ctx.check(attr in con and norm(con[attr].value) == "self.%s" % cattr, "C12.R2", ctx.fn("client:UdpClient.connect"), "connect() applies self.%s to conn.%s" % (cattr, attr),
                      "setter and connect() agree on the connection attribute", witness={a: norm(v.value) for a, v in con.items()})
    # defaults of the client equal the defaults of the connection
    init = ctx.fn("client:UdpClient.__init__")
    # server: the loop copies context settings onto each new connection
    run = ctx.fn("server:UdpServerThread.run")
    copies = {}
    for n in walk_own(run.node):
        if isinstance(n, ast.Assign) and isinstance(n.targets[0], ast.Attribute) and norm(n.targets[0].value) == "client" and norm(n.value).startswith("self.ctxt."):
            copies[n.targets[0].attr] = (norm(n.value)[len("self.ctxt."):], n)
    want = {"send_keep_alive_interval": "keep_alive_interval", "outgoing_timeout": "outgoing_timeout"}
    ctx.check({k: v[0] for k, v in copies.items()} == want, "C12.R2", run, "new server connections receive keep_alive_interval and outgoing_timeout from the context",
              witness={k: v[0] for k, v in copies.items()})
    for attr, (src, n) in sorted(copies.items()):
        ctx.check(attr in decl_s and attr in reads, "C12.R2", run, "client.%s" % attr, "the copied setting lands in an attribute the connection declares and reads", line=n.lineno)
        # between construction and first use
        ctor = calls_named(run, "ServerClientConnection")
        rcfg2 = cfg_of(run)
        nn = rcfg2.node_of(n)
        rd = [c for c in calls_named(run, "_recv_datagram") if nn is not None and rcfg2.dominates(nn.id, rcfg2.node_of(c).id)]
        ok_c = bool(ctor) and nn is not None and rcfg2.dominates(rcfg2.node_of(ctor[0]).id, nn.id) and rcfg2.node_of(ctor[0]).id != nn.id
        ctx.check(ok_c and bool(rd), "C12.R2", run, "client.%s is set right after construction, before the first datagram is processed" % attr, line=n.lineno)
    # sweeps read the matching timeout
    tm = {}
    for c in calls_named(run, "timedout"):
        loop = [p for p in _parents(c, run.node) if isinstance(p, ast.For)]
        tm[norm(loop[0].iter) if loop else "?"] = norm(c.args[0]) if c.args else None
    ctx.check(tm == {"list(self.ctxt.connections.values())": "self.ctxt.connection_timeout", "list(self.ctxt.temp_connections.values())": "self.ctxt.temp_connection_timeout"},
              "C12.R2", run, "each pool's sweep uses its own configured timeout", witness=tm)
    # context setters write what is read
    swant = {"setKeepAliveInterval": "keep_alive_interval", "setConnectionTimeout": "connection_timeout", "setTempConnectionTimeout": "temp_connection_timeout",
             "setMessageTimeout": "outgoing_timeout", "setInterval": "interval"}
    read_in_server = set()
    for q in ("server:UdpServerThread.run", "server:UdpServerThread.__init__"):
        for n in walk_own(ctx.fn(q).node):
            if isinstance(n, ast.Attribute) and norm(n.value) == "self.ctxt" and isinstance(n.ctx, ast.Load):
                read_in_server.add(n.attr)
    cinit = ctx.fn("context:ServerContext.__init__")
    cdecl = {n.targets[0].attr for n in walk_own(cinit.node) if isinstance(n, ast.Assign) and isinstance(n.targets[0], ast.Attribute) and norm(n.targets[0].value) == "self"}
    for q in CTX_SETTERS:
        fi = ctx.fn(q)
        attr = swant[fi.name]
        ws = [n for n in walk_own(fi.node) if isinstance(n, ast.Assign) and norm(n.targets[0]) == "self.%s" % attr and norm(n.value) == fi.params[1]]
        ctx.check(len(ws) == 1 and attr in read_in_server and attr in cdecl, "C12.R2", fi, "%s writes self.%s, which the server loop reads" % (fi.name, attr),
                  witness={"writes": [norm(n.targets[0]) for n in walk_own(fi.node) if isinstance(n, ast.Assign)], "read_by_server_loop": attr in read_in_server})


def _parents(node, stop):
    out = []
    p = getattr(node, "_parent", None)
    while p is not None and p is not stop:
        out.append(p)
        p = getattr(p, "_parent", None)
    return out


def r3(ctx):
    repo = ctx.repo
    bp = ctx.fn("connection:ConnectionBase._build_packet")
    cfg = cfg_of(bp)
    from .common import sym_text
    tdef = [n for n in walk_own(bp.node) if isinstance(n, ast.Assign) and norm(n.value) == "self.clock()"]
    tvar = norm(tdef[0].targets[0]) if tdef else "t0"
    call = calls_named(bp, "_build_packet_impl")
    if ctx.require("C12.R3", bp, "_build_packet_impl call", len(call), 1):
        # the value of the second argument, through whatever temporaries it is computed
        args = [sym_text(bp, a, cfg.node_of(call[0])) for a in call[0].args]
        ok = len(args) == 3 and args[1] in ("%s - self.last_send_keep_alive_time > self.send_keep_alive_interval" % tvar,
                                            "%s - self.last_send_keep_alive_time >= self.send_keep_alive_interval" % tvar)
        ctx.check(ok, "C12.R3", bp, "keep-alive flag := clock - last_send_keep_alive_time > send_keep_alive_interval", witness=args)
        ctx.check(len(args) == 3 and args[0] == tvar, "C12.R3", bp, "the flag is handed to the packet builder", witness=args)
        pv = norm(call[0]._parent.targets[0]) if isinstance(call[0]._parent, ast.Assign) else "pkt"
        ws = [n for n in cfg.stmts((ast.Assign,)) if norm(n.ast.targets[0]) == "self.last_send_keep_alive_time"]
        ok = len(ws) == 1 and norm(ws[0].ast.value) == tvar
        if ok:
            conds = [(norm(t), p) for (t, p) in cfg.conditions_of(ws[0].id) if "last_send_time" not in norm(t)]
            ok = conds == [(pv, True)]
        ctx.check(ok, "C12.R3", bp, "the keep-alive clock restarts exactly when a packet was built", "any emitted datagram counts as a sign of life", witness=[norm(w.ast) for w in ws])
    writers = sorted((a.fi.qual, a.kind) for a in attr_accesses(repo, "last_send_keep_alive_time") if a.kind in ("store", "aug"))
    ctx.check(writers == sorted([("connection:ConnectionBase.__init__", "store"), ("connection:ConnectionBase._build_packet", "store")]), "C12.R3", bp,
              "writers of last_send_keep_alive_time", witness=writers)
    # builder: KEEP_ALIVE iff no message selected and flag and CONNECTED
    bpi = ctx.fn("connection:ConnectionBase._build_packet_impl")
    bcfg = cfg_of(bpi)
    ka = [n for n in bcfg.stmts((ast.Assign,)) if norm(n.ast.targets[0]) == "pkt_type" and norm(n.ast.value) == "PacketType.KEEP_ALIVE"]
    if ctx.require("C12.R3", bpi, "KEEP_ALIVE selection in _build_packet_impl", len(ka), 1):
        kcc = CondCtx(ctx.folder, bpi.module, bpi.cls)
        conds = sorted(repr(l) for (t, p) in bcfg.conditions_of(ka[0].id, loop_exits=False) for l in kcc.literal(t, p))
        want = sorted(repr(l) for (t, p) in ((ast.parse("len(msgs) == 0", mode="eval").body, True), (ast.parse(bpi.params[2], mode="eval").body, True),
                                              (ast.parse("self.status == ConnectionStatus.CONNECTED", mode="eval").body, True)) for l in kcc.literal(t, p))
        ctx.check(conds == want, "C12.R3", bpi, "KEEP_ALIVE iff nothing selected and flag set and CONNECTED",
                  "the keep-alive must not depend on anything else (for example on queue contents)", witness=conds, line=ka[0].lineno)
    # a keep-alive packet is really built: pkt_type != UNKNOWN -> header + Packet.create([]) ; covered by C05.R5 early-return shape
    # every tick, regardless of queue contents
    up = ctx.fn("client:UdpClient.update")
    ucfg = cfg_of(up)
    bps = calls_named(up, "_build_packet")
    if ctx.require("C12.R3", up, "_build_packet call in UdpClient.update", len(bps), 1):
        ucc = CondCtx(ctx.folder, up.module, up.cls)
        conds = sorted((norm(t), p) for (t, p) in ucfg.conditions_of(ucfg.node_of(bps[0]).id))
        allowed = {repr(l) for (t, p) in ((ast.parse("self.conn", mode="eval").body, True),
                                          (ast.parse("self.conn.status == ConnectionStatus.DROPPED", mode="eval").body, False))
                   for l in ucc.literal(t, p)}
        extra = [(norm(t), p) for (t, p) in ucfg.conditions_of(ucfg.node_of(bps[0]).id)
                 if "last_send_time" not in norm(t) and any(repr(l) not in allowed for l in ucc.literal(t, p))]
        ctx.check(not extra, "C12.R3", up, "the client builds a packet on every send tick while not DROPPED", "no dependence on pending messages or on received data", witness=conds)
    su = ctx.fn("connection:ServerClientConnection.update")
    scfg = cfg_of(su)
    bps = calls_named(su, "_build_packet")
    if ctx.require("C12.R3", su, "_build_packet call in ServerClientConnection.update", len(bps), 1):
        conds = sorted((norm(t), p) for (t, p) in scfg.conditions_of(scfg.node_of(bps[0]).id))
        extra = [c for c in conds if "last_send_time" not in c[0]]
        ctx.check(not extra, "C12.R3", su, "the server connection builds a packet on every send tick", witness=conds)
    run = ctx.fn("server:UdpServerThread.run")
    ups = [c for c in calls_named(run, "update") if norm(c.func) == "client.update"]
    rcfg = cfg_of(run)
    # every live client is updated: in each sweep loop, with the outcomes that take a connection down removed
    # (status == DISCONNECTED, timedout(...)), every way round the loop passes a client.update() call
    from .common import leaf_cut
    def down(t):
        if t == "client.status == ConnectionStatus.DISCONNECTED" or t.startswith("client.timedout("):
            return "T"
        if t == "client.status != ConnectionStatus.DISCONNECTED":
            return "F"
        return None
    cut = leaf_cut(rcfg, down)
    n_ok = 0
    loops = {}
    for c in ups:
        lp = [p for p in _parents(c, run.node) if isinstance(p, ast.For)]
        if lp:
            loops.setdefault(id(lp[0]), (lp[0], []))[1].append(rcfg.node_of(c).id)
    for (lp, upd) in loops.values():
        head = rcfg.node_of(lp).id
        live_edge = lambda a, b_, label: not (a.id in cut and label == cut[a.id]) and label not in ("exc", "raise")
        # from the first statement of the body, can the loop head be reached again without an update (live edges only)?
        starts = [d for (d, l) in rcfg.succ[head] if l not in ("done",)]
        bypass = any(head in rcfg.reachable(s0, avoid=set(upd), edge_ok=live_edge) for s0 in starts if s0 not in upd)
        if not bypass and any(k for k in cut if lp in _parents(rcfg.nodes[k].ast, run.node)):
            n_ok += 1
    ctx.check(n_ok >= 2, "C12.R3", run, "every live connection (connected and temp) is updated each tick", witness=n_ok)
    # tick guard constant: send tick must be shorter than the keep alive interval default
    init = ctx.fn("connection:ConnectionBase.__init__")
    vals = {}
    for n in walk_own(init.node):
        if isinstance(n, ast.Assign) and norm(n.targets[0]) in ("self.send_interval", "self.send_keep_alive_interval", "self.outgoing_timeout", "self.temp_connection_timeout"):
            vals[norm(n.targets[0])[5:]] = ctx.folder.fold(n.value, init.module)
    ok = all(isinstance(v, (int, float)) for v in vals.values()) and len(vals) == 4 and vals["send_interval"] < vals["send_keep_alive_interval"] < vals["outgoing_timeout"]
    ctx.check(ok, "C12.R3", init, "defaults: send_interval < send_keep_alive_interval < outgoing_timeout", witness={k: str(v) for k, v in vals.items()})
    cinit = ctx.fn("context:ServerContext.__init__")
    cvals = {}
    for n in walk_own(cinit.node):
        if isinstance(n, ast.Assign) and norm(n.targets[0]) in ("self.keep_alive_interval", "self.connection_timeout", "self.temp_connection_timeout", "self.outgoing_timeout"):
            cvals[norm(n.targets[0])[5:]] = ctx.folder.fold(n.value, cinit.module)
    ok = all(isinstance(v, (int, float)) for v in cvals.values()) and len(cvals) == 4 and cvals["keep_alive_interval"] < cvals["connection_timeout"]
    ctx.check(ok, "C12.R3", cinit, "server defaults: keep_alive_interval < connection_timeout", witness={k: str(v) for k, v in cvals.items()})


def r4(ctx):
    repo = ctx.repo
    rd = ctx.fn("connection:ConnectionBase._recv_datagram")
    cfg = cfg_of(rd)
    ws = [a for a in attr_accesses(repo, "last_recv_time") if a.kind in ("store", "aug")]
    where = sorted((a.fi.qual) for a in ws)
    ctx.check(where == sorted(["connection:ConnectionBase.__init__", "connection:ConnectionBase._recv_datagram"]), "C12.R4", rd, "writers of last_recv_time",
              "only received datagrams refresh the liveness clock", witness=where)
    st = [n for n in cfg.stmts((ast.Assign,)) if norm(n.ast.targets[0]) == "self.last_recv_time"]
    fb = [c for c in calls_named(rd, "from_bytes") if norm(c.func) == "Packet.from_bytes"]
    ins = [c for c in calls_named(rd, "insert") if norm(c.func.value) == "self.bitfield_pkt"]
    if ctx.require("C12.R4", rd, "last_recv_time store", len(st), 1) and fb and ins:
        A, D = cfg.node_of(fb[0]).id, cfg.node_of(ins[0]).id
        preA = cfg.reachable(cfg.entry, through_effect={A})
        preD = cfg.reachable(cfg.entry, through_effect={D})
        ctx.check(st[0].id not in preA and st[0].id not in preD, "C12.R4", rd, "the liveness clock moves only after authentication and de-duplication",
                  "forged or replayed datagrams cannot keep a dead connection alive", line=st[0].lineno)
        v = st[0].ast.value
        src = None
        for n in walk_own(rd.node):
            if isinstance(n, ast.Assign) and norm(n.targets[0]) == norm(v):
                src = norm(n.value)
        ctx.check(src == "self.clock()", "C12.R4", rd, "last_recv_time := self.clock()", witness=src)
    to = ctx.fn("connection:ConnectionBase.timedout")
    rets = [n for n in walk_own(to.node) if isinstance(n, ast.Return)]
    age = [n for n in walk_own(to.node) if isinstance(n, ast.Assign) and norm(n.value) == "self.clock() - self.last_recv_time"]
    ok = len(rets) == 1 and ((len(age) == 1 and norm(rets[0].value) in ("%s >= %s" % (norm(age[0].targets[0]), to.params[1]), "%s > %s" % (norm(age[0].targets[0]), to.params[1])))
                             or norm(rets[0].value) in ("self.clock() - self.last_recv_time >= %s" % to.params[1],))
    ctx.check(ok, "C12.R4", to, "timedout(t) == (clock() - last_recv_time >= t)", witness=[norm(r.value) for r in rets])
    # client DROPPED after 5 s
    up = ctx.fn("connection:ClientServerConnection.update")
    ucfg = cfg_of(up)
    dr = [n for n in ucfg.stmts((ast.Assign,)) if norm(n.ast.targets[0]) == "self.status" and norm(n.ast.value).endswith(".DROPPED")]
    if ctx.require("C12.R4", up, "status = DROPPED in ClientServerConnection.update", len(dr), 1):
        ifs = [p for p in _parents(dr[0].ast, up.node) if isinstance(p, ast.If)]
        t = ifs[0].test if ifs else None
        const = None
        shape = False
        if t is not None:
            for n in ast.walk(t):
                if isinstance(n, ast.Compare) and len(n.ops) == 1 and isinstance(n.ops[0], (ast.Gt, ast.GtE)) and isinstance(n.comparators[0], ast.BinOp) and \
                        isinstance(n.comparators[0].op, ast.Add) and norm(n.comparators[0].left) == "self.last_recv_time":
                    const = ctx.folder.fold(n.comparators[0].right, up.module)
                    tv = norm(n.left)
                    src = [x for x in walk_own(up.node) if isinstance(x, ast.Assign) and norm(x.targets[0]) == tv]
                    shape = bool(src) and norm(src[0].value) == "self.clock()"
        ctx.check(shape and const == 5, "C12.R4", up, "DROPPED when clock() > last_recv_time + 5", "the client reports a silent server after 5 seconds", witness={"constant": str(const), "test": norm(t)}, line=dr[0].lineno)
        loops = [p for p in _parents(dr[0].ast, up.node) if isinstance(p, (ast.For, ast.While))]
        conds = [(norm(tt), p) for (tt, p) in ucfg.conditions_of(dr[0].id)]
        ctx.check(not loops and all(("last_recv_time" in c[0]) for c in conds), "C12.R4", up, "the DROPPED test runs on every update, unconditionally", witness=conds)
    cu = ctx.fn("client:UdpClient.update")
    c = [x for x in calls_named(cu, "update") if norm(x.func) == "self.conn.update"]
    ccfg = cfg_of(cu)
    ok = len(c) == 1 and [(norm(t), p) for (t, p) in ccfg.conditions_of(ccfg.node_of(c[0]).id)] == [("self.conn", True)]
    ctx.check(ok, "C12.R4", cu, "UdpClient.update always drives conn.update()")
    # the only way a connection ends on the client is the status machine (DROPPED after 5 s of silence, DISCONNECTED after the connect
    # timeout): the socket stays unconnected - on a connected UDP socket an ICMP port-unreachable answer comes back as ConnectionRefusedError
    # from send / recv, at once and outside that machine - and update() discards the connection for ConnectionResetError only
    conns = []
    for f in ctx.repo.funcs.values():
        if f.module.name == "client" and not f.is_lambda:
            for c in walk_own(f.node):
                if isinstance(c, ast.Call) and isinstance(c.func, ast.Attribute) and c.func.attr in ("connect", "connect_ex") and norm(c.func.value).endswith("sock"):
                    conns.append("%s: %s" % (f.qual, norm(c)[:60]))
    ctx.check(not conns, "C12.R4", cu, "the client's UDP socket is never connected (datagrams go out with sendto)",
              "a refused port must look like silence: the timeouts decide, not the operating system's error", witness=conns)
    drops = []
    for h in [h_ for t_ in walk_own(cu.node) if isinstance(t_, ast.Try) for h_ in t_.handlers]:
        if any(isinstance(x, ast.Assign) and norm(x.targets[0]) == "self.conn" and norm(x.value) == "None" for x in ast.walk(h)) or any(isinstance(x, ast.Raise) for x in h.body):
            drops.append(norm(h.type) if h.type is not None else "<bare>")
    ctx.check(set(drops) <= {"ConnectionResetError"}, "C12.R4", cu, "update() gives a connection up only for ConnectionResetError", witness=drops)


def r5(ctx):
    up = ctx.fn("connection:ClientServerConnection.update")
    cfg = cfg_of(up)
    dis = [n for n in cfg.stmts((ast.Assign,)) if norm(n.ast.targets[0]) == "self.status" and norm(n.ast.value).endswith(".DISCONNECTED")]
    if not ctx.require("C12.R5", up, "status = DISCONNECTED on connect timeout", len(dis), 1):
        return
    from .common import sym_text
    conds = [(sym_text(up, t, cfg.node_of(t) or dis[0]), p) for (t, p) in cfg.conditions_of(dis[0].id)]
    dep = [c for c in conds if "connection_callback" in c[0]]
    ctx.check(not dep, "C12.R5", up, "the connect timeout does not depend on a callback having been given",
              "without a callback the status must still become DISCONNECTED", witness=conds, line=dis[0].lineno)
    tmo = [c for c in conds if "self.temp_connection_timeout" in c[0] and "self.time_client_hello_sent" in c[0] and c[1]]
    started = ("self.time_client_hello_sent", True) in conds
    ctx.check(bool(tmo) and started, "C12.R5", up, "timeout test: clock - time_client_hello_sent > temp_connection_timeout while a hello is outstanding", witness=conds, line=dis[0].lineno)
    cbs = [c for c in calls_named(up, "connection_callback")]
    for c in cbs:
        cc = [(sym_text(up, t, cfg.node_of(t) or cfg.node_of(c)), p) for (t, p) in cfg.conditions_of(cfg.node_of(c).id)]
        ctx.check(("self.connection_callback", True) in cc and [norm(a) for a in c.args] == ["False"], "C12.R5", up, c, "the callback is optional and reports False", witness=cc, line=c.lineno)
        ctx.check(all(x in cc for x in conds), "C12.R5", up, "the callback fires on the timeout path only", witness=cc, line=c.lineno)
    ctx.require("C12.R5", up, "connection_callback(False) call", len(cbs), 1)
    rs = [n for n in cfg.stmts((ast.Assign,)) if norm(n.ast.targets[0]) == "self.time_client_hello_sent" and norm(n.ast.value) == "0"]
    ok = len(rs) == 1 and sorted((sym_text(up, t, cfg.node_of(t) or rs[0]), p) for (t, p) in cfg.conditions_of(rs[0].id)) == sorted(conds)
    ctx.check(ok, "C12.R5", up, "the outstanding-hello marker is cleared on the timeout path", "the timeout fires once", witness=[norm(r.ast) for r in rs])
    # sibling: _recvServerHello treats the callback as optional and clears the marker
    rs2 = ctx.fn("connection:ClientServerConnection._recvServerHello")
    cfg2 = cfg_of(rs2)
    for c in calls_named(rs2, "connection_callback"):
        cc = [(norm(t), p) for (t, p) in cfg2.conditions_of(cfg2.node_of(c).id)]
        ctx.check(cc == [("self.connection_callback", True)] and [norm(a) for a in c.args] == ["True"], "C12.R5", rs2, c, "sibling site: optional callback, reports True", witness=cc, line=c.lineno)
    clr = [n for n in walk_own(rs2.node) if isinstance(n, ast.Assign) and norm(n.targets[0]) == "self.time_client_hello_sent" and norm(n.value) == "0"]
    ctx.check(len(clr) == 1, "C12.R5", rs2, "a completed handshake clears the outstanding-hello marker (no later timeout)")
    sh = ctx.fn("connection:ClientServerConnection._sendClientHello")
    st = [n for n in walk_own(sh.node) if isinstance(n, ast.Assign) and norm(n.targets[0]) == "self.time_client_hello_sent"]
    ctx.check(len(st) == 1 and norm(st[0].value) == "self.clock()", "C12.R5", sh, "the marker is the clock at hello time", witness=[norm(s) for s in st])
    # the deadline runs from the start of the attempt: the marker is set by _sendClientHello only, and _sendClientHello is called by
    # connect() only.  A re-send of the hello from a timeout callback or from update() would set the marker again and push the deadline
    # ahead of every check (message timeout < connection timeout are the defaults): an unanswered attempt never ends.
    setters = []
    for f in ctx.repo.funcs.values():
        if f.module.name in ("connection", "client") :
            for n in walk_own(f.node):
                tg = n.targets if isinstance(n, ast.Assign) else [n.target] if isinstance(n, (ast.AugAssign, ast.AnnAssign)) else []
                for t in tg:
                    if isinstance(t, ast.Attribute) and t.attr == "time_client_hello_sent" and not (isinstance(n, ast.Assign) and norm(n.value) == "0"):
                        setters.append(f.qual)
    ctx.check(sorted(set(setters)) == [sh.qual], "C12.R5", sh, "only _sendClientHello starts the connect deadline", witness=sorted(set(setters)))
    cg = ctx.callgraph()
    callers = sorted({e.caller.qual for e in cg.callers(sh.qual)})
    ctx.check(callers == ["client:UdpClient.connect"], "C12.R5", sh, "the connect deadline is started once per attempt: _sendClientHello is called by connect() only",
              "a re-send from a timeout callback or from update() restarts the deadline and the attempt never times out", witness=callers)
    # connect() stores the callback before the hello is sent
    cn = ctx.fn("client:UdpClient.connect")
    cb = [n for n in walk_own(cn.node) if isinstance(n, ast.Assign) and norm(n.targets[0]) == "self.conn.connection_callback"]
    hello = calls_named(cn, "_sendClientHello")
    ctx.check(len(cb) == 1 and norm(cb[0].value) == cn.params[2] and len(hello) == 1 and before(cn, cb[0], hello[0]), "C12.R5", cn, "connect() registers the callback, then sends the hello")


def r_enum(ctx):
    from .common import repo_idioms
    repo_idioms(ctx, "C12.R6", ('connection', 'client', 'context', 'server'))



# who may take a connection down, confirmed by reading (one line of reason each)
DOWN_SITES = {
    "connection:ConnectionBase.__init__": "a new connection object starts DISCONNECTED",
    "connection:ConnectionBase.disconnect": "explicit request of the application (or the server's final step of a peer-initiated disconnect)",
    "connection:ConnectionBase._recvDisconnect": "the peer's authenticated DISCONNECT message",
    "connection:ClientServerConnection.update": "client side: silence timeout (DROPPED, C12.R4) and connect timeout (DISCONNECTED, C12.R5)",
    "connection:ClientServerConnection._recvServerHello": "the server hello failed signature verification (C02.R2)",
    "connection:ServerClientConnection._recvChallengeResponse": "the challenge response carried the wrong token (C02.R5)",
}


def r_down(ctx):
    """an idle, healthy connection goes down only by the liveness timeouts: every store of a 'down' status (DISCONNECTED,
    DISCONNECTING, DROPPED) into a connection's status is at one of the enumerated sites; in particular no acknowledgement
    timeout of an individual message (a callback) may take the connection down - acks travel only in the peer's next datagram,
    so a message timeout shorter than the peer's keep-alive interval would drop a working link"""
    found = {}
    for a in attr_accesses(ctx.repo, "status"):
        if a.kind != "store" or a.fi.module.name not in ("connection", "client", "server", "context", "twisted") or not isinstance(a.stmt, ast.Assign):
            continue
        v = ctx.folder.fold(a.stmt.value, a.fi.module, cls=a.fi.cls)
        member = getattr(v, "member", None)
        if member is None:
            t = norm(a.stmt.value)
            member = t.split(".")[-1] if t.startswith("ConnectionStatus.") else None
        if member in ("DISCONNECTED", "DISCONNECTING", "DROPPED"):
            found.setdefault(a.fi.qual, []).append(a)
    ctx.expect("C12.R7", "functions that take a connection down", len(found), 4)
    for q, accs in sorted(found.items()):
        if q in DOWN_SITES:
            ctx.holds("C12.R7", accs[0].fi, "status = down in %s" % q.split(":")[1], DOWN_SITES[q])
        else:
            for a in accs:
                ctx.violated("C12.R7", a.fi, a.stmt, "the connection is taken down outside the enumerated causes (liveness timeouts, explicit or peer disconnect, failed handshake)",
                             witness={"site": q, "allowed": sorted(DOWN_SITES)}, line=a.stmt.lineno)


EXPLANATION = EXPLANATION + " (R7) a connection's status is set to DISCONNECTED / DISCONNECTING / DROPPED only at the six enumerated sites (liveness timeouts, explicit or peer disconnect, failed handshake): no per-message acknowledgement timeout takes a working link down."

EXPLANATION = EXPLANATION + ' (R5, as built) the connect deadline is started by _sendClientHello only, and _sendClientHello is called by connect() only (call graph): a re-send of the hello from a timeout callback would restart the deadline and an unanswered attempt would never end.'

RULES = [("C12.R1", r1), ("C12.R2", r2), ("C12.R3", r3), ("C12.R4", r4), ("C12.R5", r5), ("C12.R6", r_enum), ("C12.R7", r_down)]
