"""C20 - dispatcher routes by message class; register/unregister are inverses."""
import ast

from engine.index import norm, walk_own
from engine.cfg import cfg_of
from engine.defuse import defuse_of, attr_accesses
from .common import calls_named, before

EXPLANATION = (
    "Static rules over dispatch.py. Decides: (R1) key normalisation agreement: every store, delete, lookup and membership test on "
    "registered_events uses a NAME-kind key - T.__name__ or a value that passed the idiom `if isinstance(k, type): k = k.__name__`; "
    "(R2) guard polarity (contradiction rule): a `del D[k]` whose every incoming path carries `k not in D` must fail, a store D[k] = "
    "v is reached only under `k not in D` (duplicate refused with an exception); (R3) dispatch looks up type(msg).__name__, raises "
    "DispatchError before any call when absent and calls exactly one handler with the parameters unchanged and in order, on both "
    "dispatchers; (R4) register/unregister are symmetric: same iteration over dir(resource), same filter, register_function("
    "attr._event, attr) <-> unregister_function(attr._event) without a pre-test on a raw key; (R5) the decorators record the "
    "annotation of the message parameter (index 3 of 4 / 2 of 3); (R7) entries leave the table only on request: removals lie in "
    "unregister_function, which only unregister uses, and unregister is used nowhere inside the package (a refused registration "
    "must not be undone by event name). Does not decide behaviour over operation sequences."
)
ASSUMPTIONS = ["classes in different modules with the same __name__ are out of scope (documented limitation of the dispatcher)"]

D = "dispatch:MessageDispatcher."


def _name_kind(fi, expr, at):
    """is `expr` a NAME-kind key at cfg node `at`?  T.__name__, or a variable normalised by the isinstance idiom"""
    t = norm(expr)
    if t.endswith(".__name__"):
        return True, "%s" % t
    if isinstance(expr, ast.Name):
        # idiom: if isinstance(k, type): k = k.__name__   dominating the use
        for n in walk_own(fi.node):
            if isinstance(n, ast.If) and norm(n.test) == "isinstance(%s, type)" % expr.id and len(n.body) == 1 and norm(n.body[0]) == "%s = %s.__name__" % (expr.id, expr.id) \
                    and not n.orelse and before(fi, n, expr):
                return True, "normalised by `if isinstance(%s, type): %s = %s.__name__`" % (expr.id, expr.id, expr.id)
        # general form: every definition of the variable that reaches the use is X.__name__, or is a value V bound on a path
        # on which `isinstance(V, type)` is false (so V is not a class), or is the variable itself after the idiom
        du = defuse_of(fi)
        cfg = du.cfg
        defs = du.reaching(expr.id, at.id if hasattr(at, "id") else at)
        if defs:
            ok = True
            for d in defs:
                v = d[1]
                if isinstance(v, ast.AST) and norm(v).endswith(".__name__"):
                    continue
                # V.__name__ if isinstance(V, type) else V   (and the mirrored form): the same normalisation as an expression
                if isinstance(v, ast.IfExp):
                    tt = norm(v.test)
                    for (cls_arm, other_arm, txt) in ((v.body, v.orelse, "isinstance(%s, type)"), (v.orelse, v.body, "not isinstance(%s, type)")):
                        if isinstance(other_arm, ast.Name) and tt == txt % other_arm.id and norm(cls_arm) == "%s.__name__" % other_arm.id:
                            break
                    else:
                        ok = False
                    continue
                if isinstance(v, ast.Name) and d[0] != "ENTRY":
                    conds = [(norm(t_), p_) for (t_, p_) in cfg.conditions_of(d[0])]
                    if ("isinstance(%s, type)" % v.id, False) in conds:
                        continue
                ok = False
            if ok:
                return True, "every reaching definition of %s is a class name or a value that is not a class" % expr.id
    return False, "raw key %s (a class object when the annotation is a class)" % t


def r1(ctx):
    repo = ctx.repo
    acc = [a for a in attr_accesses(repo, "registered_events", ("dispatch",))]
    n = 0
    for a in acc:
        p = getattr(a.node, "_parent", None)
        key = None
        what = None
        if isinstance(p, ast.Subscript) and p.value is a.node:
            key, what = p.slice, {ast.Store: "store", ast.Del: "delete", ast.Load: "lookup"}[type(p.ctx)]
        elif isinstance(p, ast.Compare) and a.node in p.comparators:
            key, what = p.left, "membership test"
        elif a.kind == "store":
            continue
        else:
            continue
        n += 1
        node = cfg_of(a.fi).node_of(a.node)
        ok, why = _name_kind(a.fi, key, node)
        ctx.check(ok, "C20.R1", a.fi, "%s with key %s" % (what, norm(key)), "handlers are stored under the class *name*: " + why, witness={"key": norm(key), "kind": why}, line=a.node.lineno)
    ctx.expect("C20.R1", "keyed accesses to registered_events", n, 5)


def r2(ctx):
    uf = ctx.fn(D + "unregister_function")
    cfg = cfg_of(uf)
    dels = [n for n in cfg.stmts((ast.Delete,)) if norm(n.ast.targets[0]).startswith("self.registered_events[")]
    if ctx.require("C20.R2", uf, "del self.registered_events[...]", len(dels), 1):
        d = dels[0]
        k = norm(d.ast.targets[0].slice)
        conds = [(norm(t), p) for (t, p) in cfg.conditions_of(d.id)]
        absent = ("%s in self.registered_events" % k, False) in conds or ("%s not in self.registered_events" % k, True) in conds
        ctx.check(not absent, "C20.R2", uf, "the delete is not guarded by `key not in registered_events`",
                  "contradiction: deleting a key on a path where it is known to be absent always raises; unregister can never succeed", witness=conds, line=d.lineno)
        # reachable at all when the key is present
        rz = [n for n in cfg.stmts((ast.Raise,))]
        for r in rz:
            c2 = [(norm(t), p) for (t, p) in cfg.conditions_of(r.id)]
            present = ("%s in self.registered_events" % k, True) in c2
            ctx.check(not present, "C20.R2", uf, r.ast, "unregistering a registered event does not raise", witness=c2, line=r.lineno)
    rf = ctx.fn(D + "register_function")
    cfg = cfg_of(rf)
    st = [n for n in cfg.stmts((ast.Assign,)) if norm(n.ast.targets[0]).startswith("self.registered_events[")]
    if ctx.require("C20.R2", rf, "self.registered_events[...] = fn", len(st), 1):
        s = st[0]
        k = norm(s.ast.targets[0].slice)
        conds = [(norm(t), p) for (t, p) in cfg.conditions_of(s.id)]
        ok = ("%s in self.registered_events" % k, False) in conds or ("%s not in self.registered_events" % k, True) in conds
        ctx.check(ok, "C20.R2", rf, "a handler is stored only when the name is not registered yet", "registering a second handler for the same class is refused", witness=conds, line=s.lineno)
        ctx.check(norm(s.ast.value) == rf.params[2], "C20.R2", rf, "the stored handler is the function passed in")
        # with the name already registered the function cannot return: every path that answers the membership test with
        # "present" ends in an explicit raise (whichever way round the test is written)
        from .common import leaf_cut, reach_without
        cut = leaf_cut(cfg, lambda t: "F" if t == "%s in self.registered_events" % k else "T" if t == "%s not in self.registered_events" % k else None)
        seen = reach_without(cfg, cfg.entry, cut)
        explicit = [n for n in cfg.stmts((ast.Raise,)) if n.id in seen]
        normal = cfg.reachable(cfg.entry, edge_ok=lambda a, b_, label: not (a.id in cut and label == cut[a.id]) and label not in ("exc", "raise"))
        ctx.check(bool(cut) and bool(explicit) and cfg.exit not in normal, "C20.R2", rf, "a duplicate registration raises",
                  "no path on which the name is found registered reaches the end of the function", witness=[norm(n.ast) for n in explicit], line=s.lineno)


def r3(ctx):
    for q, nparams in (("dispatch:ServerMessageDispatcher.dispatch", 3), ("dispatch:ClientMessageDispatcher.dispatch", 2)):
        fi = ctx.fn(q)
        cfg = cfg_of(fi)
        params = fi.params[1:]
        ctx.check(len(params) == nparams, "C20.R3", fi, "dispatch takes %d arguments" % nparams, witness=params)
        msg = params[-1]
        # by value: the callee is self.registered_events[K] with K = type(msg).__name__, read through temporaries
        from .common import sym_expr
        want_key = "type(%s).__name__" % msg

        def val(e, at):
            return sym_expr(fi, e, cfg.node_of(at), allow_calls=("type",))
        calls = []
        for c_ in walk_own(fi.node):
            if isinstance(c_, ast.Call):
                f = val(c_.func, c_)
                if isinstance(f, ast.Subscript) and norm(f.value) == "self.registered_events":
                    calls.append((c_, f))
        if not ctx.require("C20.R3", fi, "handler call self.registered_events[...](...)", len(calls), 1):
            continue
        c, f = calls[0]
        key = norm(f.slice)
        ctx.check(key == want_key, "C20.R3", fi, "the handler is looked up by type(msg).__name__", witness=key, line=c.lineno)
        ctx.check([norm(a) for a in c.args] == params and not c.keywords, "C20.R3", fi, "arguments are passed through unchanged and in order", witness=[norm(a) for a in c.args], line=c.lineno)

        def member_conds(nid):
            out = set()
            for (t, p) in cfg.conditions_of(nid):
                if isinstance(t, ast.Compare) and len(t.ops) == 1 and isinstance(t.ops[0], (ast.In, ast.NotIn)) and norm(t.comparators[0]) == "self.registered_events" \
                        and norm(val(t.left, t)) == want_key:
                    out.add(p == isinstance(t.ops[0], ast.In))       # True: the key is registered on this path
            return out
        # the lookup itself (which may be bound to a temporary before the call) and the call execute only for a registered key
        lookups = [n for n in walk_own(fi.node) if isinstance(n, ast.Subscript) and norm(n.value) == "self.registered_events" and isinstance(n.ctx, ast.Load)]
        ok = member_conds(cfg.node_of(c).id) == {True} or (bool(lookups) and all(member_conds(cfg.node_of(n).id) == {True} for n in lookups)
                                                            and all(cfg.dominates(cfg.node_of(n).id, cfg.node_of(c).id) for n in lookups))
        ctx.check(ok, "C20.R3", fi, "the call is reached only when a handler is registered", witness=[(norm(t), p) for (t, p) in cfg.conditions_of(cfg.node_of(c).id)], line=c.lineno)
        rz = [n for n in cfg.stmts((ast.Raise,))]
        okr = len(rz) == 1 and isinstance(rz[0].ast.exc, ast.Call) and norm(rz[0].ast.exc.func) == "DispatchError"
        if okr:
            okr = member_conds(rz[0].id) == {False} and cfg.node_of(c).id not in cfg.reachable(rz[0].id, skip_labels=())
        ctx.check(okr, "C20.R3", fi, "no handler -> DispatchError, nothing is called", line=rz[0].lineno if rz else 0)
        loops = [n for n in walk_own(fi.node) if isinstance(n, (ast.For, ast.While))]
        ctx.check(not loops, "C20.R3", fi, "exactly one handler is invoked (no loop)")
    de = ctx.repo.cls("dispatch:DispatchError")
    ctx.check([norm(b) for b in de.node.bases] == ["Exception"], "C20.R3", de.qual, "DispatchError is an Exception")


def _enumeration(fi, call):
    """how the loop around `call` enumerates the resource's members -> (kind, object text, member variable, filter conjuncts)"""
    l = call
    while l is not None and not isinstance(l, ast.For):
        l = getattr(l, "_parent", None)
    if l is None:
        return ("none", None, None)
    it = l.iter
    # collect-then-process: `for x in found` where another loop of the function did `found.append(member)` for the members it
    # selected: the enumeration and the selection are those of the collecting loop
    if isinstance(it, ast.Name) and isinstance(l.target, ast.Name):
        apps = [c for c in walk_own(fi.node) if isinstance(c, ast.Call) and isinstance(c.func, ast.Attribute) and c.func.attr == "append"
                and isinstance(c.func.value, ast.Name) and c.func.value.id == it.id and len(c.args) == 1 and isinstance(c.args[0], ast.Name)]
        inits = [s_ for s_ in walk_own(fi.node) if isinstance(s_, ast.Assign) and len(s_.targets) == 1 and isinstance(s_.targets[0], ast.Name) and s_.targets[0].id == it.id]
        if len(apps) == 1 and len(inits) == 1 and norm(inits[0].value) in ("[]", "list()"):
            inner = _enumeration(fi, apps[0])
            if inner[0] == "all-members" and inner[2] == apps[0].args[0].id:
                cfg = cfg_of(fi)
                conds = [(_abs(norm(t), inner[2]), pol) for (t, pol) in cfg.conditions_of(cfg.node_of(apps[0]).id)]
                extra = list(inner[3]) if len(inner) > 3 else []
                return ("all-members", inner[1], l.target.id, extra + [c for c, pol in conds if pol] + ["not " + c for c, pol in conds if not pol])
    # for name in dir(X): attr = getattr(X, name)
    if isinstance(it, ast.Call) and norm(it.func) == "dir" and len(it.args) == 1 and isinstance(l.target, ast.Name):
        obj, name = norm(it.args[0]), l.target.id
        gets = [s for s in l.body if isinstance(s, ast.Assign) and len(s.targets) == 1 and isinstance(s.targets[0], ast.Name)
                and isinstance(s.value, ast.Call) and norm(s.value.func) == "getattr" and [norm(x) for x in s.value.args] == [obj, name]]
        if len(gets) == 1 and l.body[0] is gets[0]:
            return ("all-members", obj, gets[0].targets[0].id)
        return ("unknown:" + norm(it), obj, None)
    # for name, attr in inspect.getmembers(X[, predicate])
    if isinstance(it, ast.Call) and norm(it.func) in ("inspect.getmembers", "getmembers") and it.args and isinstance(l.target, ast.Tuple) and len(l.target.elts) == 2 \
            and isinstance(l.target.elts[1], ast.Name):
        extra = ["%s(@)" % norm(it.args[1])] if len(it.args) > 1 else []
        return ("all-members", norm(it.args[0]), l.target.elts[1].id, extra)
    return ("unknown:" + norm(it), None, None)


def _abs(text, var):
    import re
    return re.sub(r"\b%s\b" % re.escape(var), "@", text) if var else text


def r4(ctx):
    rg, ur = ctx.fn(D + "register"), ctx.fn(D + "unregister")
    sides = {}
    for fi, callee in ((rg, "register_function"), (ur, "unregister_function")):
        cs = calls_named(fi, callee)
        if not ctx.require("C20.R4", fi, "%s call in %s" % (callee, fi.name), len(cs), 1):
            return
        c = cs[0]
        en = _enumeration(fi, c)
        var = en[2]
        cfg = cfg_of(fi)
        conds = sorted(set([(_abs(norm(t), var), pol) for (t, pol) in cfg.conditions_of(cfg.node_of(c).id)] + [(x, True) for x in (en[3] if len(en) > 3 else [])]))
        sides[fi.name] = {"enumeration": en[0], "object": en[1], "filter": conds, "args": [_abs(norm(a), var) for a in c.args], "recv": norm(c.func.value)}
    a, b = sides["register"], sides["unregister"]
    ctx.check(a["enumeration"] == b["enumeration"] == "all-members" and a["object"] == rg.params[1] and b["object"] == ur.params[1], "C20.R4", ur,
              "register and unregister enumerate the same members (every attribute of the resource, inherited ones included)",
              witness={"register": a["enumeration"], "unregister": b["enumeration"]})
    want = [("hasattr(@, '_event')", True), ("inspect.isroutine(@)", True)]
    ctx.check(a["filter"] == b["filter"] == want, "C20.R4", ur, "register and unregister visit the same methods (same filter)",
              "a pre-test comparing the raw annotation with the registered names never matches for class annotations",
              witness={"register": a["filter"], "unregister": b["filter"]})
    ctx.check(a["args"] == ["@._event", "@"] and a["recv"] == "self", "C20.R4", rg, "register -> register_function(attr._event, attr)", witness=a["args"])
    ctx.check(b["args"] == ["@._event"] and b["recv"] == "self", "C20.R4", ur, "unregister -> unregister_function(attr._event)", witness=b["args"])


def r5(ctx):
    """by value: what is stored as method._event is the annotation of the last of exactly n parameters of the method's signature,
    however the parameter list is held (items() pairs or values(), named temporaries, positive or negative index)"""
    from .common import sym_expr, leaf_cut, reach_without
    for q, n, idx in (("dispatch:server_event", 4, 3), ("dispatch:client_event", 3, 2)):
        fi = ctx.fn(q)
        cfg = cfg_of(fi)
        mp = fi.params[0]
        sig = "inspect.signature(%s)" % mp
        plist = {"items": "list(%s.parameters.items())" % sig, "values": "list(%s.parameters.values())" % sig}
        allow = lambda t: t in ("inspect.signature", "list") or t.endswith(".parameters.items") or t.endswith(".parameters.values")

        du = defuse_of(fi)

        def unpacked(e, at):
            """names bound by `a, b, c = E` (no star) stand for list(E)[k]"""
            node = cfg.node_of(at)

            class _U(ast.NodeTransformer):
                def visit_Name(self, nm):
                    if not isinstance(nm.ctx, ast.Load) or node is None:
                        return nm
                    defs = du.reaching(nm.id, node.id)
                    if len(defs) == 1 and isinstance(defs[0][1], tuple) and defs[0][1][0] == "unpack" and isinstance(defs[0][1][1], int) and isinstance(defs[0][1][2], ast.AST):
                        stmt = cfg.nodes[defs[0][0]].ast
                        tg = stmt.targets[0] if isinstance(stmt, ast.Assign) and len(stmt.targets) == 1 else None
                        if isinstance(tg, (ast.Tuple, ast.List)) and not any(isinstance(x, ast.Starred) for x in tg.elts):
                            src = norm(sym_expr(fi, defs[0][1][2], cfg.nodes[defs[0][0]], allow_calls=allow, depth=8))
                            return ast.parse("list(%s)[%d]" % (src, defs[0][1][1]), mode="eval").body
                    return nm
            return _U().visit(ast.parse(ast.unparse(e), mode="eval").body)

        def val(e, at):
            e2 = unpacked(e, at)
            if ast.unparse(e2) != ast.unparse(e):
                return norm(e2)
            return norm(sym_expr(fi, e, cfg.node_of(at), allow_calls=allow, depth=8))
        st = [x for x in walk_own(fi.node) if isinstance(x, ast.Assign) and norm(x.targets[0]) == "%s._event" % mp]
        if not ctx.require("C20.R5", fi, "store of %s._event" % mp, len(st), 1):
            continue
        v = val(st[0].value, st[0])
        want = ["%s[%d][1].annotation" % (plist["items"], k) for k in (idx, idx - n)] + ["%s[%d].annotation" % (plist["values"], k) for k in (idx, idx - n)]
        ctx.check(v in want, "C20.R5", fi, "the message parameter is parameter %d" % idx, witness=v)
        ctx.check(v in want, "C20.R5", fi, "the annotation of the message parameter is recorded on the method", witness=v)
        ctx.check(v.startswith(plist["items"]) or v.startswith(plist["values"]), "C20.R5", fi, "parameters are taken from the method signature, in order", witness=v)
        S = cfg.node_of(st[0])
        # exactly n parameters: with the edge on which len(parameters) == n removed, the store is unreachable
        def arity(text):
            return None
        cut = {}
        for nd in cfg.nodes:
            if nd.kind == "test" and isinstance(nd.ast, ast.Compare) and len(nd.ast.ops) == 1 and isinstance(nd.ast.ops[0], (ast.Eq, ast.NotEq)):
                l, r = nd.ast.left, nd.ast.comparators[0]
                for a_, b_ in ((l, r), (r, l)):
                    if isinstance(a_, ast.Call) and norm(a_.func) == "len" and len(a_.args) == 1 and isinstance(b_, ast.Constant) and b_.value == n \
                            and val(a_.args[0], nd.ast) in (plist["items"], plist["values"], "%s.parameters" % sig):
                        cut[nd.id] = "T" if isinstance(nd.ast.ops[0], ast.Eq) else "F"
        ok = bool(cut) and S.id not in reach_without(cfg, cfg.entry, cut)
        ctx.check(ok, "C20.R5", fi, "%s requires exactly %d parameters" % (fi.name, n), witness=sorted(norm(cfg.nodes[k].ast) for k in cut))
        # a missing annotation is refused: with the edge on which the annotation is not `empty` removed, the store is unreachable
        cut = {}
        for nd in cfg.nodes:
            if nd.kind == "test" and isinstance(nd.ast, ast.Compare) and len(nd.ast.ops) == 1 and isinstance(nd.ast.ops[0], (ast.Is, ast.IsNot, ast.Eq, ast.NotEq)):
                l, r = nd.ast.left, nd.ast.comparators[0]
                for a_, b_ in ((l, r), (r, l)):
                    if norm(b_) in ("inspect._empty", "inspect.Parameter.empty", "inspect.Signature.empty") and val(a_, nd.ast) == v:
                        cut[nd.id] = "F" if isinstance(nd.ast.ops[0], (ast.Is, ast.Eq)) else "T"
        ok = bool(cut) and S.id not in reach_without(cfg, cfg.entry, cut)
        ctx.check(ok, "C20.R5", fi, "a missing annotation is refused", witness=sorted(norm(cfg.nodes[k].ast) for k in cut))
        rets = [norm(r.value) for r in walk_own(fi.node) if isinstance(r, ast.Return)]
        ctx.check(rets == [mp], "C20.R5", fi, "the decorator returns the method itself")


def r_idioms(ctx):
    from .common import repo_idioms
    repo_idioms(ctx, "C20.R6", ('dispatch',))


def r7(ctx):
    """entries leave the table only on request: the statements that remove from registered_events lie in unregister_function,
    the package calls unregister_function only from unregister and unregister from nowhere - in particular not from the
    registration side (a refused or failed registration must leave the handlers of other resources where they are)"""
    uf = ctx.fn(D + "unregister_function")
    removers = []
    for q, fi in ctx.repo.funcs.items():
        if fi.is_lambda or fi.module.name != "dispatch":
            continue
        for n in walk_own(fi.node):
            hit = None
            if isinstance(n, ast.Delete) and any("registered_events" in norm(t) for t in n.targets):
                hit = norm(n)
            elif isinstance(n, ast.Call) and isinstance(n.func, ast.Attribute) and n.func.attr in ("pop", "popitem", "clear", "__delitem__") and norm(n.func.value).endswith("registered_events"):
                hit = norm(n)
            elif isinstance(n, (ast.Assign, ast.AugAssign, ast.AnnAssign)) and fi.name != "__init__" \
                    and any(isinstance(t, ast.Attribute) and t.attr == "registered_events" for t in (n.targets if isinstance(n, ast.Assign) else [n.target])):
                hit = norm(n)
            if hit:
                removers.append((fi.qual, hit))
    ctx.expect("C20.R7", "statements that remove from registered_events", len(removers), 1)
    ctx.check(all(q == uf.qual for q, _ in removers), "C20.R7", uf, "entries are removed from registered_events only in unregister_function",
              "a handler stays registered until its own unregistration", witness=removers)
    callers = {"unregister_function": [], "unregister": []}
    for q, fi in ctx.repo.funcs.items():
        if fi.is_lambda:
            continue
        for n in walk_own(fi.node):
            if isinstance(n, ast.Attribute) and n.attr in callers and isinstance(n.ctx, ast.Load):
                callers[n.attr].append(fi.qual)
            elif isinstance(n, ast.Name) and n.id in callers and isinstance(n.ctx, ast.Load):
                callers[n.id].append(fi.qual)
    ctx.check(set(callers["unregister_function"]) <= {D + "unregister"}, "C20.R7", uf, "unregister_function is used only by unregister",
              "nothing in the package removes a handler on its own account (for instance to undo a refused registration)", witness=sorted(set(callers["unregister_function"])))
    ur = ctx.fn(D + "unregister")
    ctx.check(not callers["unregister"], "C20.R7", ur, "unregister is not used inside the package",
              "unregistration by event name removes whoever holds the name: undoing a refused registration with it removes the handler that caused the refusal",
              witness=sorted(set(callers["unregister"])))


RULES = [("C20.R1", r1), ("C20.R2", r2), ("C20.R3", r3), ("C20.R4", r4), ("C20.R5", r5), ("C20.R6", r_idioms), ("C20.R7", r7)]
