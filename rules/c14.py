"""C14 - deserializing hostile bytes is safe and bounded."""
import ast

from engine.index import norm, walk_own, Repo, FuncInfo
from engine.cfg import cfg_of
from engine.callgraph import CallGraph
from engine.defuse import defuse_of
from engine.embedded import struct_sites, fmt_size
from .common import calls_named, package_calls, contained, before
from .c02 import _Sub
from . import c13, c11

EXPLANATION = (
    "Static rules over the decoder call graph D = everything reachable from Serializable.loadb / deserialize_value, including the "
    "reader table entries, every package `deserialize` method and the constructors of registered classes. Decides: (R1) no `while` "
    "in D; every loop whose trip count derives from stream data is capped by an isinstance(int) test plus an upper-bound raise, or "
    "is consumption-bounded (every iteration decodes at least one value, and decoding raises at end of stream); recursion passes "
    "through deserialize_value only; no function of D repositions a stream (seek / truncate / peek), so consumption-bounded means "
    "bounded by the input size; (R2) no stream-derived integer reaches an allocation sink ([x]*n, bytes(n), bytearray(n), "
    "list(range(n)), str*n) - a positive control keeps the rule alive; (R3) no callable computed inside a decoder function is applied to anything, dynamic instantiation is only registry[type_id]() / "
    "deserialize_types[type_id](...) after membership tests, no eval/exec/pickle/__import__, attribute names written by setattr "
    "come from the class's own _fields; (R4) every primitive reader unpacks exactly calcsize bytes (short input raises); the 2-byte "
    "tag read is length-checked; (R5) the hello decoded before authentication is inside the server loop's containment and its "
    "deserialize is in D. Does not decide measured time or peak memory; loadz (gzip) is not on the network path."
)
ASSUMPTIONS = [
    "stream is an io.BytesIO over the received datagram payload: read(n) returns at most the remaining bytes",
    "RecursionError on deeply nested input is an ordinary exception",
]

M = "serializable"
SINK_CONTROL = '''
def control_reader(stream, **kwargs):
    length = deserialize_value(stream, **kwargs)
    buf = [None] * length
    raw = bytearray(length)
    return buf, raw
'''


def decoder_graph(ctx):
    if getattr(ctx, "_c14_graph", None) is not None:
        return ctx._c14_graph
    ctx._c14_graph = _decoder_graph(ctx)
    return ctx._c14_graph


def _decoder_graph(ctx):
    repo = ctx.repo
    cg = ctx.callgraph()
    writers, readers, notes = c13.fold_tables(ctx)
    seeds = ["%s:Serializable.loadb" % M, "%s:deserialize_value" % M]
    for tag, rname in readers.items():
        q = "%s:%s" % (M, rname)
        if q in repo.funcs:
            seeds.append(q)
    # registry[type_id]() and obj.deserialize(): every package class created by the serializable metaclasses
    for ci in repo.classes.values():
        names = [c.name for c in repo.mro(ci)]
        if "Serializable" in names or "SerializableEnum" in names:
            for mname in ("deserialize", "__init__"):
                f = repo.resolve_method(ci, mname)
                if f is not None:
                    seeds.append(f.qual)
    seeds = sorted(set(seeds))
    # closure over resolved edges; by-name edges are followed only inside the serializer and connection modules
    seen = {}
    stack = list(seeds)
    for s in seeds:
        seen[s] = None
    while stack:
        q = stack.pop()
        for e in cg.out.get(q, []):
            if e.approx and e.callee.module.name not in (M, "connection", "crypto"):
                continue
            if e.callee.qual not in seen:
                seen[e.callee.qual] = e
                stack.append(e.callee.qual)
    D = [repo.funcs[q] for q in sorted(seen) if repo.funcs[q].module.name in (M, "connection")]
    return D, cg, seeds, readers


def _stream_ints(fi):
    """local names bound from deserialize_value(...) / struct.unpack(...)[0] in fi"""
    out = set()
    for n in walk_own(fi.node):
        if isinstance(n, ast.Assign) and isinstance(n.targets[0], (ast.Name, ast.Tuple)):
            src = [c for c in ast.walk(n.value) if isinstance(c, ast.Call) and norm(c.func) in ("deserialize_value", "struct.unpack")]
            if src:
                for t in ast.walk(n.targets[0]):
                    if isinstance(t, ast.Name):
                        out.add(t.id)
    return out


def _consumes_or_exits(fi, loop):
    """`x = <stream>.read(...)` at the top level of the loop body, followed (top level, no `continue` anywhere in the loop) by
    `if not x: break / raise / return` (or len(x) == 0): an iteration that does not leave the loop consumed at least one byte of
    a finite input"""
    if any(isinstance(x, ast.Continue) for x in ast.walk(loop)) or loop.orelse:
        return False
    got = None
    for st in loop.body:
        if isinstance(st, ast.Assign) and len(st.targets) == 1 and isinstance(st.targets[0], ast.Name) and isinstance(st.value, ast.Call) \
                and isinstance(st.value.func, ast.Attribute) and st.value.func.attr == "read" and isinstance(st.value.func.value, ast.Name) \
                and st.value.func.value.id in fi.params:
            got = st.targets[0].id
            continue
        if got and isinstance(st, ast.If) and st.body and isinstance(st.body[-1], (ast.Break, ast.Raise, ast.Return)):
            t = norm(st.test)
            if t in ("not %s" % got, "len(%s) == 0" % got, "%s == b''" % got, "not len(%s)" % got, "len(%s) < 1" % got):
                return True
        if got and any(isinstance(x, ast.Name) and x.id == got and isinstance(x.ctx, ast.Store) for x in ast.walk(st)):
            got = None
    return False


def _loops(fi):
    """(kind, node, iter expr) for for-loops and comprehension generators"""
    out = []
    for n in walk_own(fi.node):
        if isinstance(n, ast.For):
            out.append(("for", n, n.iter, n.body))
        elif isinstance(n, (ast.ListComp, ast.SetComp, ast.GeneratorExp, ast.DictComp)):
            for g in n.generators:
                elt = [n.elt] if not isinstance(n, ast.DictComp) else [n.key, n.value]
                out.append(("comp", n, g.iter, elt))
        elif isinstance(n, ast.While):
            out.append(("while", n, n.test, n.body))
    return out


def r1(ctx):
    D, cg, seeds, readers = decoder_graph(ctx)
    ctx.expect("C14.R1", "functions in the decoder graph", len(D), 20)
    n_loops = 0
    for fi in D:
        ctx.analysed["functions"].add(fi.qual)
        ints = _stream_ints(fi)
        for (kind, node, it, body) in _loops(fi):
            n_loops += 1
            if kind == "while":
                if _consumes_or_exits(fi, node):
                    ctx.holds("C14.R1", fi, node, "`while` loop: every iteration reads from the stream and leaves the loop when the read returns nothing (bounded by the input size)")
                    continue
                ctx.violated("C14.R1", fi, node, "`while` loop in the decoder graph", "termination of a while loop on hostile input is not evident from its shape", line=node.lineno)
                continue
            dep = None
            if isinstance(it, ast.Call) and norm(it.func) == "range" and it.args:
                names = {x.id for a in it.args for x in ast.walk(a) if isinstance(x, ast.Name)}
                dep = names & ints
            if not dep:
                ctx.holds("C14.R1", fi, "loop over %s" % norm(it)[:50], "trip count does not derive from stream data")
                continue
            var = sorted(dep)[0]
            # capped?
            capped = False
            tychk = False
            for g in walk_own(fi.node):
                if isinstance(g, ast.If) and before(fi, g, node) and any(isinstance(s, ast.Raise) for s in g.body):
                    t = norm(g.test)
                    if t.startswith("%s > " % var):
                        capped = True
                    if t == "not isinstance(%s, int)" % var:
                        tychk = True
            # consumption bounded: every iteration decodes (or raises)
            cons = _consumes(fi, kind, node, body)
            ok = (capped and tychk) or cons
            ctx.check(ok, "C14.R1", fi, "loop over range(%s) (stream-derived)" % var,
                      "iteration is bounded by a checked cap or by stream consumption", witness={"capped": capped, "int_checked": tychk, "consumption_bounded": cons}, line=node.lineno)
    ctx.expect("C14.R1", "loops in the decoder graph", n_loops, 5)
    # the decoder only moves forward: "bounded by consumption" (loops and recursion alike) counts bytes that are consumed once.
    # A decoder that repositions its stream can decode the same bytes again - per nesting level that is 2^depth work for 2 bytes
    # per level.  (tell() reads the position and is harmless; a new BytesIO over a decoded *value* re-reads bytes that the outer
    # stream has consumed for good, a constant factor.)
    back = []
    for fi in D:
        for c in walk_own(fi.node):
            if isinstance(c, ast.Call) and isinstance(c.func, ast.Attribute) and c.func.attr in ("seek", "truncate", "peek", "seekable", "readinto") \
                    and not (c.func.attr == "seek" and fi.name in ("loadz",)):
                back.append((fi, c))
    for fi, c in back:
        ctx.violated("C14.R1", fi, c, "the decoder repositions its stream", "bytes that were decoded once can be decoded again: decoding work is no longer bounded by the input size", line=c.lineno)
    if not back:
        ctx.holds("C14.R1", ctx.fn("%s:deserialize_value" % M), "no function of the decoder graph repositions a stream (seek / truncate / peek)",
                  "every byte is consumed at most once per stream")
    # recursion only through deserialize_value
    dq = {f.qual for f in D}
    hub = "%s:deserialize_value" % M
    graph = {q: [e.callee.qual for e in cg.out.get(q, []) if e.callee.qual in dq and not (e.approx and e.callee.module.name not in (M, "connection"))] for q in dq}
    # add the dynamic edges of the hub
    graph[hub] = sorted(set(graph.get(hub, [])) | {q for q in dq if q.split(":")[1].startswith("deserialize_") and q != hub} | {q for q in dq if q.endswith(".deserialize")})
    cyc = _cycle_avoiding(graph, hub)
    ctx.check(cyc is None, "C14.R1", ctx.fn(hub), "recursion in the decoder passes through deserialize_value",
              "every recursive descent consumes at least the 2-byte tag (which is length-checked)", witness=cyc)
    dv = ctx.fn(hub)
    chk = [n for n in walk_own(dv.node) if isinstance(n, ast.If) and norm(n.test) in ("len(buf) != 2", "len(buf) < 2") and any(isinstance(s, ast.Raise) for s in n.body)]
    ctx.check(len(chk) == 1, "C14.R1", dv, "end of stream raises (tag read is length-checked)", witness=[norm(c.test) for c in chk])


def _consumes(fi, kind, node, body):
    """does every path through one iteration call deserialize_value (or raise)?"""
    if kind == "comp":
        return any(isinstance(c, ast.Call) and norm(c.func) == "deserialize_value" for e in body for c in ast.walk(e))
    cfg = cfg_of(fi)
    head = cfg.node_of(node)
    dec = {cfg.node_of(c).id for c in ast.walk(node) if isinstance(c, ast.Call) and norm(c.func) == "deserialize_value" and cfg.node_of(c) is not None and cfg.node_of(c).id != head.id}
    if not dec:
        return False
    # from the first body node back to the head without passing a decoding node?
    starts = [d for (d, l) in cfg.succ[head.id] if l == "iter"]
    for s in starts:
        if s in dec:
            continue
        if head.id in cfg.reachable(s, avoid=dec, skip_labels=("exc", "raise")):
            return False
    return True


def _cycle_avoiding(graph, hub):
    """a cycle in graph that does not pass through hub, or None"""
    color = {}

    def dfs(u, path):
        color[u] = 1
        for v in graph.get(u, []):
            if v == hub:
                continue
            if color.get(v) == 1:
                return path + [u, v]
            if color.get(v) is None:
                r = dfs(v, path + [u])
                if r:
                    return r
        color[u] = 2
        return None
    for n in graph:
        if n != hub and color.get(n) is None:
            r = dfs(n, [])
            if r:
                return r
    return None


def alloc_sinks(fnode, ints):
    out = []
    for n in ast.walk(fnode):
        if isinstance(n, ast.BinOp) and isinstance(n.op, ast.Mult):
            for a, b in ((n.left, n.right), (n.right, n.left)):
                if isinstance(a, ast.Name) and a.id in ints and isinstance(b, (ast.List, ast.Constant, ast.Tuple, ast.Name, ast.Call)) and not (isinstance(b, ast.Constant) and isinstance(b.value, (int, float))):
                    out.append(n)
        if isinstance(n, ast.Call) and norm(n.func) in ("bytes", "bytearray", "list", "tuple", "set") and n.args:
            a = n.args[0]
            if isinstance(a, ast.Name) and a.id in ints:
                out.append(n)
            if isinstance(a, ast.Call) and norm(a.func) == "range" and any(isinstance(x, ast.Name) and x.id in ints for x in ast.walk(a)):
                out.append(n)
    return out


def r2(ctx):
    D, cg, seeds, readers = decoder_graph(ctx)
    found = []
    for fi in D:
        ints = _stream_ints(fi)
        for s in alloc_sinks(fi.node, ints):
            # even a capped length (MAX_ARRAY_LENGTH elements) is far more than "a small multiple of the input size"
            # for a ten-byte input: no stream-sized allocation is accepted in the decoder
            found.append((fi, s))
    for (fi, s) in found:
        ctx.violated("C14.R2", fi, s, "a stream-derived integer sizes an allocation: a few hostile bytes could make the decoder allocate far more than the input size",
                     witness=norm(s), line=s.lineno)
    if not found:
        ctx.holds("C14.R2", "%s:deserialize_value" % M, "no stream-sized allocation in %d decoder functions" % len(D))
    # no expansion step between the peer's bytes and the decoder: every cap of the decoder (MAX_BYTES_LENGTH, MAX_ARRAY_LENGTH, "bounded by
    # consumption") counts bytes of the stream it is given - if that stream is the output of a decompressor, a kilobyte of hostile input is
    # a megabyte of decoder input.  loadz / dumpz are the explicit entry points for trusted local data and must not be reachable from the
    # functions that decode peer data.
    EXPAND = ("gzip", "zlib", "bz2", "lzma", "zipfile", "tarfile", "brotli", "zstd")
    exp = []
    for fi in D:
        for c in walk_own(fi.node):
            if isinstance(c, ast.Call):
                t = norm(c.func)
                head = t.split(".")[0]
                rn = ctx.repo.resolve_name(fi.module, head)
                target = rn[1] if rn is not None and rn[0] in ("extmodule", "external") else ""
                if target.split(".")[0] in EXPAND or t.split(".")[-1] in ("decompress", "decompressobj", "GzipFile"):
                    exp.append((fi, c))
    for fi, c in exp:
        ctx.violated("C14.R2", fi, c, "a decompressor is reachable from the functions that decode peer data: the decoder's length caps and its consumption bound count decompressed bytes, "
                     "a small hostile input expands to a large decoder input (allocation and work far beyond a small multiple of the received size)", witness=norm(c)[:80], line=c.lineno)
    if not exp:
        ctx.holds("C14.R2", "%s:deserialize_value" % M, "no decompression step is reachable from the peer-data entry points (%d decoder functions)" % len(D),
                  "decoder input size = received size")
    # positive control
    tree = ast.parse(SINK_CONTROL)
    fn = tree.body[0]
    fake = FuncInfo(ctx.repo.mod(M), fn, "control:control_reader")
    hits = alloc_sinks(fn, _stream_ints(fake))
    ctx.check(len(hits) == 2, "C14.R2", "%s:deserialize_value" % M, "positive control: the sink scanner matches `[None] * length` and `bytearray(length)`",
              "a rule whose expected count is zero is kept alive by a control that must match", witness=[norm(h) for h in hits])
    # stream.read(n): n is stream-derived only after the cap (strings/bytes) - reads are bounded by the stream anyway
    for rname in ("deserialize_string", "deserialize_bytes"):
        fi = ctx.fn("%s:%s" % (M, rname))
        caps = [g for g in walk_own(fi.node) if isinstance(g, ast.If) and " > MAX_BYTES_LENGTH" in norm(g.test) and any(isinstance(x, ast.Raise) for x in g.body)]
        ty = [g for g in walk_own(fi.node) if isinstance(g, ast.If) and norm(g.test).startswith("not isinstance(") and any(isinstance(x, ast.Raise) for x in g.body)]
        rd = [c for c in calls_named(fi, "read")]
        ok = len(caps) == 1 and len(ty) == 1 and len(rd) >= 1 and before(fi, ty[0], caps[0]) and all(before(fi, caps[0], c) for c in rd)
        if ok:
            cfg = cfg_of(fi)
            tn = [n for n in cfg.nodes if n.kind == "test" and n.stmt is ty[0]]
            cn = [n for n in cfg.nodes if n.kind == "test" and n.stmt is caps[0]]
            ok = bool(tn) and bool(cn) and all(cfg.dominates(tn[0].id, cfg.node_of(c).id) and cfg.dominates(cn[0].id, cfg.node_of(c).id) for c in rd)
        ctx.check(ok, "C14.R2", fi, "%s: isinstance(int) test, then cap, then read" % rname, witness=[norm(g.test) for g in ty + caps])


def r3(ctx):
    D, cg, seeds, readers = decoder_graph(ctx)
    banned = ("eval", "exec", "compile", "__import__", "pickle.loads", "pickle.load", "marshal.loads", "importlib.import_module", "globals", "locals", "vars")
    bad = []
    dyn = []
    computed = []
    for fi in D:
        ints = _stream_ints(fi)
        for c in walk_own(fi.node):
            if not isinstance(c, ast.Call):
                continue
            f = norm(c.func)
            if f in banned:
                bad.append("%s: %s" % (fi.qual, norm(c)[:60]))
            if f in ("getattr", "setattr", "delattr", "hasattr") and len(c.args) >= 2:
                name = c.args[1]
                src = None
                if isinstance(name, ast.Name):
                    du = defuse_of(fi)
                    node = du.cfg.node_of(c)
                    defs = du.reaching(name.id, node.id) if node is not None else []
                    src = [norm(d[1]) if isinstance(d[1], ast.AST) else str(d[1]) for d in defs]
                    ok = bool(defs) and all(isinstance(d[1], ast.AST) and (norm(d[1]).startswith("self._fields[") or norm(d[1]) in ("self._fields", "self.__annotations__.items()") or
                                            isinstance(d[1], ast.Constant)) or (isinstance(d[1], tuple) and d[1][0] == "unpack" and "__annotations__" in norm(d[1][2])) or
                                            (isinstance(d[1], ast.AST) and norm(d[1]) == "kwargs.items()") or (isinstance(d[1], tuple) and "kwargs.items()" in norm(d[1][2])) for d in defs)
                    if name.id in ints:
                        ok = False
                elif isinstance(name, ast.Constant):
                    ok = True
                elif isinstance(name, ast.Subscript) and norm(name.value) == "self._fields":
                    # the name is taken from the class's own field list in place: an index, never a string from the stream
                    ok = True
                    src = norm(name)
                else:
                    ok = False
                if not ok:
                    bad.append("%s: %s (name from %s)" % (fi.qual, norm(c)[:60], src))
            # dynamic instantiation / dispatch through a subscripted table (also when the table entry is held in a temporary)
            fexpr = c.func
            tr = {}
            if isinstance(fexpr, ast.Name):
                from .common import sym_expr
                cn_ = cfg_of(fi).node_of(c)
                if cn_ is not None:
                    fexpr = sym_expr(fi, fexpr, cn_, trace=tr)
            if isinstance(fexpr, ast.Subscript):
                dyn.append((fi, c, fexpr, list(tr.values())))
            elif isinstance(c.func, ast.Name) and c.args and any(isinstance(x, ast.Name) and x.id == c.func.id and isinstance(x.ctx, ast.Store) for x in walk_own(fi.node)):
                # a callable computed in the function (not a table entry) applied to something: what it builds from a decoded value
                # is not bounded by the input - bytes(n), list(range(n)), a class picked by an annotation
                computed.append("%s: %s (callee %s)" % (fi.qual, norm(c)[:60], norm(fexpr)[:60]))
            if isinstance(c.func, ast.Call) and isinstance(c.func.func, ast.Subscript):
                dyn.append((fi, c.func, c.func.func, []))
    ctx.check(not bad, "C14.R3", "%s:deserialize_value" % M, "no eval/exec/pickle/import and no attribute access by a stream-derived name in the decoder graph", witness=bad)
    ctx.check(not computed, "C14.R3", "%s:deserialize_value" % M, "no computed callable is applied to decoded data in the decoder graph",
              "constructors reached from the decoder are the registered class and the table's readers - a type taken from an annotation and called on a "
              "decoded value (bytes(n) for an integer n) allocates what the peer names, not what it sent", witness=computed)
    dv = ctx.fn("%s:deserialize_value" % M)
    cfg = cfg_of(dv)
    from .common import sym_text
    # the object that decodes itself is an instance made by *calling* the registered class (so that __init__ has materialised the
    # field defaults): a bare __new__ leaves class-level placeholders in every field the stream does not assign
    from .common import sym_expr as _sx
    from engine.defuse import defuse_of as _du
    for c in walk_own(dv.node):
        if isinstance(c, ast.Call) and isinstance(c.func, ast.Attribute) and c.func.attr == "deserialize" and isinstance(c.func.value, ast.Name):
            node = cfg.node_of(c)
            defs = _du(dv).reaching(c.func.value.id, node.id)
            okc = bool(defs)
            wit = []
            for d in defs:
                v = d[1]
                wit.append(norm(v) if isinstance(v, ast.AST) else str(v)[:40])
                if not (isinstance(v, ast.Call) and not v.args and not v.keywords):
                    okc = False
                    continue
                f = _sx(dv, v.func, cfg.nodes[d[0]] if d[0] != "ENTRY" else node) if isinstance(v.func, ast.Name) else v.func
                if not (isinstance(f, ast.Subscript) and norm(f.value) == "registry"):
                    okc = False
            ctx.check(okc, "C14.R3", dv, "the decoded object is created by calling the registered class (registry[type_id]())",
                      "an instance made without __init__ keeps class-level placeholders in the fields the stream does not assign: the result is not composed of supported and registered types",
                      witness=wit, line=c.lineno)
    ctx.expect("C14.R3", "table-dispatch call sites in the decoder", len(dyn), 2)
    for (fi, c, fexpr, defsites) in dyn:
        tab = norm(fexpr.value)
        key = norm(fexpr.slice)
        okf = fi is dv and tab in ("deserialize_types", "registry")
        if okf:
            # the membership test holds where the entry is called, or where it was taken out of the table into a temporary
            conds = []
            for nid in [cfg.node_of(c).id] + list(defsites):
                for (t, p) in cfg.conditions_of(nid):
                    tn = cfg.node_of(t)
                    conds.append((sym_text(dv, t, tn) if tn is not None else norm(t), p))
            okf = ("%s in %s" % (key, tab), True) in conds
        else:
            conds = None
        if not okf and fi is not dv and fi.module.name == M and tab in ("serialize_types",):
            continue
        ctx.check(okf, "C14.R3", fi, c, "table dispatch %s[%s] only after the membership test: only builtin readers and registered classes can be selected by the type id" % (tab, key),
                  witness=conds, line=c.lineno)
    # the registry default is the package registry; a caller-supplied registry is a local argument, never stream data
    reg = [n for n in walk_own(dv.node) if isinstance(n, ast.Assign) and norm(n.targets[0]) == "registry"]
    ctx.check(len(reg) == 1 and norm(reg[0].value) == "kwargs.get('registry', SerializableType.registry)", "C14.R3", dv, "registry := kwargs.get('registry', SerializableType.registry)",
              witness=[norm(r.value) for r in reg])
    for (f, c) in package_calls(ctx.repo, "loadb"):
        if f.module.name in ("connection",):
            bad_kw = [k.arg for k in c.keywords if k.arg not in ("server_public_key",)]
            ctx.check(not bad_kw, "C14.R3", f, c, "peer data is decoded with the default registry", witness=bad_kw, line=c.lineno)
    # unknown ids raise
    rz = [n for n in walk_own(dv.node) if isinstance(n, ast.Raise)]
    ctx.check(len(rz) >= 2, "C14.R3", dv, "unknown type ids raise", witness=[norm(r)[:60] for r in rz])


def r4(ctx):
    writers, readers, notes = c13.fold_tables(ctx)
    n = 0
    for tag, rname in sorted(readers.items()):
        q = "%s:%s" % (M, rname)
        if q not in ctx.repo.funcs:
            ctx.violated("C14.R4", "%s:deserialize_value" % M, "reader %s of tag %d is not a package function" % (rname, tag))
            continue
        fi = ctx.fn(q)
        us = [s for s in struct_sites(fi, ctx.folder) if s.kind == "unpack"]
        if not us:
            continue
        n += 1
        rfi, shape = c13.reader_shape(ctx, rname)
        ok = shape is not None and shape[2] == fmt_size(shape[4].fmt)
        ctx.check(ok, "C14.R4", fi, "tag %d: %s reads exactly calcsize('%s') bytes" % (tag, rname, shape[4].fmt if shape else "?"),
                  "a truncated value makes struct.unpack raise instead of decoding garbage", witness=None if shape is None else {"read": shape[2], "calcsize": fmt_size(shape[4].fmt)})
    ctx.expect("C14.R4", "primitive readers", n, 10)
    dv = ctx.fn("%s:deserialize_value" % M)
    # SerializableHeaderError inside a nested value is converted, never swallowed
    hs = [h for h in ast.walk(dv.node) if isinstance(h, ast.ExceptHandler)]
    ok = all(any(isinstance(s, ast.Raise) for s in h.body) for h in hs)
    ctx.check(ok, "C14.R4", dv, "deserialize_value never swallows a decoding error", witness=[norm(h)[:60] for h in hs])
    for fi in (ctx.fn("%s:deserialize_seq" % M),):
        hs = [h for h in ast.walk(fi.node) if isinstance(h, ast.ExceptHandler)]
        ctx.check(all(any(isinstance(s, ast.Raise) for s in h.body) for h in hs), "C14.R4", fi, "deserialize_seq re-raises element errors")


def r5(ctx):
    D, cg, seeds, readers = decoder_graph(ctx)
    dq = {f.qual for f in D}
    for q in ("connection:HandshakeClientHelloMessage.deserialize", "connection:HandshakeServerHelloMessage.deserialize", "%s:Serializable.deserialize" % M,
              "%s:SerializableEnum.deserialize" % M):
        ctx.check(q in dq, "C14.R5", q, "%s is analysed as part of the decoder graph" % q.split(":")[1])
    # HandshakeClientChallengeResponseMessage uses the generic Serializable.deserialize
    ci = ctx.repo.cls("connection:HandshakeClientChallengeResponseMessage")
    f = ctx.repo.resolve_method(ci, "deserialize")
    ctx.check(f is not None and f.qual == "%s:Serializable.deserialize" % M, "C14.R5", ci.qual, "the challenge response is decoded by the generic deserialize")
    # the pre-authentication decode happens inside the server loop's per-datagram containment
    c11.r2(_Sub(ctx, "C14.R5"))
    ch = ctx.fn("connection:ServerClientConnection._recvClientHello")
    lb = calls_named(ch, "loadb")
    ctx.check(len(lb) == 1 and norm(lb[0].args[0]) == ch.params[1], "C14.R5", ch, "the hello payload is decoded once, through Serializable.loadb")
    # client hello deserialize: fields then a bounded read
    de = ctx.fn("connection:HandshakeClientHelloMessage.deserialize")
    reads = [c for c in calls_named(de, "read")]
    ctx.check(len(reads) == 1 and not [n for n in walk_own(de.node) if isinstance(n, (ast.For, ast.While))], "C14.R5", de, "client hello decode: two values and one padding read, no loop")
    # EllipticCurvePublicKey.fromBytes on attacker bytes raises an ordinary exception (library) - assumption
    ctx.note("EllipticCurvePublicKey.fromBytes (cryptography load_der_public_key) is assumed to raise ValueError on malformed DER")


def r_idioms(ctx):
    from .common import repo_idioms
    repo_idioms(ctx, "C14.R6", ('serializable', 'connection'))


EXPLANATION = EXPLANATION + " (R2, as built) no decompressor (gzip, zlib, bz2, lzma, ...) is reachable from the functions that decode peer data: the decoder's caps and its consumption bound count the bytes of the stream it is given, which must be the received bytes."

RULES = [("C14.R1", r1), ("C14.R2", r2), ("C14.R3", r3), ("C14.R4", r4), ("C14.R5", r5), ("C14.R6", r_idioms)]
