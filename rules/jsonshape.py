"""Abstract interpretation of the per-field container dispatch of Serializable.toJson / fromJson (C15).

The two functions are sibling implementations of one dispatch over the annotated container kind (list, set, dict, tuple).
Instead of comparing their text, each branch body is executed over a small term language:

    subj                      the field's value (toJson) / the JSON value (fromJson)
    elem / key / val / idx    a generic element, key, value of subj, or subj[i] for the running position i
    conv(H, T, v)             helper H applied with type expression T in {arg0, arg1, arg_i, ann} to v
    listof(t)                 a list whose every element is t                  (loop / comprehension over subj)
    poslist(t, pad)           a list with t at every position i < len(subj) of the type arguments and pad elsewhere
    dictof(k, v)              a dict of k -> v over subj.items()
    call(f, t)                f(t) for the rebuilding constructors set / tuple / list / frozenset
    none                      None

and the branch that is selected for each origin is found by evaluating the if-chain's tests under `origin = o`.  The
result per origin is one term per side; the round trip needs both sides to use the same type argument at the same place
and the rebuilt container to be of the annotated kind.  Spelling (merged branches, comprehensions, temporaries, `==` for
`is`) does not matter; which type argument converts which position does."""
import ast

from engine.index import norm, walk_own

ORIGINS = ("list", "set", "dict", "tuple")


class Unsupported(Exception):
    pass


def find_chain(fi):
    """the first `if` whose test compares the name `origin` with a container type"""
    for n in walk_own(fi.node):
        if isinstance(n, ast.If) and _mentions_origin(n.test):
            return n
    return None


def _mentions_origin(test):
    for c in ast.walk(test):
        if isinstance(c, ast.Compare) and isinstance(c.left, ast.Name) and c.left.id == "origin":
            for r in c.comparators:
                for x in ast.walk(r):
                    if isinstance(x, ast.Name) and x.id in ORIGINS:
                        return True
    return False


def _conjuncts(test):
    if isinstance(test, ast.BoolOp) and isinstance(test.op, ast.And):
        out = []
        for v in test.values:
            out += _conjuncts(v)
        return out
    return [test]


def subject_of(chain):
    """text of the value the chain dispatches on: the first argument of its isinstance guards"""
    subs = set()
    node = chain
    while node is not None:
        for c in _conjuncts(node.test):
            if isinstance(c, ast.Call) and norm(c.func) == "isinstance" and len(c.args) == 2:
                subs.add(norm(c.args[0]))
        node = node.orelse[0] if len(node.orelse) == 1 and isinstance(node.orelse[0], ast.If) else None
    return subs.pop() if len(subs) == 1 else None


def eval_test(test, origin, subject, is_none, flags=None):
    """(value, guard kinds) of an if-chain test for a field of container kind `origin` whose value is (not) None.
    value is True / False / None (unknown).  and / or / not are evaluated structurally; `flags` are boolean locals
    ({name: (value, guard kinds)}) set earlier on the path."""
    guards = []

    def ev(c):
        if flags and isinstance(c, ast.Name) and c.id in flags:
            guards.extend(flags[c.id][1])
            return flags[c.id][0]
        if isinstance(c, ast.Constant) and isinstance(c.value, bool):
            return c.value
        if isinstance(c, ast.BoolOp):
            # left to right with short circuit: an operand that is not evaluated contributes no guard
            vals = []
            for v_ in c.values:
                r_ = ev(v_)
                vals.append(r_)
                if (isinstance(c.op, ast.And) and r_ is False) or (isinstance(c.op, ast.Or) and r_ is True):
                    break
            if isinstance(c.op, ast.And):
                if any(v is False for v in vals):
                    return False
                return None if any(v is None for v in vals) else True
            if any(v is True for v in vals):
                return True
            return None if any(v is None for v in vals) else False
        if isinstance(c, ast.UnaryOp) and isinstance(c.op, ast.Not):
            v = ev(c.operand)
            return None if v is None else (not v)
        if isinstance(c, ast.Compare) and len(c.ops) == 1 and isinstance(c.left, ast.Name) and c.left.id == "origin":
            op, r = c.ops[0], c.comparators[0]
            if isinstance(op, (ast.Is, ast.Eq)) and isinstance(r, ast.Name):
                return r.id == origin
            if isinstance(op, (ast.IsNot, ast.NotEq)) and isinstance(r, ast.Name):
                return r.id != origin
            if isinstance(op, (ast.In, ast.NotIn)) and isinstance(r, (ast.Tuple, ast.List, ast.Set)) and all(isinstance(e, ast.Name) for e in r.elts):
                return (origin in [e.id for e in r.elts]) == isinstance(op, ast.In)
            if isinstance(op, (ast.Is, ast.IsNot, ast.Eq, ast.NotEq)) and isinstance(r, ast.Constant) and r.value is None:
                return isinstance(op, (ast.IsNot, ast.NotEq))        # a generic field has an origin
            return None
        if isinstance(c, ast.Call) and norm(c.func) == "isinstance" and len(c.args) == 2 and norm(c.args[0]) == subject:
            guards.append(norm(c.args[1]))
            return not is_none       # a value of the annotated kind passes its guard (kinds are compared separately); None passes none
        if isinstance(c, ast.Compare) and len(c.ops) == 1 and norm(c.left) == subject and isinstance(c.comparators[0], ast.Constant) and c.comparators[0].value is None:
            if isinstance(c.ops[0], (ast.Is, ast.Eq)):
                return is_none
            if isinstance(c.ops[0], (ast.IsNot, ast.NotEq)):
                return not is_none
        return None
    return ev(test), guards


def select(chain, origin, subject, is_none=False):
    """(branch body, guard kinds, test node) selected for `origin`; body is the else suite when no test is true;
    (None, ..) when a test cannot be evaluated.  For a Region the 'body' is the request itself, evaluated by branch_term."""
    if isinstance(chain, Region):
        t, guards = region_term(chain, origin, "_toJsonBasic" if "toJson" in chain.fi.name else "_fromJsonBasic",
                                "obj[field]" if "toJson" in chain.fi.name else "setattr", is_none)
        body = ("REGION", chain, origin, is_none)
        return body, guards, (chain.stmts[0] if guards else None)
    node = chain
    while True:
        v, guards = eval_test(node.test, origin, subject, is_none)
        if v is None:
            return None, guards, node
        if v:
            return node.body, guards, node
        if len(node.orelse) == 1 and isinstance(node.orelse[0], ast.If):
            node = node.orelse[0]
        else:
            return node.orelse, [], None


class Interp(object):
    def __init__(self, subject, helper, sink):
        self.subject = subject
        self.helper = helper
        self.sink = sink            # 'obj[field]' (store) or 'setattr' (call)
        self.results = []

    # -- expressions
    def ev(self, e, env):
        t = norm(e)
        if t == self.subject:
            return ("subj",)
        if isinstance(e, ast.Name) and e.id in env:
            return env[e.id]
        if isinstance(e, ast.Constant) and e.value is None:
            return ("none",)
        if isinstance(e, ast.List) and not e.elts:
            return ("lb", [])
        if isinstance(e, ast.BinOp) and isinstance(e.op, ast.Mult) and {norm(e.left), norm(e.right)} == {"[None]", "len(args)"}:
            return ("pb", [])          # [None] * len(args): one slot per type argument, filled by index
        if isinstance(e, ast.Dict) and not e.keys:
            return ("db", [])
        if isinstance(e, ast.Call):
            f = norm(e.func)
            if f == self.helper and len(e.args) == 3:
                return ("conv", self.ev_type(e.args[0], env), self.ev(e.args[2], env))
            if f in ("set", "tuple", "list", "frozenset") and len(e.args) == 1 and not e.keywords:
                return ("call", f, self.fin(self.ev(e.args[0], env)))
            if f in ("list", "dict") and not e.args and not e.keywords:
                return ("lb", []) if f == "list" else ("db", [])
        if isinstance(e, ast.Subscript):
            b = self.ev(e.value, env)
            i = self.ev(e.slice, env)
            if b == ("subj",) and i == ("loopidx",):
                return ("idx",)
        if isinstance(e, (ast.ListComp, ast.SetComp, ast.GeneratorExp)) and len(e.generators) == 1 and not e.generators[0].ifs:
            g = e.generators[0]
            env2 = dict(env)
            kind = self.bind_loop(g.target, g.iter, env2)
            if kind == "args" and isinstance(e.elt, ast.IfExp):
                # [conv(t, rec[i]) if i < len(rec) else None for i, t in enumerate(args)]
                c = self.cond(e.elt.test, env2)
                if c is None:
                    return ("?", t)
                a_, b_ = self.ev(e.elt.body, env2), self.ev(e.elt.orelse, env2)
                out = ("poslist", a_, b_) if c else ("poslist", b_, a_)
                return ("call", "set", out) if isinstance(e, ast.SetComp) else out
            el = self.ev(e.elt, env2)
            if kind == "elem":
                out = ("listof", el)
            elif kind == "args":
                out = ("poslist", el, "unpadded")
            else:
                return ("?", t)
            return ("call", "set", out) if isinstance(e, ast.SetComp) else out
        if isinstance(e, ast.DictComp) and len(e.generators) == 1 and not e.generators[0].ifs:
            g = e.generators[0]
            env2 = dict(env)
            if self.bind_loop(g.target, g.iter, env2) == "items":
                return ("dictof", self.ev(e.key, env2), self.ev(e.value, env2))
        if isinstance(e, ast.IfExp):
            c = self.cond(e.test, env)
            if c is not None:
                a, b = self.ev(e.body, env), self.ev(e.orelse, env)
                return ("ite", c, a, b)
        return ("?", t)

    def ev_type(self, e, env):
        if isinstance(e, ast.Name) and e.id in env and env[e.id][0] == "type":
            return env[e.id][1]
        if isinstance(e, ast.Subscript) and norm(e.value) == "args":
            if isinstance(e.slice, ast.Constant) and isinstance(e.slice.value, int):
                return "arg%d" % e.slice.value
            if self.ev(e.slice, env) == ("loopidx",):
                return "arg_i"
        return "?" + norm(e)

    def cond(self, test, env):
        """`i < len(subject)` (either orientation / polarity) -> True when it means 'position present'"""
        if isinstance(test, ast.UnaryOp) and isinstance(test.op, ast.Not):
            c = self.cond(test.operand, env)
            return None if c is None else (not c)
        if isinstance(test, ast.Compare) and len(test.ops) == 1:
            l, r, op = test.left, test.comparators[0], test.ops[0]

            def is_len(x):
                return isinstance(x, ast.Call) and norm(x.func) == "len" and len(x.args) == 1 and norm(x.args[0]) == self.subject

            def is_idx(x):
                return self.ev(x, env) == ("loopidx",)
            if is_idx(l) and is_len(r):
                if isinstance(op, ast.Lt):
                    return True
                if isinstance(op, ast.GtE):
                    return False
            if is_len(l) and is_idx(r):
                if isinstance(op, ast.Gt):
                    return True
                if isinstance(op, ast.LtE):
                    return False
        return None

    def bind_loop(self, target, it, env):
        """binds the loop variables in env; returns the loop kind: elem | items | args | None"""
        if self.ev(it, env) == ("subj",) and isinstance(target, ast.Name):
            env[target.id] = ("elem",)
            return "elem"
        if isinstance(it, ast.Call) and isinstance(it.func, ast.Attribute) and it.func.attr == "items" and not it.args and self.ev(it.func.value, env) == ("subj",) \
                and isinstance(target, ast.Tuple) and len(target.elts) == 2 and all(isinstance(x, ast.Name) for x in target.elts):
            env[target.elts[0].id] = ("key",)
            env[target.elts[1].id] = ("val",)
            return "items"
        if isinstance(it, ast.Call) and norm(it.func) == "enumerate" and len(it.args) == 1 and norm(it.args[0]) == "args" \
                and isinstance(target, ast.Tuple) and len(target.elts) == 2 and all(isinstance(x, ast.Name) for x in target.elts):
            env[target.elts[0].id] = ("loopidx",)
            env[target.elts[1].id] = ("type", "arg_i")
            return "args"
        if isinstance(it, ast.Call) and norm(it.func) == "range" and len(it.args) == 1 and norm(it.args[0]) == "len(args)" and isinstance(target, ast.Name):
            env[target.id] = ("loopidx",)
            return "args"
        return None

    # -- statements
    def run(self, stmts, env, loop=None, conds=()):
        for st in stmts:
            if isinstance(st, ast.Assign) and len(st.targets) == 1:
                tg = st.targets[0]
                if isinstance(tg, ast.Name):
                    new = self.ev(st.value, env)
                    if loop is not None and conds and tg.id in env and env[tg.id][0] not in ("lb", "db", "pb"):
                        # bound under a test inside the loop: the value depends on that test (item = None; if i < len(r): item = conv)
                        new = ("ite", conds[-1], new, env[tg.id])
                    env[tg.id] = new
                    continue
                if isinstance(tg, ast.Subscript) and norm(tg) == self.sink:
                    self.results.append(self.fin(self.ev(st.value, env)))
                    continue
                if isinstance(tg, ast.Subscript) and isinstance(tg.value, ast.Name) and env.get(tg.value.id, ("",))[0] == "pb":
                    if self.ev(tg.slice, env) != ("loopidx",):
                        raise Unsupported(norm(st))
                    env[tg.value.id][1].append((loop, conds, self.ev(st.value, env)))
                    continue
                if isinstance(tg, ast.Subscript) and isinstance(tg.value, ast.Name) and env.get(tg.value.id, ("",))[0] == "db":
                    env[tg.value.id][1].append((loop, conds, self.ev(tg.slice, env), self.ev(st.value, env)))
                    continue
                raise Unsupported(norm(st))
            if isinstance(st, ast.Expr) and isinstance(st.value, ast.Call):
                c = st.value
                if isinstance(c.func, ast.Attribute) and c.func.attr in ("append", "add") and isinstance(c.func.value, ast.Name) and len(c.args) == 1 \
                        and env.get(c.func.value.id, ("",))[0] == "lb":
                    env[c.func.value.id][1].append((loop, conds, self.ev(c.args[0], env)))
                    continue
                if norm(c.func) == "setattr" and self.sink == "setattr" and len(c.args) == 3:
                    self.results.append(self.fin(self.ev(c.args[2], env)))
                    continue
                raise Unsupported(norm(st))
            if isinstance(st, ast.For) and not st.orelse:
                if loop is not None:
                    raise Unsupported("nested loop")
                kind = self.bind_loop(st.target, st.iter, env)
                if kind is None:
                    raise Unsupported("loop over %s" % norm(st.iter))
                self.run(st.body, env, kind, ())
                continue
            if isinstance(st, ast.If) and loop is not None:
                c = self.cond(st.test, env)
                if c is None:
                    raise Unsupported("test %s" % norm(st.test))
                self.run(st.body, env, loop, conds + (c,))
                self.run(st.orelse, env, loop, conds + (not c,))
                continue
            if isinstance(st, ast.Raise):
                self.results.append(("raise", norm(st.exc.func) if isinstance(st.exc, ast.Call) else norm(st.exc) if st.exc else ""))
                continue
            if isinstance(st, ast.Pass) or (isinstance(st, ast.Expr) and isinstance(st.value, ast.Constant)):
                continue
            raise Unsupported(norm(st)[:60])

    def fin(self, t):
        """turn a filled builder into listof / poslist / dictof"""
        if t[0] == "lb":
            items = t[1]
            if len(items) == 1 and items[0][0] == "elem" and items[0][1] == ():
                return ("listof", items[0][2])
            if items and all(i[0] == "args" for i in items):
                if len(items) == 1 and items[0][1] == () and isinstance(items[0][2], tuple) and items[0][2] and items[0][2][0] == "ite":
                    _, c_, a_, b_ = items[0][2]
                    return ("poslist", a_, b_) if c_ else ("poslist", b_, a_)
                if len(items) == 1 and items[0][1] == ():
                    return ("poslist", items[0][2], "unpadded")
                if len(items) == 2 and {items[0][1], items[1][1]} == {(True,), (False,)}:
                    inr = [i for i in items if i[1] == (True,)][0][2]
                    pad = [i for i in items if i[1] == (False,)][0][2]
                    return ("poslist", inr, pad)
            if not items:
                return ("emptylist",)
            return ("?", "list built by %d appends" % len(items))
        if t[0] == "pb":
            items = t[1]
            if len(items) == 1 and items[0][0] == "args" and items[0][1] == (True,):
                return ("poslist", items[0][2], ("none",))
            if len(items) == 1 and items[0][0] == "args" and items[0][1] == ():
                return ("poslist", items[0][2], "unpadded")
            return ("?", "pre-filled list with %d stores" % len(items))
        if t[0] == "db":
            items = t[1]
            if len(items) == 1 and items[0][0] == "items" and items[0][1] == ():
                return ("dictof", items[0][2], items[0][3])
            if not items:
                return ("emptydict",)
            return ("?", "dict built by %d stores" % len(items))
        return t


class Region(object):
    """the statements of the per-field container dispatch when it is not one if-chain: from the first `if` on `origin` to the
    end of the field's iteration (flag-setting chains, a second chain on the flag, one store of the result at the end)"""

    def __init__(self, fi, stmts, subject):
        self.fi, self.stmts, self.subject = fi, stmts, subject


def find_region(fi):
    chain = find_chain(fi)
    if chain is None:
        return None
    stmts = []
    node = chain
    while node is not None and not isinstance(node, (ast.For, ast.FunctionDef)):
        parent = getattr(node, "_parent", None)
        for f in ("body", "orelse"):
            blk = getattr(parent, f, None)
            if isinstance(blk, list) and any(x is node for x in blk):
                i = [k for k, x in enumerate(blk) if x is node][0]
                stmts += blk[i:] if node is chain else blk[i + 1:]
        node = parent
    subs = set()
    for st in stmts:
        for c in ast.walk(st):
            if isinstance(c, ast.Call) and norm(c.func) == "isinstance" and len(c.args) == 2:
                subs.add(norm(c.args[0]))
    if len(subs) != 1:
        return None
    return Region(fi, stmts, subs.pop())


class _Stop(Exception):
    pass


def region_term(region, origin, helper, sink, is_none=False):
    """(term stored for the field, guard kinds evaluated on the way) for a field of container kind `origin`"""
    it = Interp(region.subject, helper, sink)
    flags = {}
    guards = []

    def boolish(e):
        return isinstance(e, (ast.Compare, ast.BoolOp)) or (isinstance(e, ast.UnaryOp) and isinstance(e.op, ast.Not)) \
            or (isinstance(e, ast.Call) and norm(e.func) == "isinstance") or (isinstance(e, ast.Constant) and isinstance(e.value, bool))

    def top(stmts, env):
        for st in stmts:
            if isinstance(st, ast.If):
                v, g = eval_test(st.test, origin, region.subject, is_none, flags)
                guards.extend(g)
                if v is None:
                    raise Unsupported("test %s" % norm(st.test))
                top(st.body if v else st.orelse, env)
                continue
            if isinstance(st, ast.Assign) and len(st.targets) == 1 and isinstance(st.targets[0], ast.Name) and boolish(st.value):
                v, g = eval_test(st.value, origin, region.subject, is_none, flags)
                flags[st.targets[0].id] = (v, g)
                continue
            if isinstance(st, ast.Raise):
                it.results.append(("raise", norm(st.exc.func) if isinstance(st.exc, ast.Call) else norm(st.exc) if st.exc else ""))
                raise _Stop()
            if isinstance(st, ast.Continue):
                raise _Stop()
            it.run([st], env)
    try:
        try:
            top(region.stmts, {})
        except _Stop:
            pass
    except Unsupported as e:
        return ("?", "unsupported: %s" % e), guards
    if len(it.results) != 1:
        return ("?", "%d stores of the field" % len(it.results)), guards
    return it.results[0], guards


def show(t):
    if not isinstance(t, tuple):
        return str(t)
    if t[0] == "conv":
        return "conv(%s, %s)" % (t[1], show(t[2]))
    if len(t) == 1:
        return t[0]
    return "%s(%s)" % (t[0], ", ".join(show(x) for x in t[1:]))


def branch_term(fi, body, subject, helper, sink):
    """the term stored for the field by a branch body, or ('?', reason)"""
    if isinstance(body, tuple) and body and body[0] == "REGION":
        return region_term(body[1], body[2], helper, sink, body[3])[0]
    it = Interp(subject, helper, sink)
    try:
        it.run(body, {})
    except Unsupported as e:
        return ("?", "unsupported: %s" % e)
    if len(it.results) != 1:
        return ("?", "%d stores of the field" % len(it.results))
    return it.results[0]


def expected(origin, side):
    """the term each side must produce for `origin` (side: 'to' / 'from')"""
    if origin in ("list", "set"):
        core = ("listof", ("conv", "arg0", ("elem",)))
        if side == "to":
            return [core]
        return [core] if origin == "list" else [("call", "set", core)]
    if origin == "dict":
        return [("dictof", ("conv", "arg0", ("key",)), ("conv", "arg1", ("val",)))]
    core = ("poslist", ("conv", "arg_i", ("idx",)), ("none",))
    return [core] if side == "to" else [("call", "tuple", core)]
