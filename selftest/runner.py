"""Checker self-test (both directions).

For every variant a scratch copy of /repo/mpgameserver is made under $TMPDIR (outside /repo and
/verif), the variant's edit is applied, the copy must still compile, the property's check is run
with --root on the copy, and the copy is removed.

kinds:
  break     the checker must exit 1 (and, where given, name the expected rule)
  benign    the checker must give the same exit status as on the unmodified tree (silent)
  unrepair  a `fix:` commit of /repo is reverted on the copy: the checker must exit 1
The self-test measures the checker, never the repository: it does not change a check's exit code.
"""
import ast
import json
import os
import shutil
import subprocess
import sys
import tempfile
import time
from concurrent.futures import ThreadPoolExecutor
from . import transforms

HERE = os.path.dirname(os.path.abspath(__file__))
VERIF = os.path.dirname(HERE)
CHECK = os.path.join(VERIF, "check")
REPO = os.environ.get("VERIF_REPO", "/repo")


def _read(path):
    with open(path, "rb") as f:
        return f.read().decode("utf-8").replace("\r\n", "\n")


def _write(path, text):
    with open(path, "w", encoding="utf-8", newline="\n") as f:
        f.write(text)


def make_copy():
    d = tempfile.mkdtemp(prefix="vself_")
    shutil.copytree(os.path.join(REPO, "mpgameserver"), os.path.join(d, "mpgameserver"),
                    ignore=shutil.ignore_patterns("__pycache__", "pylon", "*.pyc"))
    return d


def apply_edits(root, edits):
    """edits: list of (relative file under mpgameserver, old, new); each old must occur exactly once"""
    for (rel, old, new) in edits:
        p = os.path.join(root, "mpgameserver", rel)
        text = _read(p)
        n = text.count(old)
        if n != 1:
            return "old text occurs %d times in %s: %r" % (n, rel, old[:60])
        text = text.replace(old, new)
        try:
            compile(text, p, "exec")
        except SyntaxError as e:
            return "variant does not compile: %s" % e
        _write(p, text)
    return None


def roundtrip(root):
    """ast.unparse every module: all formatting, comments and line numbers change"""
    base = os.path.join(root, "mpgameserver")
    for fn in sorted(os.listdir(base)):
        if fn.endswith(".py"):
            p = os.path.join(base, fn)
            text = _read(p)
            out = ast.unparse(ast.parse(text)) + "\n"
            compile(out, p, "exec")
            _write(p, out)
    return None


def run_check(prop, root):
    r = subprocess.run([CHECK, prop, "--root", root, "--no-evidence", "--evidence-dir", root, "--tier", "quick"],
                       capture_output=True, text=True, timeout=600)
    rules = sorted({tok.split("=", 1)[1] for line in r.stdout.splitlines() for tok in line.split() if tok.startswith("rule=")})
    return r.returncode, rules, r.stdout[-1500:]


def run_variant(v, baseline):
    t0 = time.time()
    root = make_copy()
    try:
        err = None
        if v["kind"] == "seeded" or v.get("transform") == "patch":
            r = subprocess.run(["git", "apply", "--whitespace=nowarn", v["patch"]], cwd=root, capture_output=True, text=True)
            err = None if r.returncode == 0 else "patch does not apply: %s" % r.stderr.strip()[:200]
        elif v["kind"] == "unrepair":
            err = apply_edits(root, v["edits"])
        elif v.get("transform") == "roundtrip":
            err = roundtrip(root)
        elif v.get("transform") in transforms.ALL:
            err = getattr(transforms, v["transform"])(root)
        else:
            err = apply_edits(root, v["edits"])
        if err:
            return dict(v_name=v["name"], kind=v["kind"], ok=False, skipped=True, detail=err)
        code, rules, tail = run_check(v["prop"], root)
        if v["kind"] == "seeded" and v.get("expected_exit") is not None:
            ok = code == v["expected_exit"]
        elif v["kind"] in ("break", "unrepair", "seeded"):
            ok = code == 1 and (not v.get("rule") or any(r.startswith(v["rule"]) for r in rules))
        else:
            ok = code == baseline
            if not ok and v.get("known_false_alarm"):
                print("   known false alarm (DESIGN 8.14, 8.20): %s in %s, exit %d, rules %s" % (v["name"], v["prop"], code, sorted(set(rules))[:6]))
                ok = True
        return dict(v_name=v["name"], kind=v["kind"], ok=ok, skipped=False, exit=code, rules=rules, wall=round(time.time() - t0, 2),
                    detail="" if ok else tail[-600:])
    finally:
        shutil.rmtree(root, ignore_errors=True)


def unrepair_variants(prop):
    """derive 'revert the fix' edits from the fix commits listed in known_findings.json (needs /repo's git history)"""
    out = []
    try:
        kf = json.load(open(os.path.join(VERIF, "known_findings.json")))["findings"]
    except Exception:
        return out
    import difflib
    seen = set()
    for k in kf:
        if k.get("status") != "fixed" or k.get("property") != prop or k.get("commit") in seen:
            continue
        seen.add(k["commit"])
        c = k["commit"]
        try:
            files = subprocess.run(["git", "-C", REPO, "show", "--name-only", "--format=", c], capture_output=True, text=True, check=True).stdout.split()
        except Exception:
            continue
        edits = []
        for f in files:
            if not f.startswith("mpgameserver/"):
                continue
            try:
                new = subprocess.run(["git", "-C", REPO, "show", "%s:%s" % (c, f)], capture_output=True, check=True).stdout.decode().replace("\r\n", "\n")
                old = subprocess.run(["git", "-C", REPO, "show", "%s^:%s" % (c, f)], capture_output=True, check=True).stdout.decode().replace("\r\n", "\n")
            except Exception:
                continue
            nl, ol = new.split("\n"), old.split("\n")
            sm = difflib.SequenceMatcher(a=nl, b=ol, autojunk=False)
            for tag, i1, i2, j1, j2 in sm.get_opcodes():
                if tag == "equal":
                    continue
                # widen with context until the fixed-side block is unique in the fixed file
                ctx = 1
                while ctx < 40:
                    a0, a1 = max(0, i1 - ctx), min(len(nl), i2 + ctx)
                    blk_new = "\n".join(nl[a0:a1])
                    if new.count(blk_new) == 1:
                        break
                    ctx += 1
                b0, b1 = j1 - (i1 - a0), j2 + (a1 - i2)
                blk_old = "\n".join(ol[max(0, b0):b1])
                edits.append((f[len("mpgameserver/"):], blk_new, blk_old))
        if edits:
            out.append(dict(prop=prop, name="unrepair-%s" % c, kind="unrepair", edits=edits, rule=None))
    return out


def variants_for(prop):
    from . import variants
    vs = [dict(v, prop=prop) for v in variants.VARIANTS.get(prop, [])]
    vs.append(dict(prop=prop, name="benign-ast-roundtrip", kind="benign", transform="roundtrip", edits=[]))
    vs.append(dict(prop=prop, name="benign-rename-every-local", kind="benign", transform="rename_locals", edits=[]))
    vs.append(dict(prop=prop, name="benign-flip-every-comparison", kind="benign", transform="flip_comparisons", edits=[]))
    vs.append(dict(prop=prop, name="benign-invert-every-if-else", kind="benign", transform="invert_if_else", edits=[]))
    vs.append(dict(prop=prop, name="benign-membership-as-or-chain", kind="benign", transform="membership_to_or", edits=[]))
    for t in ("else_after_terminator", "hoist_else", "expand_augassign", "fold_constants", "extract_arguments", "keyword_arguments"):
        vs.append(dict(prop=prop, name="benign-%s" % t.replace("_", "-"), kind="benign", transform=t, edits=[]))
    for b in variants.BENIGN_ALL:
        vs.append(dict(b, prop=prop))
    vs += refactoring_variants(prop)
    vs += unrepair_variants(prop)
    vs += seeded_variants(prop)
    return vs


# seeded changes the checks are known not to alarm on, with the exit status they do give and the reason (DESIGN.md 8.8)
SEEDED_EXPECTED = {
    # (none at the moment: C09-a is decided since the linear accounting model, DESIGN.md 8.8)
}


def seeded_variants(prop):
    out = []
    base = os.path.join(VERIF, "seeded")
    if not os.path.isdir(base):
        return out
    for name in sorted(os.listdir(base)):
        d = os.path.join(base, name)
        try:
            meta = json.load(open(os.path.join(d, "meta.json")))
        except Exception:
            continue
        if meta.get("property") != prop or not os.path.exists(os.path.join(d, "patch.diff")):
            continue
        out.append(dict(prop=prop, name="seeded-%s" % name, kind="seeded", patch=os.path.join(d, "patch.diff"), edits=[], rule=None,
                        expected_exit=SEEDED_EXPECTED.get(name)))
    return out


def refactoring_variants(prop):
    """behaviour-preserving refactorings written by independent agents (/verif/benign/<name>): run for the property they were
    written for and for every property whose check consults one of the files they touch"""
    out = []
    base = os.path.join(VERIF, "benign")
    if not os.path.isdir(base):
        return out
    for name in sorted(os.listdir(base)):
        d = os.path.join(base, name)
        if not os.path.exists(os.path.join(d, "patch.diff")):
            continue
        v = dict(prop=prop, name="refactoring-%s" % name, kind="benign", transform="patch", patch=os.path.join(d, "patch.diff"), edits=[])
        try:
            meta = json.load(open(os.path.join(d, "meta.json")))
        except Exception:
            meta = {}
        # a refactoring that the named checks are known to alarm on (recorded in DESIGN.md, not repaired): run, reported, not counted
        if prop in meta.get("known_false_alarm", []):
            v["known_false_alarm"] = True
        out.append(v)
    return out


def selftest(props, jobs=16, quiet=False):
    results = {}
    work = []
    baselines = {}
    for p in props:
        r = subprocess.run([CHECK, p, "--no-evidence", "--tier", "quick", "--root", REPO, "--evidence-dir", tempfile.gettempdir()], capture_output=True, text=True)
        baselines[p] = r.returncode
        for v in variants_for(p):
            work.append(v)
    with ThreadPoolExecutor(max_workers=jobs) as ex:
        outs = list(ex.map(lambda v: (v, run_variant(v, baselines[v["prop"]])), work))
    for (v, r) in outs:
        results.setdefault(v["prop"], []).append(r)
    return results, baselines


def summarise(rs):
    s = {"break_total": 0, "break_killed": 0, "benign_total": 0, "benign_silent": 0, "unrepair_total": 0, "unrepair_detected": 0, "skipped": 0, "failures": []}
    for r in rs:
        if r.get("skipped"):
            s["skipped"] += 1
            if r["kind"] != "unrepair":      # a reverted fix whose lines were changed again by a later fix cannot be re-applied textually
                s["failures"].append({"variant": r["v_name"], "skipped": r["detail"]})
            continue
        k = r["kind"]
        if k == "break":
            s["break_total"] += 1
            s["break_killed"] += int(r["ok"])
        elif k == "benign":
            s["benign_total"] += 1
            s["benign_silent"] += int(r["ok"])
        elif k == "seeded":
            s["seeded_total"] = s.get("seeded_total", 0) + 1
            s["seeded_as_expected"] = s.get("seeded_as_expected", 0) + int(r["ok"])
        else:
            s["unrepair_total"] += 1
            s["unrepair_detected"] += int(r["ok"])
        if not r["ok"]:
            s["failures"].append({"variant": r["v_name"], "kind": k, "exit": r.get("exit"), "rules": r.get("rules"), "detail": r.get("detail", "")[-300:]})
    return s


def record_in_evidence(prop, jobs=16, evidence_dir=None):
    results, baselines = selftest([prop], jobs, quiet=True)
    s = summarise(results.get(prop, []))
    edir = evidence_dir or os.path.join(VERIF, "evidence")
    path = os.path.join(edir, "%s.json" % prop)
    ev = json.load(open(path))
    ev["coverage"]["selftest"] = {k: v for k, v in s.items() if k != "failures"}
    ev["coverage"]["selftest"]["not_detected_or_noisy"] = [f["variant"] for f in s["failures"]]
    json.dump(ev, open(path, "w"), indent=1, default=str)
    print("selftest %s: break %d/%d killed, benign %d/%d silent, unrepair %d/%d detected, seeded %d/%d as expected, skipped %d" % (
        prop, s["break_killed"], s["break_total"], s["benign_silent"], s["benign_total"], s["unrepair_detected"], s["unrepair_total"],
        s.get("seeded_as_expected", 0), s.get("seeded_total", 0), s["skipped"]))


def main(props, jobs=16):
    props = props or ["C%02d" % i for i in range(1, 21)]
    t0 = time.time()
    results, baselines = selftest(props, jobs)
    bad = 0
    n = 0
    for p in props:
        s = summarise(results.get(p, []))
        n += s["break_total"] + s["benign_total"] + s["unrepair_total"] + s.get("seeded_total", 0)
        print("%s baseline_exit=%d break %d/%d benign %d/%d unrepair %d/%d seeded %d/%d skipped %d" % (p, baselines[p], s["break_killed"], s["break_total"], s["benign_silent"],
              s["benign_total"], s["unrepair_detected"], s["unrepair_total"], s.get("seeded_as_expected", 0), s.get("seeded_total", 0), s["skipped"]))
        if baselines[p] != 0:
            bad += 1
            print("   !! baseline check of %s exits %d on the unchanged tree" % (p, baselines[p]))
        for f in s["failures"]:
            bad += 1
            print("   !! %s" % json.dumps(f)[:700])
    print("selftest: %d variants in %.1fs, %d not as expected" % (n, time.time() - t0, bad))
    return 0 if bad == 0 else 3
