"""behaviour-preserving whole-package transforms for the benign direction of the self-test"""
import ast
import os
import symtable


def _local_renames(src, path):
    """{(function name, lineno): {old: new}} for locals that are plain function-local variables"""
    top = symtable.symtable(src, path, "exec")
    out = {}

    def visit(t):
        for c in t.get_children():
            if c.get_type() == "function":
                names = {}
                child_free = set()

                def frees(tt):
                    for cc in tt.get_children():
                        for s in cc.get_symbols():
                            if s.is_free() or (cc.get_type() == "function" and cc.get_name() in ("lambda", "listcomp", "setcomp", "dictcomp", "genexpr") and s.is_free()):
                                child_free.add(s.get_name())
                        frees(cc)
                frees(c)
                for s in c.get_symbols():
                    n = s.get_name()
                    if s.is_local() and s.is_assigned() and not s.is_parameter() and not s.is_imported() and not s.is_namespace() \
                            and n not in child_free and not n.startswith("__") and not s.is_declared_global() and not s.is_nonlocal() and not s.is_free():
                        names[n] = n + "_r"
                if names and c.get_name() != "lambda":
                    out[(c.get_name(), c.get_lineno())] = names
            visit(c)
    visit(top)
    return out


class _Renamer(ast.NodeTransformer):
    def __init__(self, table):
        self.table = table
        self.stack = []

    def _func(self, node):
        m = self.table.get((node.name, node.lineno))
        self.stack.append(m or {})
        self.generic_visit(node)
        self.stack.pop()
        return node

    visit_FunctionDef = _func
    visit_AsyncFunctionDef = _func

    def visit_Lambda(self, node):
        # names inside a lambda refer to the enclosing function's locals unless they are lambda parameters
        params = {a.arg for a in node.args.args + node.args.kwonlyargs + node.args.posonlyargs}
        cur = dict(self.stack[-1]) if self.stack else {}
        for p in params:
            cur.pop(p, None)
        self.stack.append(cur)
        self.generic_visit(node)
        self.stack.pop()
        return node

    def _comp(self, node):
        bound = set()
        for g in node.generators:
            for n in ast.walk(g.target):
                if isinstance(n, ast.Name):
                    bound.add(n.id)
        cur = dict(self.stack[-1]) if self.stack else {}
        for b in bound:
            cur.pop(b, None)
        self.stack.append(cur)
        self.generic_visit(node)
        self.stack.pop()
        return node

    visit_ListComp = visit_SetComp = visit_DictComp = visit_GeneratorExp = _comp

    def visit_ClassDef(self, node):
        self.stack.append({})
        self.generic_visit(node)
        self.stack.pop()
        return node

    def visit_Name(self, node):
        if self.stack and node.id in self.stack[-1]:
            node.id = self.stack[-1][node.id]
        return node

    def visit_ExceptHandler(self, node):
        if self.stack and node.name and node.name in self.stack[-1]:
            node.name = self.stack[-1][node.name]
        self.generic_visit(node)
        return node


def rename_locals(root, only=None):
    """rename every plain local variable x of every function to x_r (parameters, globals, closures untouched)"""
    base = os.path.join(root, "mpgameserver")
    for fn in sorted(os.listdir(base)):
        if not fn.endswith(".py") or (only and fn not in only):
            continue
        p = os.path.join(base, fn)
        src = open(p, "rb").read().decode().replace("\r\n", "\n")
        tree = ast.parse(src)
        # comprehension variables that leak nothing: handled by _comp; nested functions using outer locals are excluded by child_free
        table = _local_renames(src, p)
        tree = _Renamer(table).visit(tree)
        ast.fix_missing_locations(tree)
        out = ast.unparse(tree) + "\n"
        compile(out, p, "exec")
        open(p, "w", newline="\n").write(out)
    return None
