"""behaviour-preserving whole-package transforms for the benign direction of the self-test"""
import ast
import os
import symtable


def _local_renames(src, path):
    """{(function name, lineno): {old: new}} for locals that are plain function-local variables"""
    top = symtable.symtable(src, path, "exec")
    out = {}

    def visit(t):
        for c in t.get_children():
            if c.get_type() == "function":
                names = {}
                child_free = set()

                def frees(tt):
                    for cc in tt.get_children():
                        for s in cc.get_symbols():
                            if s.is_free() or (cc.get_type() == "function" and cc.get_name() in ("lambda", "listcomp", "setcomp", "dictcomp", "genexpr") and s.is_free()):
                                child_free.add(s.get_name())
                        frees(cc)
                frees(c)
                for s in c.get_symbols():
                    n = s.get_name()
                    if s.is_local() and s.is_assigned() and not s.is_parameter() and not s.is_imported() and not s.is_namespace() \
                            and n not in child_free and not n.startswith("__") and not s.is_declared_global() and not s.is_nonlocal() and not s.is_free():
                        names[n] = n + "_r"
                if names and c.get_name() != "lambda":
                    out[(c.get_name(), c.get_lineno())] = names
            visit(c)
    visit(top)
    return out


class _Renamer(ast.NodeTransformer):
    def __init__(self, table):
        self.table = table
        self.stack = []

    def _func(self, node):
        m = self.table.get((node.name, node.lineno))
        self.stack.append(m or {})
        self.generic_visit(node)
        self.stack.pop()
        return node

    visit_FunctionDef = _func
    visit_AsyncFunctionDef = _func

    def visit_Lambda(self, node):
        # names inside a lambda refer to the enclosing function's locals unless they are lambda parameters
        params = {a.arg for a in node.args.args + node.args.kwonlyargs + node.args.posonlyargs}
        cur = dict(self.stack[-1]) if self.stack else {}
        for p in params:
            cur.pop(p, None)
        self.stack.append(cur)
        self.generic_visit(node)
        self.stack.pop()
        return node

    def _comp(self, node):
        bound = set()
        for g in node.generators:
            for n in ast.walk(g.target):
                if isinstance(n, ast.Name):
                    bound.add(n.id)
        cur = dict(self.stack[-1]) if self.stack else {}
        for b in bound:
            cur.pop(b, None)
        self.stack.append(cur)
        self.generic_visit(node)
        self.stack.pop()
        return node

    visit_ListComp = visit_SetComp = visit_DictComp = visit_GeneratorExp = _comp

    def visit_ClassDef(self, node):
        self.stack.append({})
        self.generic_visit(node)
        self.stack.pop()
        return node

    def visit_Name(self, node):
        if self.stack and node.id in self.stack[-1]:
            node.id = self.stack[-1][node.id]
        return node

    def visit_ExceptHandler(self, node):
        if self.stack and node.name and node.name in self.stack[-1]:
            node.name = self.stack[-1][node.name]
        self.generic_visit(node)
        return node


def rename_locals(root, only=None):
    """rename every plain local variable x of every function to x_r (parameters, globals, closures untouched)"""
    base = os.path.join(root, "mpgameserver")
    for fn in sorted(os.listdir(base)):
        if not fn.endswith(".py") or (only and fn not in only):
            continue
        p = os.path.join(base, fn)
        src = open(p, "rb").read().decode().replace("\r\n", "\n")
        tree = ast.parse(src)
        # comprehension variables that leak nothing: handled by _comp; nested functions using outer locals are excluded by child_free
        table = _local_renames(src, p)
        tree = _Renamer(table).visit(tree)
        ast.fix_missing_locations(tree)
        out = ast.unparse(tree) + "\n"
        compile(out, p, "exec")
        open(p, "w", newline="\n").write(out)
    return None


# ---------------------------------------------------------------------------------------------------------------------
# condition-spelling transforms: the same tests written the other way round

_MIRROR = {ast.Lt: ast.Gt, ast.LtE: ast.GtE, ast.Gt: ast.Lt, ast.GtE: ast.LtE, ast.Eq: ast.Eq, ast.NotEq: ast.NotEq}
_PURE_CALLS = {"len", "int", "abs", "type", "min", "max"}


def _pure(e):
    for n in ast.walk(e):
        if isinstance(n, (ast.Await, ast.Yield, ast.YieldFrom, ast.NamedExpr, ast.Lambda)):
            return False
        if isinstance(n, ast.Call) and not (isinstance(n.func, ast.Name) and n.func.id in _PURE_CALLS):
            return False
    return True


class _FlipCompare(ast.NodeTransformer):
    """a < b  ->  b > a   (both operands free of side effects)"""

    def visit_Compare(self, node):
        self.generic_visit(node)
        if len(node.ops) == 1 and type(node.ops[0]) in _MIRROR and _pure(node.left) and _pure(node.comparators[0]):
            return ast.copy_location(ast.Compare(left=node.comparators[0], ops=[_MIRROR[type(node.ops[0])]()], comparators=[node.left]), node)
        return node


class _InvertIf(ast.NodeTransformer):
    """if c: A else: B  ->  if not c: B else: A   (plain if/else only, elif chains untouched)"""

    def visit_If(self, node):
        self.generic_visit(node)
        if node.orelse and not (len(node.orelse) == 1 and isinstance(node.orelse[0], ast.If)) and not getattr(node, "_is_elif", False):
            node.test = ast.UnaryOp(op=ast.Not(), operand=node.test)
            node.body, node.orelse = node.orelse, node.body
        return node

    def generic_visit(self, node):
        for f in ("orelse",):
            blk = getattr(node, f, None)
            if isinstance(node, ast.If) and isinstance(blk, list) and len(blk) == 1 and isinstance(blk[0], ast.If):
                blk[0]._is_elif = True
        return super().generic_visit(node)


class _MembershipToOr(ast.NodeTransformer):
    """x in (A, B)  ->  x == A or x == B ;  x not in (A, B)  ->  x != A and x != B"""

    def visit_Compare(self, node):
        self.generic_visit(node)
        if len(node.ops) == 1 and isinstance(node.ops[0], (ast.In, ast.NotIn)) and isinstance(node.comparators[0], (ast.Tuple, ast.List)) \
                and 1 <= len(node.comparators[0].elts) <= 4 and _pure(node.left) and isinstance(node.left, (ast.Name, ast.Attribute)) \
                and all(_pure(e) for e in node.comparators[0].elts):
            pos = isinstance(node.ops[0], ast.In)
            parts = [ast.Compare(left=node.left, ops=[ast.Eq() if pos else ast.NotEq()], comparators=[e]) for e in node.comparators[0].elts]
            if len(parts) == 1:
                return ast.copy_location(parts[0], node)
            return ast.copy_location(ast.BoolOp(op=ast.Or() if pos else ast.And(), values=parts), node)
        return node


def _apply(root, transformer_cls, only=None):
    base = os.path.join(root, "mpgameserver")
    for fn in sorted(os.listdir(base)):
        if not fn.endswith(".py") or (only and fn not in only):
            continue
        p = os.path.join(base, fn)
        src = open(p, "rb").read().decode().replace("\r\n", "\n")
        tree = transformer_cls().visit(ast.parse(src))
        ast.fix_missing_locations(tree)
        out = ast.unparse(tree) + "\n"
        compile(out, p, "exec")
        open(p, "w", newline="\n").write(out)
    return None


def flip_comparisons(root):
    return _apply(root, _FlipCompare)


def invert_if_else(root):
    return _apply(root, _InvertIf)


def membership_to_or(root):
    return _apply(root, _MembershipToOr)


_TERMINATORS = (ast.Return, ast.Raise, ast.Continue, ast.Break)


class _ElseAfterTerminator(ast.NodeTransformer):
    """if c: ...; return X        if c: ...; return X
       rest                  ->   else: rest                (same control flow, different nesting)"""

    def _block(self, stmts):
        out = []
        i = 0
        while i < len(stmts):
            st = stmts[i]
            if isinstance(st, ast.If) and not st.orelse and st.body and isinstance(st.body[-1], _TERMINATORS) and i + 1 < len(stmts):
                st.orelse = self._block(stmts[i + 1:])
                out.append(st)
                return out
            out.append(st)
            i += 1
        return out

    def generic_visit(self, node):
        super().generic_visit(node)
        for f in ("body", "orelse", "finalbody"):
            blk = getattr(node, f, None)
            if isinstance(blk, list) and blk and isinstance(blk[0], ast.stmt):
                setattr(node, f, self._block(blk))
        return node


class _HoistElse(ast.NodeTransformer):
    """if c: ...; return X        if c: ...; return X
       else: rest            ->   rest"""

    def _block(self, stmts):
        out = []
        for st in stmts:
            if isinstance(st, ast.If) and st.orelse and st.body and isinstance(st.body[-1], _TERMINATORS) \
                    and not (len(st.orelse) == 1 and isinstance(st.orelse[0], ast.If)):
                rest = st.orelse
                st.orelse = []
                out.append(st)
                out.extend(rest)
            else:
                out.append(st)
        return out

    def generic_visit(self, node):
        super().generic_visit(node)
        for f in ("body", "orelse", "finalbody"):
            blk = getattr(node, f, None)
            if isinstance(blk, list) and blk and isinstance(blk[0], ast.stmt):
                setattr(node, f, self._block(blk))
        return node


class _ExpandAugAssign(ast.NodeTransformer):
    """x += 1  ->  x = x + 1   (numeric constant on the right, name / attribute target: no in-place semantics involved)"""

    def visit_AugAssign(self, node):
        if isinstance(node.value, ast.Constant) and isinstance(node.value.value, (int, float)) and not isinstance(node.value.value, bool) \
                and isinstance(node.target, (ast.Name, ast.Attribute)) and _pure(node.target):
            load = ast.parse(ast.unparse(node.target), mode="eval").body
            return ast.copy_location(ast.Assign(targets=[node.target], value=ast.BinOp(left=load, op=node.op, right=node.value)), node)
        return node


class _FoldConstants(ast.NodeTransformer):
    """5 * 60 -> 300 for arithmetic on integer literals"""

    def visit_BinOp(self, node):
        self.generic_visit(node)
        if isinstance(node.left, ast.Constant) and isinstance(node.right, ast.Constant) and type(node.left.value) is int and type(node.right.value) is int \
                and isinstance(node.op, (ast.Add, ast.Sub, ast.Mult, ast.LShift, ast.Pow, ast.FloorDiv, ast.BitOr, ast.BitAnd)):
            try:
                v = eval(compile(ast.Expression(body=node), "<fold>", "eval"))
            except Exception:
                return node
            if isinstance(v, int) and abs(v) < 2 ** 70:
                return ast.copy_location(ast.Constant(value=v), node)
        return node


def else_after_terminator(root):
    return _apply(root, _ElseAfterTerminator)


def hoist_else(root):
    return _apply(root, _HoistElse)


def expand_augassign(root):
    return _apply(root, _ExpandAugAssign)


def fold_constants(root):
    return _apply(root, _FoldConstants)
ALL = ("rename_locals", "flip_comparisons", "invert_if_else", "membership_to_or", "else_after_terminator", "hoist_else", "expand_augassign", "fold_constants")


class _ExtractArgument(ast.NodeTransformer):
    """f(a, g(b))  ->  _x1 = g(b); f(a, _x1)   for the first non-trivial argument of a statement-level call whose
    callee expression and earlier arguments are free of calls (evaluation order of effects is unchanged)"""

    def __init__(self):
        self.n = 0

    def _simple(self, e):
        return isinstance(e, (ast.Name, ast.Constant)) or (isinstance(e, ast.Attribute) and self._simple(e.value))

    def _nocall(self, e):
        return not any(isinstance(x, (ast.Call, ast.Await, ast.Yield, ast.YieldFrom, ast.NamedExpr)) for x in ast.walk(e))

    def _block(self, stmts):
        out = []
        for st in stmts:
            call = None
            if isinstance(st, ast.Expr) and isinstance(st.value, ast.Call):
                call = st.value
            elif isinstance(st, ast.Assign) and isinstance(st.value, ast.Call) and all(isinstance(t, ast.Name) for t in st.targets):
                call = st.value
            elif isinstance(st, ast.Return) and isinstance(st.value, ast.Call):
                call = st.value
            done = False
            if call is not None and self._nocall(call.func) and not any(isinstance(a, ast.Starred) for a in call.args):
                for i, a in enumerate(call.args):
                    if self._simple(a):
                        continue
                    if not all(self._nocall(b) for b in call.args[:i]):
                        break
                    if isinstance(a, (ast.Lambda, ast.GeneratorExp, ast.Yield, ast.YieldFrom, ast.Await, ast.NamedExpr)):
                        break
                    self.n += 1
                    name = "_x%d" % self.n
                    out.append(ast.copy_location(ast.Assign(targets=[ast.Name(id=name, ctx=ast.Store())], value=a), st))
                    call.args[i] = ast.copy_location(ast.Name(id=name, ctx=ast.Load()), a)
                    out.append(st)
                    done = True
                    break
            if not done:
                out.append(st)
        return out

    def visit_FunctionDef(self, node):
        self.generic_visit(node)
        return node

    def generic_visit(self, node):
        super().generic_visit(node)
        if isinstance(node, (ast.Module, ast.ClassDef)):
            return node
        for f in ("body", "orelse", "finalbody"):
            blk = getattr(node, f, None)
            if isinstance(blk, list) and blk and isinstance(blk[0], ast.stmt) and not isinstance(node, (ast.Module, ast.ClassDef)):
                setattr(node, f, self._block(blk))
        return node


def extract_arguments(root):
    return _apply(root, _ExtractArgument)


ALL = ALL + ("extract_arguments",)


class _KeywordLastArgument(ast.NodeTransformer):
    """f(a, b) -> f(a, y=b) for calls whose callee name has exactly one signature in the package"""

    def __init__(self, sigs, repo, mod):
        self.sigs = sigs
        self.repo = repo
        self.mod = mod

    def visit_Call(self, node):
        from engine.refnames import package_callee_name
        self.generic_visit(node)
        name = package_callee_name(self.repo, self.mod, node)
        sig = self.sigs.get(name)
        if sig is None or node.keywords or not node.args or any(isinstance(a, ast.Starred) for a in node.args) or len(node.args) > len(sig):
            return node
        i = len(node.args) - 1
        node.keywords.append(ast.keyword(arg=sig[i], value=node.args.pop()))
        return node


def keyword_arguments(root):
    import sys
    here = os.path.dirname(os.path.dirname(os.path.abspath(__file__)))
    if here not in sys.path:
        sys.path.insert(0, here)
    from engine.index import Repo
    from engine.refnames import _signatures
    repo = Repo(root, translate=False)
    sigs = _signatures(repo)
    base = os.path.join(root, "mpgameserver")
    for fn in sorted(os.listdir(base)):
        if not fn.endswith(".py") or fn[:-3] not in repo.modules:
            continue
        p = os.path.join(base, fn)
        src = open(p, "rb").read().decode().replace("\r\n", "\n")
        tree = _KeywordLastArgument(sigs, repo, repo.modules[fn[:-3]]).visit(ast.parse(src))
        ast.fix_missing_locations(tree)
        out = ast.unparse(tree) + "\n"
        compile(out, p, "exec")
        open(p, "w", newline="\n").write(out)
    return None


ALL = ALL + ("keyword_arguments",)
