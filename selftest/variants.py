"""Hand-written variants of the current tree.  Each edit is (file, old, new); `old` must occur
exactly once in the current file (the runner reports the variant as skipped otherwise, so a
variant that has rotted is visible).  kind=break: the property is broken and the checker must
alarm; kind=benign: behaviour is unchanged and the checker must stay silent."""

C = "connection.py"


def B(name, edits, rule=None):
    return dict(name=name, kind="break", edits=edits, rule=rule)


def OK(name, edits):
    return dict(name=name, kind="benign", edits=edits)


VARIANTS = {
    "C01": [
        B("crc-exemption-for-client-hello", [(C, "        if key:\n            # once a key is set every packet must be encrypted, decrypt using the given key",
                                              "        if key and hdr.pkt_type != PacketType.CLIENT_HELLO:\n            # once a key is set")], "C01.R1"),
        B("keyless-admits-any-type", [(C, "            if hdr.pkt_type not in (PacketType.CLIENT_HELLO, PacketType.SERVER_HELLO) or hdr.count > 1:\n                raise PacketError(\"unencrypted packet\")\n", "")], "C01.R5"),
        B("keyless-admits-many-messages", [(C, "PacketType.SERVER_HELLO) or hdr.count > 1:", "PacketType.SERVER_HELLO):")], "C01.R5"),
        B("aad-without-type-byte", [(C, "            aad = datagram[:PacketHeader.SIZE]", "            aad = datagram[:PacketHeader.IV_SIZE]")], "C01.R2"),
        B("stats-before-auth", [(C, "        try:\n            pkt = Packet.from_bytes(hdr, self.session_key_bytes, datagram)", "        self.last_recv_time = self.clock()\n        try:\n            pkt = Packet.from_bytes(hdr, self.session_key_bytes, datagram)")], "C01.R4"),
        B("ack-bits-before-auth", [(C, "        try:\n            pkt = Packet.from_bytes(hdr, self.session_key_bytes, datagram)", "        self._handle_ack_bits(hdr)\n        try:\n            pkt = Packet.from_bytes(hdr, self.session_key_bytes, datagram)")], "C01.R4"),
        B("temp-pool-accepts-any-type", [("server.py", "                        if hdr.pkt_type != PacketType.CHALLENGE_RESP:\n                            continue\n", "")], "C01.R6"),
        B("header-swapped-fields", [(C, "struct.unpack(\">4sLHHBHBL\", datagram[:PacketHeader.SIZE])", "struct.unpack(\">4sLHHBBHL\", datagram[:PacketHeader.SIZE])")], "C01.R2"),
        B("from-bytes-without-key", [(C, "pkt = Packet.from_bytes(hdr, self.session_key_bytes, datagram)", "pkt = Packet.from_bytes(hdr, None, datagram)")], "C01.R1"),
        OK("benign-guard-rewritten", [(C, "PacketType.SERVER_HELLO) or hdr.count > 1:", "PacketType.SERVER_HELLO) or hdr.count >= 2:")]),
        OK("benign-rename-local", [(C, "            crc_actual = crypto.crc32(data)\n", "            crc_computed = crypto.crc32(data)\n"), (C, "            if crc_actual != crc_expected:", "            if crc_computed != crc_expected:")]),
    ],
    "C02": [
        B("verify-after-fields", [(C, "        key.verify(signature, payload)\n\n        temp = BytesIO(payload)\n\n        der = deserialize_value(temp, **kwargs)\n        self.server_pubkey = EllipticCurvePublicKey.fromBytes(der)\n        self.salt = deserialize_value(temp, **kwargs)\n        self.token = deserialize_value(temp, **kwargs)\n",
                                   "        temp = BytesIO(payload)\n\n        der = deserialize_value(temp, **kwargs)\n        self.server_pubkey = EllipticCurvePublicKey.fromBytes(der)\n        self.salt = deserialize_value(temp, **kwargs)\n        self.token = deserialize_value(temp, **kwargs)\n        if kwargs.get('strict'):\n            key.verify(signature, payload)\n")], "C02.R1"),
        B("verify-with-message-key", [(C, "        if kwargs['server_public_key'] is None:\n            key = self.server_root_pubkey", "        if kwargs['server_public_key'] is not None:\n            key = self.server_root_pubkey")], "C02.R1"),
        B("salt-outside-signature", [(C, "        self.salt = deserialize_value(temp, **kwargs)", "        self.salt = deserialize_value(stream, **kwargs)")], "C02.R1"),
        B("connected-on-bad-signature", [(C, "        except EllipticCurvePublicKey.InvalidSignature as e:\n            self.status = ConnectionStatus.DISCONNECTED\n            raise", "        except EllipticCurvePublicKey.InvalidSignature as e:\n            self.status = ConnectionStatus.CONNECTED\n            raise")], "C02.R2"),
        B("client-ignores-pinned-key", [(C, "msg = Serializable.loadb(data, server_public_key=self.server_public_key)", "msg = Serializable.loadb(data, server_public_key=None)")], "C02.R2"),
        B("hkdf-info-differs", [("crypto.py", "            salt=salt,\n            info=b'01-secp256r1-sha256-aesgcm128-server-client',\n            backend=default_backend()\n        ).derive(shared_secret)\n\n    return derived_key", "            salt=salt,\n            info=b'01-secp256r1-sha256-aesgcm128-client-server',\n            backend=default_backend()\n        ).derive(shared_secret)\n\n    return derived_key")], "C02.R4"),
        B("promotion-without-validation", [(C, "        if self.ctxt._validateChallengeResponse(self, msg.token):\n            self.status = ConnectionStatus.CONNECTED", "        self.ctxt._validateChallengeResponse(self, msg.token)\n        if True:\n            self.status = ConnectionStatus.CONNECTED")], "C02.R5"),
        B("token-compare-weakened", [("context.py", "        if other and other.token == token:", "        if other and (other.token == token or token == 0):")], "C02.R5"),
        B("second-token-writer", [(C, "        if msg.client_version != self.version:\n            return\n", "        if msg.client_version != self.version:\n            self.token = msg.client_version\n            return\n")], "C02.R5"),
        OK("benign-extra-log", [(C, "        self.token = msg.token\n        self.session_salt = msg.salt", "        self.log.debug(\"server hello verified\")\n        self.token = msg.token\n        self.session_salt = msg.salt")]),
    ],
    "C03": [
        B("seq-reset-on-disconnect", [(C, "            self.pending_callbacks = {}\n            self.pending_retry = {}", "            self.seq_sending = SeqNum()\n            self.pending_callbacks = {}\n            self.pending_retry = {}")], "C03.R1"),
        B("nonce-without-seq", [(C, "            iv = hdr[:PacketHeader.IV_SIZE]\n            ct_withtag", "            iv = hdr[:8] + b\"\\x00\\x00\\x00\\x00\"\n            ct_withtag")], "C03.R2"),
        B("keepalive-in-clear", [(C, "        if key and self.hdr.pkt_type != PacketType.SERVER_HELLO:\n            hdr = self.hdr.to_bytes()", "        if key and self.hdr.pkt_type not in (PacketType.SERVER_HELLO, PacketType.KEEP_ALIVE):\n            hdr = self.hdr.to_bytes()")], "C03.R5"),
        B("rate-cap-bypassed", [(C, "        if t0 - self.last_send_time < self.send_interval:\n            return None", "        if t0 - self.last_send_time < self.send_interval and not self.outgoing_messages:\n            return None")], "C03.R4"),
        B("same-direction-ids", [(C, "    TO_CLIENT = b\"FSOC\"", "    TO_CLIENT = b\"FSOS\"")], "C03.R3"),
        B("send-while-connecting", [(C, "        if self.status != ConnectionStatus.CONNECTED:\n            return\n\n        if not isinstance(payload, bytes):", "        if self.status == ConnectionStatus.DISCONNECTED:\n            return\n\n        if not isinstance(payload, bytes):")], "C03.R7"),
        B("header-seq-not-incremented", [(C, "        self.seq_sending += 1\n        self.pending_acks[self.seq_sending] = current_time", "        if msgs:\n            self.seq_sending += 1\n        self.pending_acks[self.seq_sending] = current_time")], "C03.R1"),
        B("ctime-constant", [(C, "hdr = PacketHeader.create(self.isServer, int(current_time), pkt_type,", "hdr = PacketHeader.create(self.isServer, 0, pkt_type,")], "C03.R1"),
        B("client-sends-with-stale-key", [(C, "            datagram = pkt.to_bytes(self.session_key_bytes)\n        except Exception as e:\n            raise", "            datagram = pkt.to_bytes(None)\n        except Exception as e:\n            raise")], "C03.R6"),
        OK("benign-comparison-flipped", [(C, "        if t0 - self.last_send_time < self.send_interval:\n            return None", "        if self.send_interval > t0 - self.last_send_time:\n            return None")]),
    ],
    "C04": [
        B("current-seq-accepted-again", [(C, "        elif diff == 0:\n            raise DuplicationError(\"duplication error: %d\" % seqnum)\n        else:\n            mask", "        elif diff == 0:\n            pass\n        else:\n            mask")], "C04.R1"),
        B("window-bit-not-checked", [(C, "            if mask & self.bits:\n                raise DuplicationError(\"duplication error: %d\" % seqnum)\n            self.bits |= mask", "            self.bits |= mask")], "C04.R1"),
        B("duplicate-still-acks", [(C, "        except DuplicationError:\n            self.stats.dropped += 1\n            return False\n\n        self.stats.received += 1", "        except DuplicationError:\n            self.stats.dropped += 1\n            self._handle_ack_bits(hdr)\n            return False\n\n        self.stats.received += 1")], "C04.R2"),
        B("message-dup-not-filtered", [(C, "        try:\n            self.bitfield_msg.insert(msgseq)\n        except DuplicationError:\n", "        try:\n            self.bitfield_msg.contains(msgseq)\n        except DuplicationError:\n")], "C04.R2"),
        B("retry-allocates-new-number", [(C, "            msg = PendingMessage(self.seq_message, self.pkt_type,\n                self.payload, self, RetryMode.RETRY_ON_TIMEOUT)\n\n            self.conn.outgoing_messages.append(msg)", "            self.conn._send_type(self.pkt_type, self.payload, RetryMode.RETRY_ON_TIMEOUT, self.callback)")], "C04.R3"),
        B("fragment-resend-new-number", [(C, "            msg = PendingMessage(self.msgseqs[index], PacketType.APP_FRAGMENT,\n                self.payloads[index], cbk, retry)\n            self.conn.outgoing_messages.append(msg)", "            self.conn._send_type(PacketType.APP_FRAGMENT, self.payloads[index], retry, cbk)")], "C04.R3"),
        B("fragment-slot-overwritten", [(C, "            if self.fragments[index-1] is None:\n                self.fragments[index-1] = fragment", "            self.fragments[index-1] = fragment")], "C04.R4"),
        B("dup-test-after-effects", [(C, "        try:\n            # TODO: log warning for packet flooding", "        self.last_recv_time = self.clock()\n        try:\n            # TODO: log warning for packet flooding")], "C04.R2"),
    ],
    "C05": [
        B("threshold-raised-by-one", [(C, "        if len(payload) > Packet.MAX_PAYLOAD_SIZE:\n            # fragmented messages", "        if len(payload) > Packet.MAX_PAYLOAD_SIZE + 3:\n            # fragmented messages")], "C05.R1"),
        B("new-loop-capacity-too-small", [(C, "            if size <= Packet.MAX_CONTENT_SIZE and len(msgs) < Packet.MAX_MESSAGES:\n                self.outgoing_messages.pop(idx)", "            if size <= Packet.MAX_PAYLOAD_SIZE and len(msgs) < Packet.MAX_MESSAGES:\n                self.outgoing_messages.pop(idx)")], "C05.R1"),
        B("last-fragment-too-large", [(C, "            if len(payload) < Packet.MAX_PAYLOAD_SIZE - Packet.FRAGMENT_OVERHEAD:", "            if len(payload) < Packet.MAX_PAYLOAD_SIZE + Packet.FRAGMENT_OVERHEAD:")], "C05.R1"),
        B("guaranteed-not-retried", [(C, "        self.send(payload, retry=RetryMode.RETRY_ON_TIMEOUT, callback=callback)", "        self.send(payload, retry=RetryMode.BEST_EFFORT, callback=callback)")], "C05.R3"),
        B("retry-chain-ends", [(C, "                self.payload, self, RetryMode.RETRY_ON_TIMEOUT)", "                self.payload, self.callback, RetryMode.NONE)")], "C05.R3"),
        B("timeouts-only-when-sending", [("client.py", "                        if pkt is not None:\n                            datagram = self.conn._encode_packet(pkt)\n                            self.sock.sendto(datagram, self.addr)\n\n                        self.conn._check_timeout(t0)", "                        if pkt is not None:\n                            datagram = self.conn._encode_packet(pkt)\n                            self.sock.sendto(datagram, self.addr)\n\n                            self.conn._check_timeout(t0)")], "C05.R4"),
        B("message-dropped-when-not-fitting", [(C, "                msgs.append(pending)\n                current_msg_length += len(pending.payload)\n            else:\n                idx += 1", "                msgs.append(pending)\n                current_msg_length += len(pending.payload)\n            else:\n                self.outgoing_messages.pop(idx)")], "C05.R5"),
        B("unknown-name-on-send-path", [(C, "        msg = PendingMessage(self.seq_message, pkt_type, payload, callback, retry)\n\n        self.outgoing_messages.append(msg)", "        msg = PendingMessage(self.seq_message, pkt_type, payload, callback, retry_mode)\n\n        self.outgoing_messages.append(msg)")], "C05.R2"),
        B("fragments-not-resent", [(C, "        if not success and self.retry != RetryMode.NONE:\n            # resend the fragment that timed out: the complete fragment", "        if not success and self.retry == RetryMode.BEST_EFFORT:\n            # resend the fragment that timed out: the complete fragment")], "C05.R3"),
        OK("benign-capacity-written-differently", [(C, "    MAX_CONTENT_SIZE = MAX_PAYLOAD_SIZE + MESSAGE_OVERHEAD_1\n", "    MAX_CONTENT_SIZE = MAX_SIZE - PacketHeader.SIZE - PacketHeader.TAG_SIZE\n"), (C, "        Packet.MAX_CONTENT_SIZE = Packet.MAX_PAYLOAD_SIZE + Packet.MESSAGE_OVERHEAD_1\n", "        Packet.MAX_CONTENT_SIZE = Packet.MAX_SIZE - PacketHeader.SIZE - PacketHeader.TAG_SIZE\n")]),
    ],
    "C06": [
        B("parse-slice-shorter", [(C, "        hdr = payload[:6]\n        msg = payload[6:]", "        hdr = payload[:6]\n        msg = payload[4:]")], "C06.R1"),
        B("index-zero-based-on-wire", [(C, "payload = struct.pack(\">HHH\", self.frag_id, 1 + index, len(self.fragments))", "payload = struct.pack(\">HHH\", self.frag_id, index, len(self.fragments))")], "C06.R1"),
        B("slices-overlap", [(C, "                payload = payload[Packet.MAX_FRAGMENT_SIZE:]", "                payload = payload[Packet.MAX_FRAGMENT_SIZE - 1:]")], "C06.R1"),
        B("resend-raw-slice", [(C, "                self.payloads[index], cbk, retry)", "                self.fragments[index], cbk, retry)")], "C06.R2"),
        B("oversize-truncated", [(C, "        if len(payload) > Packet.MAX_FRAGMENT_SIZE * Packet.MAX_FRAGMENTS:\n                raise ValueError(\"packet too large\")", "        if len(payload) > Packet.MAX_FRAGMENT_SIZE * Packet.MAX_FRAGMENTS:\n                payload = payload[:Packet.MAX_FRAGMENT_SIZE * Packet.MAX_FRAGMENTS]")], "C06.R3"),
        B("fragment-threshold-lower", [(C, "        if len(payload) > Packet.MAX_PAYLOAD_SIZE:\n            # fragmented messages", "        if len(payload) > Packet.MAX_FRAGMENT_SIZE:\n            # fragmented messages")], "C06.R3"),
        B("deliver-incomplete", [(C, "        if self.received_fragments[frag_id].isComplete():\n            receiver", "        if self.received_fragments[frag_id].fragments[0]:\n            receiver")], "C06.R5"),
        B("join-reversed", [(C, "        return b\"\".join(self.fragments)", "        return b\"\".join(reversed(self.fragments))")], "C06.R1"),
        B("fabricated-message", [(C, "    def _recvKeepAlive(self, msg):  # pragma: no cover\n        pass", "    def _recvKeepAlive(self, msg):  # pragma: no cover\n        self.incoming_messages.append((SeqNum(1), msg))")], "C06.R5"),
        B("count-field-from-wrong-list", [(C, "1 + index, len(self.fragments))", "1 + index, len(self.acks) + 1)")], "C06.R1"),
    ],
    "C07": [
        B("timeout-reports-success", [(C, "                try:\n                    cbk(False)\n", "                try:\n                    cbk(True)\n")], "C07.R2"),
        B("ack-keeps-callbacks", [(C, "                except Exception as e:\n                    self.log.exception(\"error processing callback\")\n            del self.pending_callbacks[seqnum]\n\n        # clear the message from the retry queue\n        if seqnum in self.pending_retry:\n            for msgseq in self.pending_retry[seqnum]:\n                if msgseq in self.pending_retry_msg:\n                    del self.pending_retry_msg[msgseq]\n            del self.pending_retry[seqnum]\n\n\n        #if seqnum in self.pending_messages:",
                                   "                except Exception as e:\n                    self.log.exception(\"error processing callback\")\n\n        # clear the message from the retry queue\n        if seqnum in self.pending_retry:\n            for msgseq in self.pending_retry[seqnum]:\n                if msgseq in self.pending_retry_msg:\n                    del self.pending_retry_msg[msgseq]\n            del self.pending_retry[seqnum]\n\n\n        #if seqnum in self.pending_messages:")], "C07.R1"),
        B("callback-exception-escapes", [(C, "                try:\n                    cbk(True)\n                except Exception as e:\n                    self.log.exception(\"error processing callback\")", "                cbk(True)")], "C07.R1"),
        B("one-shot-flag-removed", [(C, "        if self.done:\n            return\n\n        # keep re-trying until it succeeds", "        # keep re-trying until it succeeds")], "C07.R3"),
        B("fragment-callback-before-all-resolved", [(C, "            if all(ack is not None for ack in self.acks):\n                self.conn.pending_fragments.pop(self.frag_id, None)", "            if any(ack is not None for ack in self.acks):\n                self.conn.pending_fragments.pop(self.frag_id, None)")], "C07.R4"),
        B("fragment-resolved-twice", [(C, "        if self.acks[index] is not None:\n            # this fragment was already resolved through another datagram\n            return\n", "")], "C07.R4"),
        B("timeout-without-age-test", [(C, "            elif self.last_recv_time - self.pending_acks[seqnum] > self.outgoing_timeout:\n                self._handle_timeout(seqnum)", "            else:\n                self._handle_timeout(seqnum)")], "C07.R2"),
        B("fragment-success-any", [(C, "                    self.user_callback(all(self.acks))", "                    self.user_callback(any(self.acks))")], "C07.R2"),
        B("late-bound-index", [(C, "            meta_callback = lambda success, idx=index: self.callback(idx, success)", "            meta_callback = lambda success: self.callback(index, success)")], "C07.R4"),
    ],
    "C08": [
        B("add-low-wrap-at-zero", [(C, "        result = super().__add__(other)\n        # this strategy ensures that 0 will never be produced\n        # while allowing for 0 to be a valid initial sequence number\n        if result < 1:", "        result = super().__add__(other)\n        # this strategy ensures that 0 will never be produced\n        # while allowing for 0 to be a valid initial sequence number\n        if result < 0:")], "C08.R1"),
        B("sub-high-wrap-inclusive", [(C, "        result = super().__sub__(other)\n        if result < 1:\n            result += self._max_sequence\n        if result > self._max_sequence:", "        result = super().__sub__(other)\n        if result < 1:\n            result += self._max_sequence\n        if result >= self._max_sequence:")], "C08.R1"),
        B("threshold-plus-one", [(C, "    _threshold: int = (_max_sequence - 1) // 2", "    _threshold: int = (_max_sequence + 1) // 2")], "C08.R2"),
        B("diff-negative-wrap-inclusive", [(C, "        elif result < -self._threshold:", "        elif result <= -self._threshold:")], "C08.R2"),
        B("lt-gt-swapped", [(C, "            return super().__lt__(super().__add__((other.diff(self))))", "            return super().__gt__(super().__add__((other.diff(self))))")], "C08.R3"),
        B("decode-constant-shifted", [(C, "(hdr.ack_bits&(0x80000000>>(diff-1)))", "(hdr.ack_bits&(0x40000000>>(diff-1)))")], "C08.R4"),
        B("decode-window-31", [(C, "if diff == 0 or (1 <= diff <= 32 and", "if diff == 0 or (1 <= diff < 32 and")], "C08.R4"),
        B("ack-bits-from-message-window", [(C, "            self.seq_sending, self.bitfield_pkt.current_seqnum,\n            self.bitfield_pkt.bits)", "            self.seq_sending, self.bitfield_pkt.current_seqnum,\n            self.bitfield_msg.bits)")], "C08.R4"),
        B("insert-bit-index-off-by-one", [(C, "                self.bits |= self.onehot >> (n - 1)", "                self.bits |= self.onehot >> n")], "C08.R4"),
        B("contains-ignores-current", [(C, "        diff = self.current_seqnum.diff(seqnum)\n        if diff == 0:\n            return True\n        elif diff > 0:", "        diff = self.current_seqnum.diff(seqnum)\n        if diff == 0:\n            return False\n        elif diff > 0:")], "C08.R5"),
        OK("benign-wrap-test-rewritten", [(C, "        result = super().__sub__(other)\n        if result < 1:\n            result += self._max_sequence\n        if result > self._max_sequence:", "        result = super().__sub__(other)\n        if result <= 0:\n            result += self._max_sequence\n        if result > self._max_sequence:")]),
    ],
    "C09": [
        B("unpack-fields-swapped", [(C, "length, seq, typ = struct.unpack(\">HHB\", payload[:5])", "seq, length, typ = struct.unpack(\">HHB\", payload[:5])")], "C09.R2"),
        B("multi-advance-short", [(C, "                payload = payload[5+length:]", "                payload = payload[4+length:]")], "C09.R2"),
        B("count-not-set", [(C, "        hdr.length = len(payload)\n        hdr.count = len(msgs)", "        hdr.length = len(payload)\n        hdr.count = min(len(msgs), 1)")], "C09.R1"),
        B("capacity-above-mtu", [(C, "    MAX_CONTENT_SIZE = MAX_PAYLOAD_SIZE + MESSAGE_OVERHEAD_1\n", "    MAX_CONTENT_SIZE = MAX_PAYLOAD_SIZE + MESSAGE_OVERHEAD_N\n"), (C, "        Packet.MAX_CONTENT_SIZE = Packet.MAX_PAYLOAD_SIZE + Packet.MESSAGE_OVERHEAD_1\n", "        Packet.MAX_CONTENT_SIZE = Packet.MAX_PAYLOAD_SIZE + Packet.MESSAGE_OVERHEAD_N\n")], "C09.R3"),
        B("setmtu-formula-drifts", [(C, "        Packet.MAX_SIZE = Packet.MTU - Packet.UDP_HEADER_SIZE\n        Packet.MAX_PAYLOAD_SIZE", "        Packet.MAX_SIZE = Packet.MTU - Packet.UDP_HEADER_SIZE + 8\n        Packet.MAX_PAYLOAD_SIZE")], "C09.R3"),
        B("count-guard-removed", [(C, "            if size <= Packet.MAX_CONTENT_SIZE and len(msgs) < Packet.MAX_MESSAGES:\n                self.outgoing_messages.pop(idx)", "            if size <= Packet.MAX_CONTENT_SIZE:\n                self.outgoing_messages.pop(idx)")], "C09.R4"),
        B("count-guard-too-large", [(C, "    MAX_MESSAGES = 255", "    MAX_MESSAGES = 256")], "C09.R4"),
        B("overhead-model-wrong", [(C, "        elif n == 1:\n            return 2\n\n        return 5 * n", "        elif n == 1:\n            return 2\n\n        return 4 * n")], "C09.R2"),
        B("send-uses-stale-datagram", [("server.py", "            try:\n                datagram = pkt.to_bytes(key)\n                self.sock.sendto(datagram, addr)\n            except Exception as e:\n                self.ctxt.log.exception(\"unable to send packet to %s\", addr)", "            try:\n                datagram = pkt.to_bytes(key)\n            except Exception as e:\n                self.ctxt.log.exception(\"unable to send packet to %s\", addr)\n            self.sock.sendto(datagram, addr)")], "C09.R6"),
        B("running-total-forgotten", [(C, "                msgs.append(pending)\n                current_msg_length += len(pending.payload)", "                msgs.append(pending)")], "C09.R3"),
    ],
    "C10": [
        B("second-writer-of-connections", [("server.py", "                        self.ctxt.temp_connections[addr] = client\n", "                        self.ctxt.temp_connections[addr] = client\n                        self.ctxt.connections[addr] = client\n")], "C10.R1"),
        B("update-not-contained", [("server.py", "            try:\n                self.ctxt.handler.update(tick_time)\n            except Exception as e:\n                self.ctxt.log.exception(\"unhandled error during handler update\")", "            self.ctxt.handler.update(tick_time)")], "C10.R2"),
        B("disconnect-reraises", [("server.py", "                            client.log.exception(\"unhandled error during client disconnect\")\n                        del self.ctxt.connections[client.addr]\n                    else:", "                            client.log.exception(\"unhandled error during client disconnect\")\n                            raise\n                        del self.ctxt.connections[client.addr]\n                    else:")], "C10.R1"),
        B("handle-message-from-reactor-thread", [("twisted.py", "            self.thread.append(addr, hdr, datagram)\n", "            self.thread.append(addr, hdr, datagram)\n            if addr in self.ctxt.connections:\n                self.ctxt.connections[addr]._recv_datagram(hdr, datagram)\n")], "C10.R3"),
        B("token-membership-in-pool", [("context.py", "        while token == 0 or token in tokens:", "        while token == 0 or token in self.connections:")], "C10.R4"),
        B("tokens-of-one-pool-only", [("context.py", "        tokens.update(client.token for client in self.temp_connections.values())\n", "")], "C10.R4"),
        B("removal-without-disconnect", [("server.py", "                        try:\n                            self.ctxt.onDisconnect(client)\n                            msg = client.update()", "                        try:\n                            if client.status == ConnectionStatus.DISCONNECTED:\n                                self.ctxt.onDisconnect(client)\n                            msg = client.update()")], "C10.R1"),
        B("connect-outside-try", [("context.py", "        try:\n            self.handler.connect(client)\n        except Exception as e:\n            client.log.exception(\"unhandled error during connect\")", "        self.handler.connect(client)")], "C10.R2"),
        B("shutdown-without-disconnects", [("server.py", "        for client in list(self.ctxt.connections.values()):\n            try:\n                self.ctxt.onDisconnect(client)\n            except Exception as e:\n                client.log.exception(\"unhandled error during client disconnect\")\n            del self.ctxt.connections[client.addr]\n", "        self.ctxt.connections.clear()\n")], "C10.R1"),
        B("messages-delivered-twice", [("server.py", "                        client.incoming_messages = []\n\n                    # process messages from users who are connecting", "\n                    # process messages from users who are connecting")], "C10.R1"),
    ],
    "C11": [
        B("blocklist-after-parse", [("twisted.py", "        if addr[0] in self.ctxt.blocklist:\n            return\n\n        try:\n            hdr = PacketHeader.from_bytes(True, datagram)\n", "        try:\n            hdr = PacketHeader.from_bytes(True, datagram)\n            if addr[0] in self.ctxt.blocklist:\n                return\n")], "C11.R1"),
        B("padding-check-dropped", [(C, "        if len(read) != to_read:\n            raise ValueError(\"unable to read packet padding\")\n", "")], "C11.R4"),
        B("reply-to-any-version", [(C, "        if msg.client_version != self.version:\n            return\n\n        self.token = self.ctxt.get_token()", "        self.token = self.ctxt.get_token()")], "C11.R4"),
        B("keepalive-while-connecting", [(C, "            if send_keep_alive and self.status == ConnectionStatus.CONNECTED:\n                pkt_type = PacketType.KEEP_ALIVE", "            if send_keep_alive and self.status != ConnectionStatus.DISCONNECTED:\n                pkt_type = PacketType.KEEP_ALIVE")], "C11.R4"),
        B("datagram-loop-not-contained", [("server.py", "                except Exception as e:\n                    self.ctxt.log.exception(\"%s:%d error processing datagram\", *addr)", "                except ValueError as e:\n                    self.ctxt.log.exception(\"%s:%d error processing datagram\", *addr)")], "C11.R2"),
        B("send-error-escapes", [("server.py", "            try:\n                datagram = pkt.to_bytes(key)\n                self.sock.sendto(datagram, addr)\n            except Exception as e:\n                self.ctxt.log.exception(\"unable to send packet to %s\", addr)", "            datagram = pkt.to_bytes(key)\n            self.sock.sendto(datagram, addr)")], "C11.R3"),
        B("reply-from-entry-point", [("twisted.py", "        except Exception as e:\n            msg = \"%s:%d dropping packet (%d bytes) from peer: %s\"", "        except Exception as e:\n            self.transport.write(b\"bad packet\", addr)\n            msg = \"%s:%d dropping packet (%d bytes) from peer: %s\"")], "C11.R1"),
        B("padding-shorter-than-written", [(C, "        to_read = Packet.MAX_PAYLOAD_SIZE - 2 - PacketHeader.SIZE - (e - s) - 2\n", "        to_read = 16\n")], "C11.R4"),
        B("uncontained-call-in-main-loop", [("server.py", "            self.send(sending)\n\n            p4 = time.monotonic()", "            self.send(sending)\n            self.ctxt.handler.update(0)\n\n            p4 = time.monotonic()")], "C11.R3"),
    ],
    "C12": [
        B("keepalive-gated-on-queue", [(C, "            if send_keep_alive and self.status == ConnectionStatus.CONNECTED:\n                pkt_type = PacketType.KEEP_ALIVE", "            if send_keep_alive and self.status == ConnectionStatus.CONNECTED and self.pending_acks:\n                pkt_type = PacketType.KEEP_ALIVE")], "C12.R3"),
        B("setter-writes-dead-attribute", [("client.py", "        if self.conn:\n            self.conn.send_keep_alive_interval = interval", "        if self.conn:\n            self.conn.keep_alive_interval = interval")], "C12.R2"),
        B("setter-unknown-name", [("client.py", "        self.outgoing_timeout = timeout\n        if self.conn:\n            self.conn.outgoing_timeout = timeout", "        self.outgoing_timeout = timeout\n        if self.conn:\n            self.conn.outgoing_timeout = interval")], "C12.R1"),
        B("liveness-clock-before-auth", [(C, "        try:\n            pkt = Packet.from_bytes(hdr, self.session_key_bytes, datagram)", "        self.last_recv_time = self.clock()\n        try:\n            pkt = Packet.from_bytes(hdr, self.session_key_bytes, datagram)")], "C12.R4"),
        B("dropped-after-50s", [(C, "        if self.last_recv_time > 0 and t0 > self.last_recv_time + 5:", "        if self.last_recv_time > 0 and t0 > self.last_recv_time + 50:")], "C12.R4"),
        B("connect-timeout-needs-callback", [(C, "        if self.time_client_hello_sent:\n            # TODO: its possible", "        if self.time_client_hello_sent and self.connection_callback:\n            # TODO: its possible")], "C12.R5"),
        B("sweep-uses-wrong-timeout", [("server.py", "client.timedout(self.ctxt.temp_connection_timeout):", "client.timedout(self.ctxt.connection_timeout):")], "C12.R2"),
        B("server-keepalive-not-copied", [("server.py", "                        client.send_keep_alive_interval = self.ctxt.keep_alive_interval\n", "")], "C12.R2"),
        B("keepalive-clock-reset-every-tick", [(C, "        pkt = self._build_packet_impl(t0, send_keep_alive, resend_delay)\n", "        pkt = self._build_packet_impl(t0, send_keep_alive, resend_delay)\n        self.last_send_keep_alive_time = t0\n")], "C12.R3"),
        B("context-setter-writes-other-field", [("context.py", "        self.temp_connection_timeout = timeout\n", "        self.connection_timeout = timeout\n")], "C12.R2"),
        B("timedout-inverted", [(C, "        age = self.clock() - self.last_recv_time\n        return age >= timeout", "        age = self.clock() - self.last_recv_time\n        return age <= timeout")], "C12.R4"),
    ],
    "C13": [
        B("int16-read-unsigned", [("serializable.py", "deserialize_int16_t   = lambda stream, **kwargs: struct.unpack(\">h\", stream.read(2))[0]", "deserialize_int16_t   = lambda stream, **kwargs: struct.unpack(\">H\", stream.read(2))[0]")], "C13.R1"),
        B("int16-cut-moved", [("serializable.py", "    elif a > 0x7FFF:", "    elif a > 0xFFFF:")], "C13.R2"),
        B("int8-cut-moved", [("serializable.py", "    elif a > 0x7F:", "    elif a > 0x80:")], "C13.R2"),
        B("map-key-value-swapped", [("serializable.py", "    for k, v in value.items():\n        serialize_value(stream, k)\n        serialize_value(stream, v)", "    for k, v in value.items():\n        serialize_value(stream, v)\n        serialize_value(stream, k)")], "C13.R1"),
        B("string-length-of-str", [("serializable.py", "    stream.write(struct.pack(\">H\", SerializableBaseTypes.string_t))\n    serialize_int(stream, len(enc))", "    stream.write(struct.pack(\">H\", SerializableBaseTypes.string_t))\n    serialize_int(stream, len(value))")], "C13.R1"),
        B("bool-dispatch-by-isinstance", [("serializable.py", "    t = type(value)\n\n    if t in serialize_types:", "    t = int if isinstance(value, int) else type(value)\n\n    if t in serialize_types:")], "C13.R3"),
        B("struct-error-swallowed", [("serializable.py", "            err = ValueError(\"unable to serialize %s %r: %s\" % (t.__name__, value, e))\n        if err:\n            raise err", "            err = ValueError(\"unable to serialize %s %r: %s\" % (t.__name__, value, e))")], "C13.R2"),
        B("writer-limit-differs", [("serializable.py", "    if len(value) > MAX_ARRAY_LENGTH:\n        raise ValueError(\"set is too long\")", "    if len(value) > MAX_BYTES_LENGTH:\n        raise ValueError(\"set is too long\")")], "C13.R3"),
        B("fields-read-in-reverse", [("serializable.py", "            field = self._fields[i]\n            setattr(self, field, deserialize_value(stream, **kwargs))", "            field = self._fields[-1 - i]\n            setattr(self, field, deserialize_value(stream, **kwargs))")], "C13.R1"),
        B("float-tag-reader-shadowed", [("serializable.py", "    SerializableBaseTypes.float32_t:   deserialize_float32_t,\n    SerializableBaseTypes.float64_t:   deserialize_float64_t,", "    SerializableBaseTypes.float64_t:   deserialize_float64_t,")], "C13.R1"),
        B("unsupported-type-ignored", [("serializable.py", "    else:\n        raise TypeError(\"%s: %s\" % (_field, type(value)))", "    else:\n        serialize_null(stream, None)")], "C13.R3"),
    ],
    "C14": [
        B("while-loop-in-decoder", [("serializable.py", "    obj = {}\n    for i in range(length):\n        k = deserialize_value(stream, **kwargs)", "    obj = {}\n    i = 0\n    while i != length:\n        i += 1\n        k = deserialize_value(stream, **kwargs)")], "C14.R1"),
        B("preallocation", [("serializable.py", "    obj = []\n    for i in range(length):\n\n        try:", "    obj = [None] * length\n    for i in range(length):\n\n        try:")], "C14.R2"),
        B("loop-without-consumption", [("serializable.py", "        for i in range(num_fields):\n            field = self._fields[i]\n            setattr(self, field, deserialize_value(stream, **kwargs))", "        for i in range(num_fields):\n            if i < len(self._fields):\n                setattr(self, self._fields[i], deserialize_value(stream, **kwargs))")], "C14.R1"),
        B("eval-in-decoder", [("serializable.py", "    return stream.read(length).decode(\"utf-8\")", "    return eval(repr(stream.read(length).decode(\"utf-8\")))")], "C14.R3"),
        B("attribute-name-from-stream", [("serializable.py", "            field = self._fields[i]\n            setattr(self, field, deserialize_value(stream, **kwargs))", "            field = deserialize_value(stream, **kwargs)\n            setattr(self, field, deserialize_value(stream, **kwargs))")], "C14.R3"),
        B("short-read-accepted", [("serializable.py", "deserialize_int32_t   = lambda stream, **kwargs: struct.unpack(\">l\", stream.read(4))[0]", "deserialize_int32_t   = lambda stream, **kwargs: struct.unpack(\">l\", stream.read(4).ljust(4, b\"\\x00\"))[0]")], "C14.R4"),
        B("tag-read-unchecked", [("serializable.py", "    buf = stream.read(2)\n    if len(buf) != 2:\n        raise SerializableHeaderError(\"unexpected end of stream\")\n    type_id, = struct.unpack(\">H\", buf)", "    buf = stream.read(2).ljust(2, b\"\\x00\")\n    type_id, = struct.unpack(\">H\", buf)")], "C14.R1"),
        B("registry-without-membership-test", [("serializable.py", "        elif type_id in registry:\n            obj = registry[type_id]()", "        elif True:\n            obj = registry[type_id]()")], "C14.R3"),
        B("errors-swallowed", [("serializable.py", "        except Exception as e:\n            raise e\n\n    return obj", "        except Exception as e:\n            break\n\n    return obj")], "C14.R4"),
    ],
    "C15": [
        B("dict-args-swapped", [("serializable.py", "                        for key,val in record[field].items():\n                            k = _fromJsonBasic(args[0], field, key)\n                            v = _fromJsonBasic(args[1], field, val)", "                        for key,val in record[field].items():\n                            k = _fromJsonBasic(args[1], field, key)\n                            v = _fromJsonBasic(args[0], field, val)")], "C15.R3"),
        B("set-rebuilt-as-list", [("serializable.py", "                        setattr(inst, field, set(lst))", "                        setattr(inst, field, lst)")], "C15.R2"),
        B("tuple-branch-missing-in-tojson", [("serializable.py", "                elif origin is tuple and isinstance(record, (Iterable, Sequence)):\n                    lst = []\n                    for i, t in enumerate(args):\n                        if i < len(record):\n                            lst.append(_toJsonBasic(t, field, record[i]))\n                        else:\n                            lst.append(None)\n\n                    obj[field] = lst\n", "")], "C15.R1"),
        B("enum-tojson-value", [("serializable.py", "        \"\"\" return a dictionary suitable for passing to json.dumps\n        \"\"\"\n        return self.__class__._value2name[self.value]", "        \"\"\" return a dictionary suitable for passing to json.dumps\n        \"\"\"\n        return self.value")], "C15.R5"),
        B("name-map-not-inverse", [("serializable.py", "                cls._name2value[name] = getattr(cls, name)", "                cls._name2value[name.lower()] = getattr(cls, name)")], "C15.R5"),
        B("loads-skips-fromjson", [("serializable.py", "        return cls.fromJson(json.loads(string, **kwargs))", "        return cls(**json.loads(string, **kwargs))")], "C15.R6"),
        B("nested-serializable-kept-as-dict", [("serializable.py", "        inst = None\n        if value is not None:\n            inst = type.fromJson(value)\n        return inst", "        inst = None\n        if value is not None:\n            inst = value\n        return inst")], "C15.R4"),
        B("tuple-positions-shifted", [("serializable.py", "                                v = record[field][i]\n                                lst.append(_fromJsonBasic(t, field, v))", "                                v = record[field][i - 1]\n                                lst.append(_fromJsonBasic(t, field, v))")], "C15.R3"),
    ],
    "C16": [
        B("plain-optional-slash", [("http_server.py", "                    re_str += \"\\\\/([^\\\\/]+)\"", "                    re_str += \"\\\\/?([^\\\\/]+)\"")], "C16.R1"),
        B("plus-optional-slash", [("http_server.py", "                    re_str += \"\\\\/(.+)\"", "                    re_str += \"\\\\/?(.+)\"")], "C16.R1"),
        B("plain-spans-segments", [("http_server.py", "                    re_str += \"\\\\/([^\\\\/]+)\"", "                    re_str += \"\\\\/(.+?)\"")], "C16.R2"),
        B("literal-not-escaped", [("http_server.py", "                re_str += '\\\\/' + re.escape(part)", "                re_str += '\\\\/' + part")], "C16.R7"),
        B("not-anchored-at-end", [("http_server.py", "        re_str += '$'\n        return (re.compile(re_str), tokens)", "        return (re.compile(re_str), tokens)")], "C16.R4"),
        B("search-instead-of-match", [("http_server.py", "            m = re_ptn.match(path)", "            m = re_ptn.search(path)")], "C16.R4"),
        B("last-registered-wins", [("http_server.py", "            self.route_table[route.method].append((regex, tokens, route))", "            self.route_table[route.method].insert(0, (regex, tokens, route))")], "C16.R5"),
        B("extra-capture-group", [("http_server.py", "                    re_str += \"(?:\\\\/([^\\\\/]*)|\\\\/)?\"", "                    re_str += \"(\\\\/([^\\\\/]*)|\\\\/)?\"")], "C16.R3"),
        B("no-404", [("http_server.py", "            if not result:\n                response = JsonResponse({'error': 'path not found'}, 404)\n            else:\n\n                endpt, matches = result\n                request.matches = matches", "            if not result:\n                response = JsonResponse({'error': 'path not found'}, 200)\n            else:\n\n                endpt, matches = result\n                request.matches = matches")], "C16.R5"),
        B("star-needs-one-char", [("http_server.py", "                    re_str += \"(?:\\\\/(.*)|\\\\/)?\"", "                    re_str += \"(?:\\\\/(.+)|\\\\/)?\"")], "C16.R2"),
    ],
    "C17": [
        B("containment-guard-removed", [("http_server.py", "    if path != root_directory and not path.startswith(root_directory.rstrip(\"/\") + \"/\"):\n        raise ValueError(\"invalid path\")\n", "")], "C17.R1"),
        B("prefix-test-without-separator", [("http_server.py", "not path.startswith(root_directory.rstrip(\"/\") + \"/\")", "not path.startswith(root_directory)")], "C17.R1"),
        B("guard-on-unnormalised-path", [("http_server.py", "    path = os.path.join(root_directory, filename)\n    path = os.path.abspath(path)\n", "    path = os.path.join(root_directory, filename)\n")], "C17.R1"),
        B("rebinding-after-guard", [("http_server.py", "        raise ValueError(\"invalid path\")\n\n    return path", "        raise ValueError(\"invalid path\")\n\n    path = os.path.join(os.path.dirname(path), filename)\n    return path")], "C17.R1"),
        B("guard-raises-other-error", [("http_server.py", "    if \"..\" in parts or \".\" in parts:\n        raise ValueError(\"invalid path\")", "    if \"..\" in parts or \".\" in parts:\n        raise KeyError(\"invalid path\")")], "C17.R2"),
        B("backslashes-kept", [("http_server.py", "    filename = filename.replace(\"\\\\\", \"/\")\n", "")], "C17.R3"),
        OK("benign-commonpath-form", [("http_server.py", "    if path != root_directory and not path.startswith(root_directory.rstrip(\"/\") + \"/\"):\n        raise ValueError(\"invalid path\")", "    if os.path.commonpath([root_directory, path]) != root_directory:\n        raise ValueError(\"invalid path\")")]),
    ],
    "C18": [
        B("data-header-strict-less", [("http_server.py", "            if self.payload_length <= 0XFFFF:\n                hdr.append(struct.pack(\"!H\", self.payload_length))", "            if self.payload_length < 0XFFFF:\n                hdr.append(struct.pack(\"!H\", self.payload_length))")], "C18.R1"),
        B("header-cut-at-127", [("http_server.py", "        if self.payload_length <= 125:\n            length = self.payload_length", "        if self.payload_length <= 127:\n            length = self.payload_length")], "C18.R1"),
        OK("benign-header-cut-at-126-is-equivalent", [("http_server.py", "        if self.payload_length <= 125:\n            length = self.payload_length", "        if self.payload_length <= 126:\n            length = self.payload_length")]),
        B("second-test-not-elif", [("http_server.py", "        elif length == 127:\n            length, = struct.unpack(\"!Q\", socket.recv(8))", "        if length == 127:\n            length, = struct.unpack(\"!Q\", socket.recv(8))")], "C18.R2"),
        B("ext-length-32-bit", [("http_server.py", "            length, = struct.unpack(\"!H\", socket.recv(2))", "            length, = struct.unpack(\"!I\", socket.recv(4))")], "C18.R2"),
        B("opcode-mask-wrong", [("http_server.py", "        self.flags.opcode = WebSocketOpCode((flags & 0x0F) >> 0)", "        self.flags.opcode = WebSocketOpCode((flags & 0x07) >> 0)")], "C18.R3"),
        B("unmask-mod-3", [("http_server.py", "self.payload[i] ^= self.masking_key[i%4];", "self.payload[i] ^= self.masking_key[i%3];")], "C18.R3"),
        B("factory-length-stale", [("http_server.py", "        frame.payload = struct.pack(\"!H\", status) + message\n        frame.payload_length = len(frame.payload)", "        frame.payload_length = len(message)\n        frame.payload = struct.pack(\"!H\", status) + message")], "C18.R4"),
        B("one-frame-per-read", [("http_server.py", "        while self._buffer.hasFrame():\n            self._handleFrame(self._readFrame())", "        if self._buffer.hasFrame():\n            self._handleFrame(self._readFrame())")], "C18.R5"),
        B("parse-without-availability", [("http_server.py", "        while self._buffer.hasFrame():\n            self._handleFrame(self._readFrame())", "        while self._buffer.buf:\n            self._handleFrame(self._readFrame())")], "C18.R5"),
        B("frame-size-ignores-mask", [("http_server.py", "        if self.buf[1] & 0x80:\n            size += 4\n", "")], "C18.R5"),
        B("availability-off-by-one", [("http_server.py", "        return size is not None and len(self.buf) >= size", "        return size is not None and len(self.buf) >= size - 1")], "C18.R5"),
    ],
    "C19": [
        B("true-from-handler", [("auth.py", "        except InvalidKey as e:\n            pass", "        except InvalidKey as e:\n            result = True")], "C19.R2"),
        B("field-count-test-removed", [("auth.py", "        if len(parts) != 4:\n            raise ValueError(\"invalid password hash\")\n", "")], "C19.R1"),
        B("struct-error-not-converted", [("auth.py", "        except struct.error as ex:\n            e = ValueError(str(ex))\n        if e:\n            raise e", "        except struct.error as ex:\n            e = ValueError(str(ex))")], "C19.R1"),
        B("broad-handler-returns-false", [("auth.py", "        except InvalidKey as e:\n            pass", "        except Exception as e:\n            pass")], "C19.R1"),
        B("constant-salt", [("auth.py", "        salt = os.urandom(Auth.SALT_LENGTH)", "        salt = b\"\\x00\" * Auth.SALT_LENGTH")], "C19.R4"),
        B("params-order-swapped", [("auth.py", "            N, r, p, salt_length, length = struct.unpack(\">HBBBB\", params)", "            N, p, r, salt_length, length = struct.unpack(\">HBBBB\", params)")], "C19.R3"),
        B("empty-digest-accepted", [("auth.py", "        if length < 1 or len(expected) != length or len(salt) != salt_length:", "        if len(expected) != length or len(salt) != salt_length:")], "C19.R6"),
        B("verify-skipped", [("auth.py", "            kdf.verify(key_material, expected)\n            result = True", "            result = True\n            kdf.verify(key_material, expected)")], "C19.R2"),
        B("type-check-dropped", [("auth.py", "        if not isinstance(password_hash, str):\n            raise TypeError(\"expected bytes received %s\" % type(password))\n", "")], "C19.R5"),
        B("version-not-checked", [("auth.py", "        if kind != b'scrypt' or version != b\"1\":", "        if kind != b'scrypt' and version != b\"1\":")], "C19.R"),
    ],
    "C20": [
        B("dispatch-by-class-object", [("dispatch.py", "        T = type(msg)\n        if T.__name__ not in self.registered_events:\n            raise DispatchError(T.__name__)\n        self.registered_events[T.__name__](client, seqnum, msg)", "        T = type(msg)\n        if T not in self.registered_events:\n            raise DispatchError(T.__name__)\n        self.registered_events[T](client, seqnum, msg)")], "C20.R1"),
        B("unregister-guard-inverted", [("dispatch.py", "        if event_type in self.registered_events:\n            del self.registered_events[event_type]", "        if event_type not in self.registered_events:\n            del self.registered_events[event_type]")], "C20.R2"),
        B("duplicate-overwrites", [("dispatch.py", "        if event_type in self.registered_events:\n            raise Exception(\"duplicate function registered for %s\" % event_type)\n        self.registered_events[event_type] = fn", "        self.registered_events[event_type] = fn")], "C20.R2"),
        B("arguments-reordered", [("dispatch.py", "        self.registered_events[T.__name__](seqnum, msg)", "        self.registered_events[T.__name__](msg, seqnum)")], "C20.R3"),
        B("missing-handler-ignored", [("dispatch.py", "        T = type(msg)\n        if T.__name__ not in self.registered_events:\n            raise DispatchError(T.__name__)\n        self.registered_events[T.__name__](seqnum, msg)", "        T = type(msg)\n        if T.__name__ not in self.registered_events:\n            return\n        self.registered_events[T.__name__](seqnum, msg)")], "C20.R3"),
        B("unregister-pretests-raw-key", [("dispatch.py", "            if inspect.isroutine(attr) and hasattr(attr, \"_event\"):\n                self.unregister_function(attr._event)", "            if inspect.isroutine(attr) and hasattr(attr, \"_event\"):\n                if attr._event in self.registered_events:\n                    self.unregister_function(attr._event)")], "C20.R4"),
        B("decorator-records-wrong-parameter", [("dispatch.py", "    # the second argument is the message\n    parameter = args[2][1]", "    # the second argument is the message\n    parameter = args[1][1]")], "C20.R5"),
        B("unregister-key-not-normalised", [("dispatch.py", "        if isinstance(event_type, type):\n            event_type = event_type.__name__\n        if event_type in self.registered_events:\n            del", "        if event_type in self.registered_events:\n            del")], "C20.R1"),
    ],
}

# benign variants that are applied for every property (the verdict must not change)
BENIGN_ALL = [
    OK("benign-unrelated-method", [(C, "    def timedout(self, timeout):", "    def idle_seconds(self):\n        return self.clock() - self.last_recv_time\n\n    def timedout(self, timeout):")]),
    OK("benign-logging-added", [("server.py", "        self.ctxt.log.info(\"server main loop starting\")", "        self.ctxt.log.info(\"server main loop starting\")\n        self.ctxt.log.debug(\"tick interval %s\", self.ctxt.interval)")]),
]

# "twins": for each seeded change of round 3, the same refactor done right (behaviour preserved) - the checker must stay silent
TWINS = {
    "C01": [OK("twin-gcm-wrapper-converts-exception", [("crypto.py", "    return AESGCM(key).decrypt(iv, data, aad)", "    try:\n        return AESGCM(key).decrypt(iv, data, aad)\n    except Exception as e:\n        raise ValueError(\"invalid tag\") from e")])],
    "C02": [OK("twin-duplicate-hello-logged-and-ignored", [("server.py", "                        if hdr.pkt_type != PacketType.CHALLENGE_RESP:\n                            continue\n",
                                                           "                        if hdr.pkt_type == PacketType.CLIENT_HELLO:\n                            self.ctxt.log.debug(\"duplicate hello ignored\")\n                            continue\n                        if hdr.pkt_type != PacketType.CHALLENGE_RESP:\n                            continue\n")])],
    "C03": [OK("twin-status-membership-test", [(C, "        if self.status != ConnectionStatus.CONNECTED:\n            return\n\n        if not isinstance(payload, bytes):", "        if self.status not in (ConnectionStatus.CONNECTED,):\n            return\n\n        if not isinstance(payload, bytes):")])],
    "C06": [OK("twin-max-message-size-constant", [(C, "    MAX_FRAGMENTS = 0x2000 # ~11mb\n", "    MAX_FRAGMENTS = 0x2000 # ~11mb\n    MAX_MESSAGE_SIZE = MAX_FRAGMENT_SIZE * MAX_FRAGMENTS\n"),
                                                   (C, "        Packet.RECV_SIZE = mtu + 512\n", "        Packet.RECV_SIZE = mtu + 512\n        Packet.MAX_MESSAGE_SIZE = Packet.MAX_FRAGMENT_SIZE * Packet.MAX_FRAGMENTS\n"),
                                                   (C, "        if len(payload) > Packet.MAX_FRAGMENT_SIZE * Packet.MAX_FRAGMENTS:", "        if len(payload) > Packet.MAX_MESSAGE_SIZE:")])],
    "C07": [OK("twin-context-looked-up-with-get", [(C, "        if frag_id not in self.received_fragments:\n            self.received_fragments[frag_id] = FragmentReceiver(self, count, self.clock())",
                                                    "        receiver = self.received_fragments.get(frag_id)\n        if receiver is None:\n            self.received_fragments[frag_id] = FragmentReceiver(self, count, self.clock())")])],
    "C08": [OK("twin-threshold-half-range", [(C, "    _threshold: int = (_max_sequence - 1) // 2", "    _threshold: int = _max_sequence // 2")])],
    "C09": [OK("twin-fragment-test-rearranged", [(C, "        if Packet.MAX_PAYLOAD_SIZE < 1024 + Packet.FRAGMENT_OVERHEAD:", "        if Packet.MAX_PAYLOAD_SIZE - Packet.FRAGMENT_OVERHEAD < 1024:")])],
    "C11": [OK("twin-blocklist-local-alias", [("twisted.py", "        if addr[0] in self.ctxt.blocklist:\n            return\n", "        blocked = self.ctxt.blocklist\n        if addr[0] in blocked:\n            return\n")])],
    "C13": [OK("twin-fields-alias", [("serializable.py", "        serialize_value(stream, len(self._fields))\n        for field in self._fields:\n            serialize_value(stream, getattr(self, field), field)",
                                      "        fields = self._fields\n        serialize_value(stream, len(fields))\n        for field in fields:\n            serialize_value(stream, getattr(self, field), field)")])],
    "C14": [OK("twin-field-count-checked-up-front", [("serializable.py", "        num_fields = deserialize_value(stream, **kwargs)\n        for i in range(num_fields):\n            field = self._fields[i]",
                                                      "        num_fields = deserialize_value(stream, **kwargs)\n        if num_fields > len(self._fields):\n            raise IndexError(\"too many fields\")\n        for i in range(num_fields):\n            field = self._fields[i]")])],
    "C15": [OK("twin-list-set-branches-merged", [("serializable.py", "                if origin is list and isinstance(record, (Iterable, Sequence)):\n                    lst = []\n                    for tmp in record:\n                        lst.append(_toJsonBasic(args[0], field, tmp))\n                    obj[field] = lst\n\n                elif origin is set and isinstance(record, (Iterable, Sequence)):\n                    lst = []\n                    for tmp in record:\n                        lst.append(_toJsonBasic(args[0], field, tmp))\n                    obj[field] = lst\n",
                                                  "                if origin in (list, set) and isinstance(record, (Iterable, Sequence)):\n                    lst = []\n                    for tmp in record:\n                        lst.append(_toJsonBasic(args[0], field, tmp))\n                    obj[field] = lst\n")])],
    "C16": [OK("twin-dead-alternative-removed", [("http_server.py", "                    re_str += \"(?:\\\\/([^\\\\/]*)|\\\\/)?\"", "                    re_str += \"(?:\\\\/([^\\\\/]*))?\"")])],
    "C17": [OK("twin-commonpath-containment", [("http_server.py", "    if path != root_directory and not path.startswith(root_directory.rstrip(\"/\") + \"/\"):\n        raise ValueError(\"invalid path\")",
                                               "    if os.path.commonpath([root_directory, path]) != root_directory:\n        raise ValueError(\"invalid path\")")])],
    "C18": [OK("twin-text-length-of-encoded", [("http_server.py", "        frame.payload = message.encode(\"utf-8\")\n        frame.payload_length = len(frame.payload)", "        frame.payload = message.encode(\"utf-8\")\n        frame.payload_length = len(message.encode(\"utf-8\"))")])],
    "C19": [OK("twin-salt-from-secrets", [("auth.py", "        salt = os.urandom(Auth.SALT_LENGTH)", "        import secrets\n        salt = secrets.token_bytes(Auth.SALT_LENGTH)")])],
    "C20": [OK("twin-unregister-getmembers", [("dispatch.py", "        for name in dir(resource):\n            attr = getattr(resource, name)\n            if inspect.isroutine(attr) and hasattr(attr, \"_event\"):\n                self.unregister_function(attr._event)",
                                               "        for name, attr in inspect.getmembers(resource):\n            if inspect.isroutine(attr) and hasattr(attr, \"_event\"):\n                self.unregister_function(attr._event)")])],
}
for _k, _v in TWINS.items():
    VARIANTS[_k].extend(_v)

S = "serializable.py"
VARIANTS["C15"].extend([
    OK("twin-list-comprehension", [(S, "                if origin is list and isinstance(record, (Iterable, Sequence)):\n                    lst = []\n                    for tmp in record:\n                        lst.append(_toJsonBasic(args[0], field, tmp))\n                    obj[field] = lst\n",
                                    "                if origin is list and isinstance(record, (Iterable, Sequence)):\n                    obj[field] = [_toJsonBasic(args[0], field, tmp) for tmp in record]\n")]),
    OK("twin-origin-compared-with-eq", [(S, "                    elif origin is dict and isinstance(record[field], Mapping):", "                    elif origin == dict and isinstance(record[field], Mapping):")]),
    OK("twin-tuple-test-flipped", [(S, "                        if i < len(record):\n                            lst.append(_toJsonBasic(t, field, record[i]))\n                        else:\n                            lst.append(None)",
                                    "                        if i >= len(record):\n                            lst.append(None)\n                        else:\n                            lst.append(_toJsonBasic(t, field, record[i]))")]),
    OK("twin-dict-comprehension-from", [(S, "                        map = {}\n                        for key,val in record[field].items():\n                            k = _fromJsonBasic(args[0], field, key)\n                            v = _fromJsonBasic(args[1], field, val)\n                            map[k] = v\n                        setattr(inst, field, map)",
                                         "                        setattr(inst, field, {_fromJsonBasic(args[0], field, key): _fromJsonBasic(args[1], field, val) for key, val in record[field].items()})")]),
    B("set-elements-with-second-arg", [(S, "                    elif origin is set and isinstance(record[field], (Iterable, Sequence)):\n                        lst = []\n                        for rec in record[field]:\n                            lst.append(_fromJsonBasic(args[0], field, rec))",
                                        "                    elif origin is set and isinstance(record[field], (Iterable, Sequence)):\n                        lst = []\n                        for rec in record[field]:\n                            lst.append(_fromJsonBasic(args[-1], field, rec))")], "C15.R2"),
    B("tuple-padding-dropped-in-fromjson", [(S, "                            else:\n                                # for missing values pad the tuple with null values\n                                lst.append(None)\n", "")], "C15.R2"),
    B("none-branch-before-containers-swallows", [(S, "                elif record is None:\n                    obj[field] = None\n", "                elif record is None:\n                    obj[field] = []\n")], "C15.R1"),
    B("list-elements-not-converted", [(S, "                    for tmp in record:\n                        lst.append(_toJsonBasic(args[0], field, tmp))\n                    obj[field] = lst\n\n                elif origin is set", "                    for tmp in record:\n                        lst.append(tmp)\n                    obj[field] = lst\n\n                elif origin is set")], "C15.R3"),
])

# twins, second set: property-preserving refactorings in the neighbourhood of the round-1/2 seeded changes, including
# extract-method refactorings
TWINS2 = {
    "C01": [OK("twin-aad-slice-from-zero", [(C, "            aad = datagram[:PacketHeader.SIZE]", "            aad = datagram[0:PacketHeader.SIZE]")]),
            OK("twin-keyless-guard-de-morgan", [(C, "            if hdr.pkt_type not in (PacketType.CLIENT_HELLO, PacketType.SERVER_HELLO) or hdr.count > 1:",
                                                 "            if not (hdr.pkt_type in (PacketType.CLIENT_HELLO, PacketType.SERVER_HELLO) and hdr.count <= 1):")])],
    "C02": [OK("twin-keyless-guard-de-morgan", [(C, "            if hdr.pkt_type not in (PacketType.CLIENT_HELLO, PacketType.SERVER_HELLO) or hdr.count > 1:",
                                                 "            if not (hdr.pkt_type in (PacketType.CLIENT_HELLO, PacketType.SERVER_HELLO) and hdr.count <= 1):")])],
    "C04": [OK("twin-insert-without-temporary", [(C, "            n = -diff\n            if n <= self.nbits:\n                self.bits >>= n\n                self.bits |= self.onehot >> (n - 1)",
                                                  "            if -diff <= self.nbits:\n                self.bits >>= -diff\n                self.bits |= self.onehot >> (-diff - 1)")])],
    "C08": [OK("twin-insert-without-temporary", [(C, "            n = -diff\n            if n <= self.nbits:\n                self.bits >>= n\n                self.bits |= self.onehot >> (n - 1)",
                                                  "            if -diff <= self.nbits:\n                self.bits >>= -diff\n                self.bits |= self.onehot >> (-diff - 1)")])],
    "C06": [OK("twin-split-by-range", [(C, "        while len(payload) > 0:\n            if len(payload) < Packet.MAX_PAYLOAD_SIZE - Packet.FRAGMENT_OVERHEAD:\n                # allow the final fragment to use as much space as possible\n                self.fragments.append(payload)\n                payload = b\"\"\n            else:\n                # intermediate fragments should leave room for other\n                # messages\n                self.fragments.append(payload[:Packet.MAX_FRAGMENT_SIZE])\n                payload = payload[Packet.MAX_FRAGMENT_SIZE:]\n",
                                        "        for offset in range(0, len(payload), Packet.MAX_FRAGMENT_SIZE):\n            self.fragments.append(payload[offset:offset + Packet.MAX_FRAGMENT_SIZE])\n")])],
    "C09": [OK("twin-decoder-refuses-short-header", [(C, "                length, seq, typ = struct.unpack(\">HHB\", payload[:5])\n                typ = PacketType(typ)",
                                                      "                if len(payload) < 5:\n                    raise PacketError(\"truncated message header\")\n                length, seq, typ = struct.unpack(\">HHB\", payload[:5])\n                typ = PacketType(typ)")])],
    "C10": [OK("twin-dispatch-helper-extracted", [("server.py", "                        for seqnum, msg in client.incoming_messages:\n                            try:\n                                self.ctxt.handler.handle_message(client, seqnum, msg)\n                            except Exception as e:\n                                client.log.exception(\"error processing message: %s\", e)\n",
                                                   "                        for seqnum, msg in client.incoming_messages:\n                            self._deliver(client, seqnum, msg)\n"),
                                                  ("server.py", "    def update_stats(self):\n", "    def _deliver(self, client, seqnum, msg):\n        try:\n            self.ctxt.handler.handle_message(client, seqnum, msg)\n        except Exception as e:\n            client.log.exception(\"error processing message: %s\", e)\n\n    def update_stats(self):\n")])],
    "C17": [OK("twin-containment-negated-disjunction", [("http_server.py", "    if path != root_directory and not path.startswith(root_directory.rstrip(\"/\") + \"/\"):",
                                                         "    if not (path == root_directory or path.startswith(root_directory.rstrip(\"/\") + \"/\")):")])],
    "C20": [OK("twin-key-helper-extracted", [("dispatch.py", "        if isinstance(event_type, type):\n            event_type = event_type.__name__\n        if event_type in self.registered_events:\n            raise Exception(\"duplicate function registered for %s\" % event_type)",
                                              "        event_type = self._key(event_type)\n        if event_type in self.registered_events:\n            raise Exception(\"duplicate function registered for %s\" % event_type)"),
                                             ("dispatch.py", "        if isinstance(event_type, type):\n            event_type = event_type.__name__\n        if event_type in self.registered_events:\n            del self.registered_events[event_type]",
                                              "        event_type = self._key(event_type)\n        if event_type in self.registered_events:\n            del self.registered_events[event_type]"),
                                             ("dispatch.py", "    def unregister(self, resource):", "    @staticmethod\n    def _key(event_type):\n        if isinstance(event_type, type):\n            return event_type.__name__\n        return event_type\n\n    def unregister(self, resource):")])],
}
for _k, _v in TWINS2.items():
    VARIANTS[_k].extend(_v)

VARIANTS["C10"].append(B("dispatch-helper-extracted-without-try", [("server.py", "                        for seqnum, msg in client.incoming_messages:\n                            try:\n                                self.ctxt.handler.handle_message(client, seqnum, msg)\n                            except Exception as e:\n                                client.log.exception(\"error processing message: %s\", e)\n",
                                                                    "                        for seqnum, msg in client.incoming_messages:\n                            self._deliver(client, seqnum, msg)\n"),
                                                                   ("server.py", "    def update_stats(self):\n", "    def _deliver(self, client, seqnum, msg):\n        self.ctxt.handler.handle_message(client, seqnum, msg)\n\n    def update_stats(self):\n")], "C10"))
VARIANTS["C20"].append(B("key-helper-extracted-returns-raw", [("dispatch.py", "        if isinstance(event_type, type):\n            event_type = event_type.__name__\n        if event_type in self.registered_events:\n            del self.registered_events[event_type]",
                                                               "        event_type = self._key(event_type)\n        if event_type in self.registered_events:\n            del self.registered_events[event_type]"),
                                                              ("dispatch.py", "    def unregister(self, resource):", "    @staticmethod\n    def _key(event_type):\n        return event_type\n\n    def unregister(self, resource):")], "C20.R1"))

VARIANTS["C06"].append(B("split-by-range-drops-a-byte-per-fragment", [(C, "        while len(payload) > 0:\n            if len(payload) < Packet.MAX_PAYLOAD_SIZE - Packet.FRAGMENT_OVERHEAD:\n                # allow the final fragment to use as much space as possible\n                self.fragments.append(payload)\n                payload = b\"\"\n            else:\n                # intermediate fragments should leave room for other\n                # messages\n                self.fragments.append(payload[:Packet.MAX_FRAGMENT_SIZE])\n                payload = payload[Packet.MAX_FRAGMENT_SIZE:]\n",
                                        "        for offset in range(0, len(payload), Packet.MAX_FRAGMENT_SIZE):\n            self.fragments.append(payload[offset:offset + Packet.MAX_FRAGMENT_SIZE - 1])\n")], "C06.R1"))

# twins of the round-4 seeded changes
TWINS4 = {
    "C01": [OK("twin-empty-packet-return-after-authentication", [(C, "        # unpack the payload into a list of PendingMessage instances\n\n        msgs = []\n",
                                                                 "        if pkt.hdr.count == 0:\n            # a keep alive carries no messages\n            pkt.msgs = []\n            return pkt\n\n        # unpack the payload into a list of PendingMessage instances\n\n        msgs = []\n")])],
    "C02": [OK("twin-verify-wrapper-converts-and-raises", [("crypto.py", "        self.key.verify(signature, data, ec.ECDSA(hashes.SHA256()))",
                                                            "        try:\n            self.key.verify(signature, data, ec.ECDSA(hashes.SHA256()))\n        except (TypeError, ValueError) as e:\n            raise InvalidSignature(\"malformed signature: %s\" % e)")])],
    "C03": [OK("twin-aad-sliced-to-header-size", [(C, "            ct_withtag = crypto.encrypt_gcm(key, iv, hdr, self.msg)", "            aad = hdr[:PacketHeader.SIZE]\n            ct_withtag = crypto.encrypt_gcm(key, iv, aad, self.msg)")])],
    "C04": [OK("twin-message-number-in-a-local", [(C, "        self.seq_message += 1\n\n        if retry == RetryMode.RETRY_ON_TIMEOUT:\n            callback = RetrySender(self, self.seq_message, pkt_type, payload, callback)\n\n        msg = PendingMessage(self.seq_message, pkt_type, payload, callback, retry)",
                                                   "        self.seq_message += 1\n        number = self.seq_message\n\n        if retry == RetryMode.RETRY_ON_TIMEOUT:\n            callback = RetrySender(self, number, pkt_type, payload, callback)\n\n        msg = PendingMessage(number, pkt_type, payload, callback, retry)")])],
    "C06": [OK("twin-decoder-walks-by-offset", [(C, "            payload = pkt.msg\n            for i in range(pkt.hdr.count):\n                length, seq, typ = struct.unpack(\">HHB\", payload[:5])\n                typ = PacketType(typ)\n                seq = SeqNum(seq)\n                msg = payload[5: 5 + length]\n\n                msgs.append(PendingMessage(seq, typ, msg, None, 0))\n\n                payload = payload[5+length:]",
                                                 "            payload = pkt.msg\n            offset = 0\n            for i in range(pkt.hdr.count):\n                length, seq, typ = struct.unpack_from(\">HHB\", payload, offset)\n                typ = PacketType(typ)\n                seq = SeqNum(seq)\n                offset += 5\n                msg = payload[offset: offset + length]\n\n                msgs.append(PendingMessage(seq, typ, msg, None, 0))\n\n                offset += length")])],
    "C07": [OK("twin-last-fragment-bound-respelled", [(C, "            if len(payload) < Packet.MAX_PAYLOAD_SIZE - Packet.FRAGMENT_OVERHEAD:", "            if len(payload) < Packet.MAX_CONTENT_SIZE - Packet.MESSAGE_OVERHEAD_1 - Packet.FRAGMENT_OVERHEAD:")])],
    "C09": [OK("twin-capacity-read-once-per-call", [(C, "        pkt_type = PacketType.UNKNOWN\n        msgs = [] # messages (seq, typ, msg) to include in this packet",
                                                     "        capacity = Packet.MAX_CONTENT_SIZE\n        pkt_type = PacketType.UNKNOWN\n        msgs = [] # messages (seq, typ, msg) to include in this packet"),
                                                    (C, "                if size <= Packet.MAX_CONTENT_SIZE and len(msgs) < Packet.MAX_MESSAGES:", "                if size <= capacity and len(msgs) < Packet.MAX_MESSAGES:"),
                                                    (C, "            if size <= Packet.MAX_CONTENT_SIZE and len(msgs) < Packet.MAX_MESSAGES:", "            if size <= capacity and len(msgs) < Packet.MAX_MESSAGES:")])],
}
for _k, _v in TWINS4.items():
    VARIANTS[_k].extend(_v)
# twins that concern shared mechanisms are run for every property that shares them
VARIANTS["C09"].extend(TWINS4["C06"] + TWINS4["C07"])
VARIANTS["C05"].extend(TWINS4["C07"] + TWINS4["C09"] + TWINS4["C06"])
VARIANTS["C07"].extend(TWINS4["C09"])
VARIANTS["C03"].extend([OK("twin-aad-slice-from-zero", [(C, "            aad = datagram[:PacketHeader.SIZE]", "            aad = datagram[0:PacketHeader.SIZE]")])])

H = "http_server.py"
TWINS4B = {
    "C11": [OK("twin-reply-mode-in-a-local", [(C, "        self._send_type(PacketType.SERVER_HELLO, payload, RetryMode.NONE, None)", "        mode = RetryMode.NONE\n        self._send_type(PacketType.SERVER_HELLO, payload, mode, None)")])],
    "C13": [OK("twin-header-in-a-local", [(S, "        stream.write(struct.pack(\">H\", self.type_id))\n\n    def serialize(self, stream, **kwargs):\n\n        \"\"\" Write the content",
                                           "        header = struct.pack(\">H\", self.type_id)\n        stream.write(header)\n\n    def serialize(self, stream, **kwargs):\n\n        \"\"\" Write the content")])],
    "C14": [OK("twin-read-exact-helper-bounded", [(S, "    return stream.read(length).decode(\"utf-8\")\n", "    return _read_exact(stream, length).decode(\"utf-8\")\n"),
                                                   (S, "def deserialize_string(stream, **kwargs):\n", "def _read_exact(stream, length):\n    data = stream.read(length)\n    while len(data) < length:\n        chunk = stream.read(length - len(data))\n        if not chunk:\n            break\n        data += chunk\n    return data\n\ndef deserialize_string(stream, **kwargs):\n")])],
    "C16": [OK("twin-method-names-constant-fresh-lists", [(H, "        self.route_table = {\n            \"DELETE\": [],\n            \"GET\": [],\n            \"POST\": [],\n            \"PUT\": [],\n        }",
                                                           "        self.route_table = {method: [] for method in (\"DELETE\", \"GET\", \"POST\", \"PUT\")}")])],
    "C17": [OK("twin-prefix-in-a-local", [(H, "    if path != root_directory and not path.startswith(root_directory.rstrip(\"/\") + \"/\"):",
                                           "    prefix = root_directory.rstrip(\"/\") + \"/\"\n    if path != root_directory and not path.startswith(prefix):")])],
    "C18": [OK("twin-opcodes-in-decimal", [(H, "    Ping = 0x9\n    Pong = 0xA", "    Ping = 9\n    Pong = 10")])],
    "C19": [OK("twin-kdf-helper-with-explicit-parameters", [("auth.py", "        kdf = scrypt.Scrypt(salt, Auth.DIGEST_LENGTH, N, r, p,\n            backend=default_backend())", "        kdf = Auth._kdf(salt, Auth.DIGEST_LENGTH, N, r, p)"),
                                                             ("auth.py", "        kdf = scrypt.Scrypt(salt, length, N, r, p, backend=default_backend())", "        kdf = Auth._kdf(salt, length, N, r, p)"),
                                                             ("auth.py", "    @staticmethod\n    def hash_password(password: bytes) -> str:", "    @staticmethod\n    def _kdf(salt, length, N, r, p):\n        return scrypt.Scrypt(salt, length, N, r, p, backend=default_backend())\n\n    @staticmethod\n    def hash_password(password: bytes) -> str:")])],
    "C20": [OK("twin-register-collects-a-list-first", [("dispatch.py", "        for name in dir(resource):\n            attr = getattr(resource, name)\n            if inspect.isroutine(attr) and hasattr(attr, \"_event\"):\n                self.register_function(attr._event, attr)\n",
                                                        "        found = []\n        for name in dir(resource):\n            attr = getattr(resource, name)\n            if inspect.isroutine(attr) and hasattr(attr, \"_event\"):\n                found.append(attr)\n        for attr in found:\n            self.register_function(attr._event, attr)\n")])],
}
for _k, _v in TWINS4B.items():
    VARIANTS[_k].extend(_v)
VARIANTS["C14"].extend(TWINS4B["C13"])
VARIANTS["C13"].extend(TWINS4B["C14"])
