"""E7 - name resolution: unresolved global names and possibly-unbound locals."""
import ast
import builtins
import symtable

from .index import norm, walk_own
from .cfg import cfg_of
from .defuse import defuse_of

_BUILTINS = set(dir(builtins)) | {"__file__", "__name__", "__doc__", "__package__", "__spec__", "__builtins__"}
_MODCACHE = {}


def _module_tables(mod):
    if mod.name in _MODCACHE:
        return _MODCACHE[mod.name]
    top = symtable.symtable(mod.src, mod.path, "exec")
    bound = set()
    for s in top.get_symbols():
        if s.is_assigned() or s.is_imported() or s.is_namespace():
            bound.add(s.get_name())
    # names bound inside module-level try/if/for are reported by the top table as well.
    star = any(isinstance(n, ast.ImportFrom) and any(a.name == "*" for a in n.names) for n in ast.walk(mod.tree))
    tables = {}

    def visit(t):
        for c in t.get_children():
            tables.setdefault((c.get_name(), c.get_lineno()), []).append(c)
            visit(c)
    visit(top)
    _MODCACHE[mod.name] = (bound, star, tables)
    return _MODCACHE[mod.name]


def _func_tables(fi):
    """symtable blocks belonging to fi: its own block plus nested comprehension / lambda
    blocks (not nested defs, which are indexed as their own functions)"""
    bound, star, tables = _module_tables(fi.module)
    name = "lambda" if fi.is_lambda else fi.node.name
    cands = tables.get((name, fi.node.lineno), [])
    if not cands and not fi.is_lambda and fi.node.decorator_list:
        # symtable reports the line of the `def`, ast the line of the def too (3.8+); keep a fallback
        for (n, l), ts in tables.items():
            if n == name and abs(l - fi.node.lineno) <= len(fi.node.decorator_list) + 1:
                cands = ts
    out = []

    def add(t):
        out.append(t)
        for c in t.get_children():
            if c.get_type() == "function" and c.get_name() in ("lambda", "listcomp", "setcomp", "dictcomp", "genexpr"):
                add(c)
    for t in cands[:1]:
        add(t)
    return out


def unresolved_names(fi):
    """[(name, lineno)] of Name loads in fi that resolve to no local, enclosing, module-level
    or builtin binding.  Exact w.r.t. Python's scoping rules (symtable)."""
    bound, star, tables = _module_tables(fi.module)
    if star:
        return []
    bad = set()
    for t in _func_tables(fi):
        for s in t.get_symbols():
            if not s.is_referenced():
                continue
            if s.is_global():            # explicit or implicit global
                n = s.get_name()
                if n not in bound and n not in _BUILTINS:
                    bad.add(n)
    out = []
    if bad:
        for n in walk_own(fi.node):
            if isinstance(n, ast.Name) and isinstance(n.ctx, ast.Load) and getattr(n, "_orig_id", n.id) in bad:
                out.append((getattr(n, "_orig_id", n.id), n.lineno, n))
    return out


def possibly_unbound(fi, only=None):
    """[(name, lineno, use_node)] loads of local variables reachable from the function entry
    without any binding of that variable having taken effect."""
    du = defuse_of(fi)
    cfg = du.cfg
    bound, star, tables = _module_tables(fi.module)
    locals_ = set()
    for t in _func_tables(fi)[:1]:
        for s in t.get_symbols():
            if s.is_local() and not s.is_parameter():
                locals_.add(s.get_name())
    out = []
    for n in walk_own(fi.node):
        if isinstance(n, ast.Name) and isinstance(n.ctx, ast.Load) and getattr(n, "_orig_id", n.id) in locals_:
            if only is not None and n.id not in only:
                continue
            # skip names inside nested lambdas/comprehensions binding them
            node = cfg.node_of(n)
            if node is None:
                continue
            if n.id not in du.defs:
                continue
            if du.possibly_unbound(n.id, node.id):
                # a use inside the defining statement of an AugAssign counts as well
                out.append((n.id, n.lineno, n))
    return out
