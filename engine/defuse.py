"""E5 - definitions, uses and reaching definitions over the CFG (intra-procedural),
plus package-wide attribute access tables (who writes / reads / calls `.attr`)."""
import ast

from .index import norm, walk_own, FuncInfo
from .cfg import cfg_of


def targets_of(stmt):
    """[(target_ast, value_ast_or_None, how)] bound by one CFG statement node's ast"""
    out = []
    if isinstance(stmt, ast.Assign):
        for t in stmt.targets:
            out += _unpack(t, stmt.value, "assign")
    elif isinstance(stmt, ast.AugAssign):
        out.append((stmt.target, stmt, "aug"))
    elif isinstance(stmt, ast.AnnAssign) and stmt.value is not None:
        out.append((stmt.target, stmt.value, "assign"))
    elif isinstance(stmt, (ast.For, ast.AsyncFor)):
        out += _unpack(stmt.target, stmt.iter, "for")
    elif isinstance(stmt, (ast.With, ast.AsyncWith)):
        for it in stmt.items:
            if it.optional_vars is not None:
                out += _unpack(it.optional_vars, it.context_expr, "with")
    elif isinstance(stmt, ast.ExceptHandler):
        if stmt.name:
            out.append((ast.Name(id=stmt.name, ctx=ast.Store()), None, "except"))
    elif isinstance(stmt, (ast.Import, ast.ImportFrom)):
        for a in stmt.names:
            out.append((ast.Name(id=(a.asname or a.name).split(".")[0], ctx=ast.Store()), None, "import"))
    elif isinstance(stmt, (ast.FunctionDef, ast.AsyncFunctionDef, ast.ClassDef)):
        out.append((ast.Name(id=stmt.name, ctx=ast.Store()), None, "def"))
    elif isinstance(stmt, ast.Delete):
        for t in stmt.targets:
            out.append((t, None, "del"))
    return out


def _unpack(t, value, how):
    if isinstance(t, (ast.Tuple, ast.List)):
        out = []
        for i, e in enumerate(t.elts):
            sub = None
            if isinstance(value, (ast.Tuple, ast.List)) and len(value.elts) == len(t.elts):
                sub = value.elts[i]
            else:
                sub = ("unpack", i, value)
            out += _unpack(e, sub, how)
        return out
    if isinstance(t, ast.Starred):
        return _unpack(t.value, ("unpack", "*", value), how)
    return [(t, value, how)]


class DefUse(object):
    def __init__(self, fi):
        self.fi = fi
        self.cfg = cfg_of(fi)
        self.defs = {}     # var text -> [(cfg node id, value, how)]
        for n in self.cfg.nodes:
            if n.ast is None:
                continue
            if n.kind in ("stmt", "for", "with", "except"):
                for (t, v, how) in targets_of(n.ast):
                    self.defs.setdefault(norm(t), []).append((n.id, v, how))
        # walrus
        for n in self.cfg.nodes:
            if n.ast is None or isinstance(n.ast, (ast.FunctionDef, ast.AsyncFunctionDef, ast.ClassDef)):
                continue
            for sub in ast.walk(n.ast) if n.kind in ("stmt", "test") else []:
                if isinstance(sub, ast.NamedExpr):
                    self.defs.setdefault(sub.target.id, []).append((n.id, sub.value, "walrus"))

    def def_nodes(self, var):
        return [d[0] for d in self.defs.get(var, [])]

    def reaching(self, var, at_node_id):
        """definitions of `var` that reach the *entry* of cfg node `at_node_id`:
        list of (def node id | 'ENTRY', value, how)"""
        cfg = self.cfg
        dmap = {}
        for (nid, v, how) in self.defs.get(var, []):
            dmap.setdefault(nid, []).append((nid, v, how))
        out = []
        seen = set()
        stack = [(p, lab) for (p, lab) in cfg.pred[at_node_id]]
        got_entry = False
        while stack:
            (n, lab) = stack.pop()
            key = (n, "exc" if lab in ("exc", "raise") else "done" if lab == "done" else "normal")
            if key in seen:
                continue
            seen.add(key)
            node = cfg.nodes[n]
            is_def = n in dmap
            if is_def and lab not in ("exc", "raise") and not (node.kind == "for" and lab == "done"):
                for d in dmap[n]:
                    if d not in out:
                        out.append(d)
                # an augmented assignment also *uses* the previous value but the def stops here
                continue
            if n == cfg.entry:
                got_entry = True
                continue
            for (p, l2) in cfg.pred[n]:
                stack.append((p, l2))
        if got_entry:
            out.append(("ENTRY", None, "entry"))
        return out

    def possibly_unbound(self, var, at_node_id):
        """True if the entry of at_node_id is reachable from function entry without any
        definition of var taking effect (parameters count as defined)."""
        if var in self.fi.params:
            return False
        return any(d[0] == "ENTRY" for d in self.reaching(var, at_node_id))

    def origin(self, expr, at_node_id, depth=6):
        """follow simple name aliases backwards: returns list of value asts (or markers)
        from which `expr` may derive at node at_node_id."""
        if depth == 0 or not isinstance(expr, ast.Name):
            return [expr]
        out = []
        for (nid, v, how) in self.reaching(expr.id, at_node_id):
            if nid == "ENTRY":
                out.append(("param", expr.id))
            elif isinstance(v, ast.AST) and not isinstance(v, ast.AugAssign):
                if isinstance(v, ast.Name):
                    out += self.origin(v, nid, depth - 1)
                else:
                    out.append(v)
            else:
                out.append(v)
        return out


_DU = {}


def defuse_of(fi):
    k = id(fi.node)
    if k not in _DU:
        _DU[k] = DefUse(fi)
    return _DU[k]


# ----------------------------------------------------------------- package-wide tables


class AttrAccess(object):
    """one access to `<recv>.<attr>` somewhere in the package"""
    __slots__ = ("fi", "node", "kind", "recv", "attr", "stmt")

    def __init__(self, fi, node, kind, stmt):
        self.fi = fi
        self.node = node
        self.kind = kind          # 'store' | 'aug' | 'load' | 'call' | 'del' | 'substore' | 'subdel' | 'subload'
        self.recv = norm(node.value)
        self.attr = node.attr
        self.stmt = stmt

    def __repr__(self):
        return "<%s %s.%s in %s:%d>" % (self.kind, self.recv, self.attr, self.fi.qual, self.node.lineno)


def attr_accesses(repo, attr, modules=None):
    """every access to an attribute named `attr` in package functions (and class bodies
    are ignored: they do not execute protocol code)."""
    out = []
    for fi in repo.all_functions():
        if modules is not None and fi.module.name not in modules:
            continue
        for n in walk_own(fi.node):
            if isinstance(n, ast.Attribute) and n.attr == attr:
                out.append(AttrAccess(fi, n, _access_kind(n), _stmt_of(n)))
    return out


def _stmt_of(n):
    p = n
    while p is not None and not isinstance(p, ast.stmt):
        p = getattr(p, "_parent", None)
    return p


def _access_kind(n):
    p = getattr(n, "_parent", None)
    if isinstance(n.ctx, ast.Store):
        if isinstance(p, ast.AugAssign) and p.target is n:
            return "aug"
        return "store"
    if isinstance(n.ctx, ast.Del):
        return "del"
    if isinstance(p, ast.Call) and p.func is n:
        return "call"
    if isinstance(p, ast.Subscript) and p.value is n:
        if isinstance(p.ctx, ast.Store):
            pp = getattr(p, "_parent", None)
            return "substore"
        if isinstance(p.ctx, ast.Del):
            return "subdel"
        return "subload"
    return "load"


def method_calls_on_attr(repo, attr, methods=None, modules=None):
    """[(fi, call)] for calls  <recv>.<attr>.<method>(...)  e.g. self.incoming_messages.append(x)"""
    out = []
    for a in attr_accesses(repo, attr, modules):
        p = getattr(a.node, "_parent", None)
        if isinstance(p, ast.Attribute) and p.value is a.node:
            pp = getattr(p, "_parent", None)
            if isinstance(pp, ast.Call) and pp.func is p and (methods is None or p.attr in methods):
                out.append((a.fi, pp))
    return out


def name_uses(fi, name):
    return [n for n in walk_own(fi.node) if isinstance(n, ast.Name) and n.id == name]
