"""Static-analysis engine for /verif (stdlib only).

E0 index.py      module / class / function tables, anchors, digests
E1 fold.py       constant folder and constant programs
E2 cfg.py        per-function control-flow graph, dominators, paths
E3 cond.py       boolean abstraction of branch conditions
E4 cells.py      comparison-partition (interval) analysis
E5 defuse.py     reaching definitions / origin tracking
E6 callgraph.py  call graph with MRO + CHA resolution
E7 names.py      unresolved names, possibly-unbound locals
E8 embedded.py   struct formats and regular-expression fragments
"""
