"""E4 - comparison-partition / interval analysis.

A small path-sensitive interval abstract interpreter over a *structured* function
body.  Tracked quantities are integer intervals; a test that is not definitive on
an interval splits the interval at the test's cut point, so every explored path is
constant on its cell.  Every construct that touches a tracked quantity in a way
the interpreter does not model raises Undecided (exit 2) - never an alarm.

Values:  Iv(lo, hi)   integer interval (inclusive; +-inf allowed)
         Const(v)     a known non-integer python value (str, bytes, None, EnumVal, ...)
         TOP          unknown
"""
import ast

from .index import norm, Undecided
from .fold import UNKNOWN

INF = float("inf")


class Iv(object):
    __slots__ = ("lo", "hi")

    def __init__(self, lo, hi=None):
        if hi is None:
            hi = lo
        self.lo, self.hi = lo, hi

    def is_const(self):
        return self.lo == self.hi

    def __eq__(self, o):
        return isinstance(o, Iv) and (self.lo, self.hi) == (o.lo, o.hi)

    def __hash__(self):
        return hash((self.lo, self.hi))

    def __repr__(self):
        if self.lo == self.hi:
            return "%s" % (self.lo,)
        return "[%s, %s]" % (self.lo, self.hi)

    def within(self, lo, hi):
        return lo <= self.lo and self.hi <= hi


class Const(object):
    __slots__ = ("v",)

    def __init__(self, v):
        self.v = v

    def __repr__(self):
        return "Const(%r)" % (self.v,)

    def __eq__(self, o):
        return isinstance(o, Const) and self.v == o.v

    def __hash__(self):
        return hash(repr(self.v))


class _Top(object):
    def __repr__(self):
        return "TOP"


TOP = _Top()


def lift(v):
    if v is UNKNOWN:
        return TOP
    if isinstance(v, bool):
        return Const(v)
    if isinstance(v, int):
        return Iv(v, v)
    return Const(v)


class Outcome(object):
    def __init__(self, kind, value, env, path, events, line):
        self.kind = kind        # 'return' | 'raise' | 'fall'
        self.value = value      # abstract value returned / exception expression text
        self.env = env
        self.path = path        # [(test text, bool)]
        self.events = events    # [statement text] opaque statements executed on the path
        self.line = line

    def __repr__(self):
        return "<%s %s path=%s events=%s>" % (self.kind, self.value, self.path, self.events)


class Explorer(object):
    """explore(fi, env) -> [Outcome]

    sym: dict expr-text -> abstract value for symbolic constants (e.g. 'self.nbits': Iv(32)).
    call_hook(call_ast, args_abstract, env) -> abstract value or None (unmodelled).
    tracked: names whose unmodelled use makes the run Undecided."""

    def __init__(self, folder, fi, sym=None, call_hook=None, max_paths=512, strict=()):
        self.folder = folder
        self.fi = fi
        self.sym = sym or {}
        self.call_hook = call_hook
        self.max_paths = max_paths
        self.strict = set(strict)
        self.outcomes = []

    # ------------------------------------------------------------------ expressions

    def ev(self, e, env):
        t = norm(e)
        if t in self.sym:
            return self.sym[t]
        if isinstance(e, ast.Name) and e.id in env:
            return env[e.id]
        if isinstance(e, ast.Attribute) and t in env:
            return env[t]
        if isinstance(e, ast.Constant):
            return lift(e.value)
        if isinstance(e, ast.BinOp):
            return self._binop(e.op, self.ev(e.left, env), self.ev(e.right, env), e)
        if isinstance(e, ast.UnaryOp):
            v = self.ev(e.operand, env)
            if isinstance(e.op, ast.USub) and isinstance(v, Iv):
                return Iv(-v.hi, -v.lo)
            if isinstance(e.op, ast.UAdd) and isinstance(v, Iv):
                return v
            if isinstance(e.op, ast.Not):
                return TOP
            return TOP
        if isinstance(e, ast.Call):
            fn = norm(e.func)
            args = [self.ev(a, env) for a in e.args]
            if fn == "abs" and len(args) == 1 and isinstance(args[0], Iv):
                a = args[0]
                if a.lo >= 0:
                    return a
                if a.hi <= 0:
                    return Iv(-a.hi, -a.lo)
                return Iv(0, max(-a.lo, a.hi))
            if fn == "int" and len(args) == 1 and isinstance(args[0], Iv):
                return args[0]
            if fn == "len":
                return Iv(0, INF) if not args or not isinstance(args[0], Const) else lift(len(args[0].v))
            if self.call_hook is not None:
                r = self.call_hook(e, args, env)
                if r is not None:
                    return r
            if any(isinstance(a, Iv) and self._mentions_strict(x) for a, x in zip(args, e.args)):
                raise Undecided("tracked quantity passed to unmodelled call %s" % norm(e))
            return TOP
        if isinstance(e, ast.IfExp):
            # decided when the test is definitive on the cell; otherwise the common value of both arms, else unknown
            outs = self.branch(e.test, env)
            vals = {b for (_e, b, lab) in outs}
            if len(vals) == 1 and all(lab is None for (_e, b, lab) in outs):
                return self.ev(e.body if vals.pop() else e.orelse, env)
            a, b = self.ev(e.body, env), self.ev(e.orelse, env)
            return a if a == b else TOP
        v = self.folder.fold(e, self.fi.module, cls=self.fi.cls)
        return lift(v)

    def _mentions_strict(self, e):
        return any(isinstance(n, ast.Name) and n.id in self.strict for n in ast.walk(e))

    def _binop(self, op, a, b, e):
        if isinstance(a, Iv) and isinstance(b, Iv) and a.is_const() and b.is_const() and INF not in (abs(a.lo), abs(b.lo)):
            import operator as _o
            table = {ast.Add: _o.add, ast.Sub: _o.sub, ast.Mult: _o.mul, ast.RShift: _o.rshift, ast.LShift: _o.lshift,
                     ast.BitAnd: _o.and_, ast.BitOr: _o.or_, ast.BitXor: _o.xor, ast.FloorDiv: _o.floordiv, ast.Mod: _o.mod}
            if type(op) in table:
                try:
                    if type(op) is ast.LShift and b.lo > 4096:
                        return TOP
                    return Iv(table[type(op)](int(a.lo), int(b.lo)))
                except Exception:
                    return TOP
        if isinstance(a, Iv) and isinstance(b, Iv):
            if isinstance(op, ast.Add):
                return Iv(a.lo + b.lo, a.hi + b.hi)
            if isinstance(op, ast.Sub):
                return Iv(a.lo - b.hi, a.hi - b.lo)
            if isinstance(op, ast.Mult):
                c = [x * y for x in (a.lo, a.hi) for y in (b.lo, b.hi) if not (abs(x) == INF and y == 0 or abs(y) == INF and x == 0)]
                return Iv(min(c), max(c)) if c else Iv(0, 0)
            if isinstance(op, (ast.RShift, ast.LShift)) and a.lo >= 0:
                if b.lo < 0:
                    # negative shift count raises ValueError at run time
                    return TOP
                if isinstance(op, ast.RShift):
                    hi_shift = b.hi if b.hi != INF else None
                    lo_v = 0 if hi_shift is None or a.lo == INF else (int(a.lo) >> int(hi_shift))
                    hi_v = a.hi if a.hi == INF else (int(a.hi) >> int(b.lo))
                    return Iv(lo_v, hi_v)
                else:
                    if a.hi == INF or b.hi == INF:
                        return Iv(int(a.lo) << int(b.lo), INF)
                    return Iv(int(a.lo) << int(b.lo), int(a.hi) << int(b.hi))
            if isinstance(op, ast.BitAnd):
                if a == Iv(0, 0) or b == Iv(0, 0):
                    return Iv(0, 0)
                if a.lo >= 0 and b.lo >= 0:
                    return Iv(0, min(a.hi, b.hi))
                return TOP
            if isinstance(op, ast.BitOr) and a.lo >= 0 and b.lo >= 0:
                # x | c with every bit of the constant c above the range of x is x + c  (x | 0 is x)
                for (x, c) in ((a, b), (b, a)):
                    if c.is_const() and c.lo != INF and x.hi != INF:
                        cv = int(c.lo)
                        if cv == 0:
                            return x
                        if int(x.hi) < (cv & -cv):
                            return Iv(x.lo + cv, x.hi + cv)
                return Iv(max(a.lo, b.lo), INF if INF in (a.hi, b.hi) else (1 << max(int(a.hi).bit_length(), int(b.hi).bit_length())) - 1)
            if isinstance(op, ast.FloorDiv) and b.is_const() and b.lo not in (0, INF, -INF) and b.lo > 0:
                return Iv(a.lo // b.lo if abs(a.lo) != INF else a.lo, a.hi // b.lo if abs(a.hi) != INF else a.hi)
            if isinstance(op, ast.Mod):
                if self._mentions_strict(e):
                    raise Undecided("modulo arithmetic on tracked quantity: %s" % norm(e))
                return TOP
            if self._mentions_strict(e):
                raise Undecided("unmodelled arithmetic on tracked quantity: %s" % norm(e))
            return TOP
        if isinstance(op, ast.BitAnd) and (a == Iv(0, 0) or b == Iv(0, 0)):
            return Iv(0, 0)
        if (isinstance(a, Iv) or isinstance(b, Iv)) and self._mentions_strict(e) and (a is not TOP and b is not TOP):
            raise Undecided("unmodelled arithmetic on tracked quantity: %s" % norm(e))
        return TOP

    # ------------------------------------------------------------------ tests

    def branch(self, test, env):
        """-> list of (env', bool, label)  (label None when the outcome is definitive on the cell)"""
        if isinstance(test, ast.BoolOp):
            outs = []
            if isinstance(test.op, ast.And):
                cur = [(env, [])]
                for v in test.values:
                    nxt = []
                    for (e0, labs) in cur:
                        for (e1, b, lab) in self.branch(v, e0):
                            if b:
                                nxt.append((e1, labs + ([lab] if lab else [])))
                            else:
                                outs.append((e1, False, _join(labs + ([lab] if lab else []))))
                    cur = nxt
                for (e0, labs) in cur:
                    outs.append((e0, True, _join(labs)))
                return outs
            else:
                cur = [(env, [])]
                for v in test.values:
                    nxt = []
                    for (e0, labs) in cur:
                        for (e1, b, lab) in self.branch(v, e0):
                            if not b:
                                nxt.append((e1, labs + ([lab] if lab else [])))
                            else:
                                outs.append((e1, True, _join(labs + ([lab] if lab else []))))
                    cur = nxt
                for (e0, labs) in cur:
                    outs.append((e0, False, _join(labs)))
                return outs
        if isinstance(test, ast.UnaryOp) and isinstance(test.op, ast.Not):
            return [(e, not b, lab) for (e, b, lab) in self.branch(test.operand, env)]
        if isinstance(test, ast.Call) and norm(test.func) == "bool" and len(test.args) == 1 and not test.keywords:
            return self.branch(test.args[0], env)
        if isinstance(test, ast.IfExp):
            outs = []
            for (e1, b, lab) in self.branch(test.test, env):
                for (e2, b2, lab2) in self.branch(test.body if b else test.orelse, e1):
                    outs.append((e2, b2, _join([x for x in (lab, lab2) if x])))
            return outs
        if isinstance(test, ast.Compare):
            if len(test.ops) == 2:
                c1 = ast.Compare(left=test.left, ops=[test.ops[0]], comparators=[test.comparators[0]])
                c2 = ast.Compare(left=test.comparators[0], ops=[test.ops[1]], comparators=[test.comparators[1]])
                return self.branch(ast.BoolOp(op=ast.And(), values=[c1, c2]), env)
            if len(test.ops) == 1:
                return self._compare(test, env)
        v = self.ev(test, env)
        if isinstance(v, Iv):
            if v.lo > 0 or v.hi < 0:
                return [(env, True, None)]
            if v == Iv(0, 0):
                return [(env, False, None)]
            key = self._key(test, env)
            outs = []
            if key is not None:
                if v.lo < 0:
                    outs.append((_with(env, key, Iv(v.lo, -1)), True, None))
                outs.append((_with(env, key, Iv(0, 0)), False, None))
                if v.hi > 0:
                    outs.append((_with(env, key, Iv(1, v.hi)), True, None))
                return outs
            return [(env, True, norm(test)), (env, False, "not " + norm(test))]
        if isinstance(v, Const):
            return [(env, bool(v.v), None)]
        return [(env, True, norm(test)), (env, False, "not (%s)" % norm(test))]

    def _key(self, e, env):
        if isinstance(e, ast.Name) and e.id in env:
            return e.id
        t = norm(e)
        if t in env:
            return t
        return None

    def _compare(self, test, env):
        op = test.ops[0]
        L, R = test.left, test.comparators[0]
        a, b = self.ev(L, env), self.ev(R, env)
        if isinstance(a, Iv) and isinstance(b, Iv) and type(op) in _CMPS:
            # definitive?
            res = _definitive(type(op), a, b)
            if res is not None:
                return [(env, res, None)]
            ka, kb = self._key(L, env), self._key(R, env)
            if kb is None and ka is not None and b.is_const():
                return self._split(env, ka, a, type(op), b.lo)
            if ka is None and kb is not None and a.is_const():
                return self._split(env, kb, b, _FLIPT[type(op)], a.lo)
            if ka is not None and kb is None:
                # compare a tracked interval with a non-constant interval: not a cell analysis
                if self._mentions_strict(test):
                    raise Undecided("tracked quantity compared with non-constant %s" % norm(test))
            return [(env, True, norm(test)), (env, False, "not (%s)" % norm(test))]
        if isinstance(a, Const) and isinstance(b, Const) and isinstance(op, (ast.Eq, ast.NotEq, ast.Is, ast.IsNot)):
            eq = a.v == b.v
            return [(env, eq if isinstance(op, (ast.Eq, ast.Is)) else not eq, None)]
        if isinstance(a, Iv) and isinstance(b, Const) or isinstance(a, Const) and isinstance(b, Iv):
            if isinstance(op, (ast.Eq, ast.Is)):
                return [(env, False, None)]
            if isinstance(op, (ast.NotEq, ast.IsNot)):
                return [(env, True, None)]
        if (isinstance(a, Iv) or isinstance(b, Iv)) and self._mentions_strict(test) and TOP not in (a, b):
            raise Undecided("unmodelled comparison on tracked quantity: %s" % norm(test))
        if (isinstance(a, Iv) and self._mentions_strict(L)) or (isinstance(b, Iv) and self._mentions_strict(R)):
            raise Undecided("tracked quantity compared with unknown value: %s" % norm(test))
        return [(env, True, norm(test)), (env, False, "not (%s)" % norm(test))]

    def _split(self, env, key, iv, op, c):
        """split interval iv of env[key] for test  key <op> c"""
        parts = []
        if op is ast.Lt:
            parts = [(Iv(iv.lo, min(iv.hi, c - 1)), True), (Iv(max(iv.lo, c), iv.hi), False)]
        elif op is ast.LtE:
            parts = [(Iv(iv.lo, min(iv.hi, c)), True), (Iv(max(iv.lo, c + 1), iv.hi), False)]
        elif op is ast.Gt:
            parts = [(Iv(max(iv.lo, c + 1), iv.hi), True), (Iv(iv.lo, min(iv.hi, c)), False)]
        elif op is ast.GtE:
            parts = [(Iv(max(iv.lo, c), iv.hi), True), (Iv(iv.lo, min(iv.hi, c - 1)), False)]
        elif op in (ast.Eq, ast.NotEq):
            eq = op is ast.Eq
            parts = [(Iv(iv.lo, c - 1), not eq), (Iv(c, c), eq), (Iv(c + 1, iv.hi), not eq)]
        out = []
        for (p, b) in parts:
            if p.lo <= p.hi:
                out.append((_with(env, key, p), b, None))
        return out

    # ------------------------------------------------------------------ statements

    def explore(self, env):
        self.outcomes = []
        state = (dict(env), [], [])
        finals = self._block(self.fi.body, [state])
        for (e, path, events) in finals:
            self._emit(Outcome("fall", None, e, path, events, 0))
        return self.outcomes

    def _emit(self, o):
        self.outcomes.append(o)
        if len(self.outcomes) > self.max_paths:
            raise Undecided("cell analysis path explosion in %s" % self.fi.qual)

    def _block(self, stmts, states):
        for st in stmts:
            if not states:
                break
            nxt = []
            for s in states:
                nxt += self._stmt(st, s)
            states = nxt
            if len(states) > self.max_paths:
                raise Undecided("cell analysis state explosion in %s" % self.fi.qual)
        return states

    def _stmt(self, st, state):
        env, path, events = state
        if isinstance(st, ast.Expr) and isinstance(st.value, ast.Constant):
            return [state]
        if isinstance(st, ast.Pass):
            return [state]
        if isinstance(st, ast.Return) and st.value is not None and _boolean_shaped(st.value):
            # a boolean expression is returned: one outcome per way it can evaluate (same splitting as an if-test)
            for (e1, b, lab) in self.branch(st.value, env):
                p1 = path + ([(lab, b)] if lab else [])
                self._emit(Outcome("return", Const(b), e1, p1, events + ["return " + norm(st.value)], st.lineno))
            return []
        if isinstance(st, ast.Return):
            v = self.ev(st.value, env) if st.value is not None else Const(None)
            self._emit(Outcome("return", v, env, path, events + ["return " + norm(st.value)], st.lineno))
            return []
        if isinstance(st, (ast.Continue, ast.Break)):
            self._emit(Outcome("continue" if isinstance(st, ast.Continue) else "break", None, env, path, events, st.lineno))
            return []
        if isinstance(st, ast.Raise):
            self._emit(Outcome("raise", norm(st.exc.func) if isinstance(st.exc, ast.Call) else norm(st.exc), env, path, events, st.lineno))
            return []
        if isinstance(st, ast.If):
            out = []
            for (e1, b, lab) in self.branch(st.test, env):
                p1 = path + ([(lab, b)] if lab else [])
                out += self._block(st.body if b else st.orelse, [(e1, p1, events)])
            return out
        if isinstance(st, ast.Assign) and len(st.targets) == 1:
            t = st.targets[0]
            v = self.ev(st.value, env)
            key = t.id if isinstance(t, ast.Name) else norm(t)
            if isinstance(t, (ast.Name, ast.Attribute)):
                e1 = dict(env)
                e1[key] = v
                return [(e1, path, events + [norm(st)] if not isinstance(t, ast.Name) else events + ([norm(st)] if v is TOP else []))]
            return [(env, path, events + [norm(st)])]
        if isinstance(st, ast.AugAssign):
            t = st.target
            key = t.id if isinstance(t, ast.Name) else norm(t)
            cur = env.get(key, TOP) if not (norm(t) in self.sym) else self.sym[norm(t)]
            v = self._binop(st.op, cur, self.ev(st.value, env), st) if cur is not TOP else TOP
            e1 = dict(env)
            e1[key] = v
            ev_txt = norm(st)
            return [(e1, path, events + ([ev_txt] if not isinstance(t, ast.Name) else []))]
        if isinstance(st, (ast.For, ast.While, ast.Try, ast.With)):
            if self._mentions_strict(st):
                raise Undecided("tracked quantity used inside %s at line %d" % (type(st).__name__, st.lineno))
            return [(env, path, events + ["<%s>" % type(st).__name__])]
        if isinstance(st, ast.Expr):
            self.ev(st.value, env)
            return [(env, path, events + [norm(st)])]
        if isinstance(st, ast.Assert):
            return [(env, path, events + [norm(st)])]
        if self._mentions_strict(st):
            raise Undecided("unmodelled statement touching tracked quantity: %s" % norm(st)[:80])
        return [(env, path, events + [norm(st)])]


def _with(env, key, val):
    e = dict(env)
    e[key] = val
    return e


def _join(labs):
    labs = [l for l in labs if l]
    return " and ".join(labs) if labs else None


_CMPS = {ast.Lt, ast.LtE, ast.Gt, ast.GtE, ast.Eq, ast.NotEq}
_FLIPT = {ast.Lt: ast.Gt, ast.LtE: ast.GtE, ast.Gt: ast.Lt, ast.GtE: ast.LtE, ast.Eq: ast.Eq, ast.NotEq: ast.NotEq}


def _definitive(op, a, b):
    if op is ast.Lt:
        if a.hi < b.lo:
            return True
        if a.lo >= b.hi:
            return False
    elif op is ast.LtE:
        if a.hi <= b.lo:
            return True
        if a.lo > b.hi:
            return False
    elif op is ast.Gt:
        if a.lo > b.hi:
            return True
        if a.hi <= b.lo:
            return False
    elif op is ast.GtE:
        if a.lo >= b.hi:
            return True
        if a.hi < b.lo:
            return False
    elif op is ast.Eq:
        if a.is_const() and b.is_const() and a.lo == b.lo:
            return True
        if a.hi < b.lo or a.lo > b.hi:
            return False
    elif op is ast.NotEq:
        if a.is_const() and b.is_const() and a.lo == b.lo:
            return False
        if a.hi < b.lo or a.lo > b.hi:
            return True
    return None


def cut_points(fi, folder, sym=None):
    """all integer constants some comparison in fi compares against (for reporting)"""
    out = set()
    for n in ast.walk(fi.node):
        if isinstance(n, ast.Compare):
            for c in [n.left] + n.comparators:
                t = norm(c)
                if sym and t in sym and isinstance(sym[t], Iv) and sym[t].is_const():
                    out.add(sym[t].lo)
                    continue
                v = folder.fold(c, fi.module, cls=fi.cls)
                if isinstance(v, int) and not isinstance(v, bool):
                    out.add(v)
    return sorted(out)


def _boolean_shaped(e):
    """an expression whose value is a truth value by construction"""
    if isinstance(e, ast.Compare):
        return True
    if isinstance(e, ast.UnaryOp) and isinstance(e.op, ast.Not):
        return True
    if isinstance(e, ast.Call) and isinstance(e.func, ast.Name) and e.func.id == "bool" and len(e.args) == 1:
        return True
    if isinstance(e, ast.BoolOp):
        return all(_boolean_shaped(v) for v in e.values)
    if isinstance(e, ast.IfExp):
        return _boolean_shaped(e.body) and _boolean_shaped(e.orelse)
    if isinstance(e, ast.Constant) and isinstance(e.value, bool):
        return True
    return False
