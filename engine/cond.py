"""E3 - boolean abstraction of branch conditions.

A path condition is a conjunction of literals (test, polarity) collected along
CFG edges (boolean operators are already split by the CFG).  Each literal is
turned into a constraint on a *subject* (normalised expression text):

  value-set constraints    subject in {v1, v2}   /  subject not in {...}
  truthiness               truthy(subject) / falsy(subject)
  opaque atoms             any other test, kept as text with its polarity

Satisfiability of a conjunction is decided exactly for this little theory
(finite value sets + truthiness + opaque atoms as free booleans).
"""
import ast

from .index import norm
from .fold import UNKNOWN, EnumVal


class Lit(object):
    """one literal of a path condition"""

    def __init__(self, kind, subject, values=None, positive=True, text=""):
        self.kind = kind            # 'set' | 'truth' | 'atom' | 'cmp'
        self.subject = subject
        self.values = values        # frozenset for 'set';   (op, const) for 'cmp'
        self.positive = positive
        self.text = text

    def __repr__(self):
        if self.kind == "set":
            return "%s %s {%s}" % (self.subject, "in" if self.positive else "not in",
                                   ", ".join(sorted(map(str, self.values))))
        if self.kind == "truth":
            return "%s(%s)" % ("truthy" if self.positive else "falsy", self.subject)
        if self.kind == "cmp":
            return "%s %s %s" % (self.subject, self.values[0] if self.positive else _NEG[self.values[0]], self.values[1])
        return "%s%s" % ("" if self.positive else "not ", self.subject)


_NEG = {"<": ">=", "<=": ">", ">": "<=", ">=": "<", "==": "!=", "!=": "=="}
_FLIP = {"<": ">", "<=": ">=", ">": "<", ">=": "<=", "==": "==", "!=": "!="}
_OPS = {ast.Lt: "<", ast.LtE: "<=", ast.Gt: ">", ast.GtE: ">=", ast.Eq: "==", ast.NotEq: "!="}


class CondCtx(object):
    """turns (test ast, polarity) into literals; `value_of` folds constants/enum members"""

    def __init__(self, folder, mod, cls=None, aliases=None):
        self.folder = folder
        self.mod = mod
        self.cls = cls
        self.aliases = aliases or {}    # subject text -> canonical subject text

    def _val(self, node):
        v = self.folder.fold(node, self.mod, cls=self.cls)
        if v is UNKNOWN:
            return None
        return v

    def subject(self, node):
        s = norm(node)
        return self.aliases.get(s, s)

    def literal(self, test, polarity):
        """-> list of Lit (conjunction).  Only leaf tests are expected (CFG splits BoolOps)."""
        if isinstance(test, ast.UnaryOp) and isinstance(test.op, ast.Not):
            return self.literal(test.operand, not polarity)
        if isinstance(test, ast.Compare) and len(test.ops) == 1:
            op = test.ops[0]
            left, right = test.left, test.comparators[0]
            # len(x) == 0, len(x) > 0, ... : the truth value of the sized object x
            for (a, b, o) in ((left, right, type(op)), (right, left, {ast.Lt: ast.Gt, ast.LtE: ast.GtE, ast.Gt: ast.Lt, ast.GtE: ast.LtE}.get(type(op), type(op)))):
                if isinstance(a, ast.Call) and isinstance(a.func, ast.Name) and a.func.id == "len" and len(a.args) == 1 and not a.keywords \
                        and isinstance(b, ast.Constant) and type(b.value) is int:
                    empty = None
                    if (o is ast.Eq and b.value == 0) or (o is ast.Lt and b.value == 1) or (o is ast.LtE and b.value == 0):
                        empty = True
                    elif (o is ast.NotEq and b.value == 0) or (o is ast.Gt and b.value == 0) or (o is ast.GtE and b.value == 1):
                        empty = False
                    if empty is not None:
                        return [Lit("truth", self.subject(a.args[0]), None, (not empty) == polarity, norm(test))]
            if isinstance(op, (ast.In, ast.NotIn)) and isinstance(right, (ast.Tuple, ast.List, ast.Set)):
                vals = [self._val(e) for e in right.elts]
                if all(v is not None or _is_none(e) for v, e in zip(vals, right.elts)):
                    pos = isinstance(op, ast.In) == polarity
                    return [Lit("set", self.subject(left), frozenset(map(_key, vals)), pos, norm(test))]
            if isinstance(op, (ast.In, ast.NotIn)):
                # membership in a run-time container: one canonical atom `a in b` for both spellings
                pos = isinstance(op, ast.In) == polarity
                return [Lit("atom", "%s in %s" % (self.subject(left), self.subject(right)), None, pos, norm(test))]
            if isinstance(op, (ast.Eq, ast.NotEq, ast.Is, ast.IsNot)):
                pos = isinstance(op, (ast.Eq, ast.Is)) == polarity
                rv, lv = self._val(right), self._val(left)
                if rv is not None or _is_none(right):
                    if isinstance(rv, (int, float)) and not isinstance(rv, bool) and isinstance(op, (ast.Eq, ast.NotEq)):
                        return [Lit("cmp", self.subject(left), ("==", rv), pos, norm(test))]
                    return [Lit("set", self.subject(left), frozenset([_key(rv)]), pos, norm(test))]
                if lv is not None or _is_none(left):
                    if isinstance(lv, (int, float)) and not isinstance(lv, bool) and isinstance(op, (ast.Eq, ast.NotEq)):
                        return [Lit("cmp", self.subject(right), ("==", lv), pos, norm(test))]
                    return [Lit("set", self.subject(right), frozenset([_key(lv)]), pos, norm(test))]
            if type(op) in _OPS:
                o = _OPS[type(op)]
                rv, lv = self._val(right), self._val(left)
                if isinstance(rv, (int, float)) and not isinstance(rv, bool):
                    return [Lit("cmp", self.subject(left), (o, rv), polarity, norm(test))]
                if isinstance(lv, (int, float)) and not isinstance(lv, bool):
                    return [Lit("cmp", self.subject(right), (_FLIP[o], lv), polarity, norm(test))]
                # symbolic comparison: canonical orientation
                a, b = self.subject(left), self.subject(right)
                if o in (">", ">="):
                    a, b, o = b, a, _FLIP[o]
                return [Lit("atom", "%s %s %s" % (a, o, b), None, polarity, norm(test))]
        if isinstance(test, ast.Compare) and len(test.ops) == 2:
            # a <= x <= b  ==  (a <= x) and (x <= b); only the positive polarity is a conjunction
            if polarity:
                c1 = ast.Compare(left=test.left, ops=[test.ops[0]], comparators=[test.comparators[0]])
                c2 = ast.Compare(left=test.comparators[0], ops=[test.ops[1]], comparators=[test.comparators[1]])
                return self.literal(c1, True) + self.literal(c2, True)
            return [Lit("atom", self.subject(test), None, polarity, norm(test))]
        if isinstance(test, (ast.Name, ast.Attribute, ast.Subscript)):
            return [Lit("truth", self.subject(test), None, polarity, norm(test))]
        if isinstance(test, ast.Constant):
            return [Lit("const", "const", None, bool(test.value) == polarity, norm(test))]
        return [Lit("atom", self.subject(test), None, polarity, norm(test))]

    def literals(self, tests):
        out = []
        for (t, p) in tests:
            out += self.literal(t, p)
        return out


def _is_none(node):
    return isinstance(node, ast.Constant) and node.value is None


def _key(v):
    if isinstance(v, EnumVal):
        return repr(v)
    return repr(v)


FALSY_KEYS = frozenset([repr(None), repr(0), repr(False), repr(b""), repr(""), repr(())])


def satisfiable(lits):
    """exact for the literal theory described in the module docstring"""
    allowed = {}     # subject -> frozenset (must be one of) or absent
    excluded = {}    # subject -> set
    truth = {}       # subject -> bool
    atoms = {}       # text -> bool
    bounds = {}      # subject -> [lo, hi] (inclusive, over ints) and != set
    for l in lits:
        if l.kind == "const":
            if not l.positive:
                return False
        elif l.kind == "set":
            if l.positive:
                if l.subject in allowed:
                    allowed[l.subject] = allowed[l.subject] & l.values
                else:
                    allowed[l.subject] = l.values
            else:
                excluded.setdefault(l.subject, set()).update(l.values)
        elif l.kind == "truth":
            if l.subject in truth and truth[l.subject] != l.positive:
                return False
            truth[l.subject] = l.positive
        elif l.kind == "atom":
            if l.subject in atoms and atoms[l.subject] != l.positive:
                return False
            atoms[l.subject] = l.positive
        elif l.kind == "cmp":
            op, c = l.values
            if not l.positive:
                op = _NEG[op]
            b = bounds.setdefault(l.subject, [float("-inf"), float("inf"), set()])
            if op == "<":
                b[1] = min(b[1], c - 1 if isinstance(c, int) else c)
                if not isinstance(c, int):
                    b[2].add(c)
            elif op == "<=":
                b[1] = min(b[1], c)
            elif op == ">":
                b[0] = max(b[0], c + 1 if isinstance(c, int) else c)
                if not isinstance(c, int):
                    b[2].add(c)
            elif op == ">=":
                b[0] = max(b[0], c)
            elif op == "==":
                b[0] = max(b[0], c)
                b[1] = min(b[1], c)
            elif op == "!=":
                b[2].add(c)
    for s, al in allowed.items():
        rest = al - excluded.get(s, set())
        if s in truth:
            if truth[s]:
                rest = rest - FALSY_KEYS
            else:
                # falsy subject must equal a falsy value (enum members with value 0 are
                # not modelled; the repo's enums used in tests are non-zero except UNKNOWN)
                pass
        if not rest:
            return False
    for s, b in bounds.items():
        lo, hi, ne = b
        if lo > hi:
            return False
        if lo == hi and lo in ne:
            return False
        if s in truth and not truth[s]:
            # falsy integer == 0
            if not (lo <= 0 <= hi) or 0 in ne:
                return False
        if s in truth and truth[s] and lo == hi == 0:
            return False
    return True


def implies(lits, goal_lits_any):
    """path condition (conjunction `lits`) implies the disjunction of the conjunctions in
    goal_lits_any (list of list of Lit)?  Decided by refutation: lits AND NOT(goal) unsat.
    NOT(OR_i AND_j g_ij) = AND_i OR_j not g_ij  -> enumerate choices."""
    import itertools
    if not goal_lits_any:
        return not satisfiable(lits)
    choices = [list(g) for g in goal_lits_any]
    for pick in itertools.product(*choices):
        negs = [negate(g) for g in pick]
        if satisfiable(list(lits) + negs):
            return False
    return True


def negate(l):
    return Lit(l.kind, l.subject, l.values, not l.positive, l.text)
