"""E8 - readers for the little languages embedded in the source: struct format strings
and regular-expression fragments.  Nothing is compiled against data or matched."""
import ast
import re
import struct

try:                                    # Python >= 3.11
    import re._parser as sre_parse
    import re._constants as sre_c
except ImportError:                     # pragma: no cover
    import sre_parse
    import sre_constants as sre_c

from .index import norm, walk_own

# ------------------------------------------------------------------ struct

INT_RANGE = {
    "b": (-2**7, 2**7 - 1), "B": (0, 2**8 - 1), "h": (-2**15, 2**15 - 1), "H": (0, 2**16 - 1),
    "i": (-2**31, 2**31 - 1), "I": (0, 2**32 - 1), "l": (-2**31, 2**31 - 1), "L": (0, 2**32 - 1),
    "q": (-2**63, 2**63 - 1), "Q": (0, 2**64 - 1),
}


def fmt_fields(fmt):
    """'>4sLHH' -> ('>', ['4s','L','H','H']); counts on non-s codes are expanded"""
    order = "@"
    if fmt and fmt[0] in "@=<>!":
        order, fmt = fmt[0], fmt[1:]
    if order == "!":
        order = ">"
    fields = []
    num = ""
    for ch in fmt:
        if ch.isdigit():
            num += ch
        elif ch.isspace():
            continue
        else:
            if ch in "sp":
                fields.append((num or "1") + ch)
            else:
                fields += [ch] * int(num or "1")
            num = ""
    return order, fields


def fmt_size(fmt):
    return struct.calcsize(fmt)


class StructSite(object):
    __slots__ = ("call", "kind", "fmt", "args", "fi", "lineno")

    def __init__(self, fi, call, kind, fmt, args):
        self.fi = fi
        self.call = call
        self.kind = kind
        self.fmt = fmt
        self.args = args
        self.lineno = call.lineno

    def __repr__(self):
        return "<struct.%s %r @%s:%d>" % (self.kind, self.fmt, self.fi.qual, self.lineno)


def struct_sites(fi, folder=None):
    """struct.pack / unpack / calcsize calls with a literal (or foldable) format"""
    out = []
    for n in walk_own(fi.node):
        if isinstance(n, ast.Call) and norm(n.func) in ("struct.pack", "struct.unpack", "struct.calcsize",
                                                         "struct.unpack_from", "struct.pack_into"):
            kind = norm(n.func).split(".")[1]
            fmt = None
            if n.args:
                a0 = n.args[0]
                if isinstance(a0, ast.Constant) and isinstance(a0.value, str):
                    fmt = a0.value
                elif folder is not None:
                    v = folder.fold(a0, fi.module, cls=fi.cls)
                    if isinstance(v, str):
                        fmt = v
            out.append(StructSite(fi, n, kind, fmt, n.args[1:]))
    return out


# ------------------------------------------------------------------ regex

ANY = "<any>"


def parse_regex(text):
    return sre_parse.parse(text)


def _items(sub):
    return list(sub)


def first_chars(sub, universe):
    """(set of characters from `universe` that can begin a non-empty match, can_match_empty)"""
    first = set()
    for op, av in _items(sub):
        f, empty = _first_item(op, av, universe)
        first |= f
        if not empty:
            return first, False
    return first, True


def _class_chars(items, universe):
    neg = False
    chars = set()
    for op, av in items:
        if op is sre_c.NEGATE:
            neg = True
        elif op is sre_c.LITERAL:
            chars.add(chr(av))
        elif op is sre_c.RANGE:
            lo, hi = av
            chars |= {c for c in universe if lo <= ord(c) <= hi}
        elif op is sre_c.CATEGORY:
            chars |= {c for c in universe if _cat(av, c)}
        else:
            raise ValueError("unsupported class item %r" % (op,))
    if neg:
        return {c for c in universe if c not in chars}
    return {c for c in universe if c in chars}


def _cat(cat, c):
    name = str(cat)
    pats = {"CATEGORY_DIGIT": r"\d", "CATEGORY_NOT_DIGIT": r"\D", "CATEGORY_SPACE": r"\s",
            "CATEGORY_NOT_SPACE": r"\S", "CATEGORY_WORD": r"\w", "CATEGORY_NOT_WORD": r"\W"}
    return re.fullmatch(pats[name], c) is not None


def _first_item(op, av, universe):
    if op is sre_c.LITERAL:
        return ({chr(av)} & set(universe) or {chr(av)}), False
    if op is sre_c.NOT_LITERAL:
        return {c for c in universe if c != chr(av)}, False
    if op is sre_c.ANY:
        return {c for c in universe if c != "\n"}, False
    if op is sre_c.IN:
        return _class_chars(av, universe), False
    if op is sre_c.AT:
        return set(), True
    if op is sre_c.SUBPATTERN:
        return first_chars(av[3], universe)
    if op is sre_c.BRANCH:
        first, empty = set(), False
        for alt in av[1]:
            f, e = first_chars(alt, universe)
            first |= f
            empty = empty or e
        return first, empty
    if op in (sre_c.MAX_REPEAT, sre_c.MIN_REPEAT) or str(op) == "POSSESSIVE_REPEAT":
        lo, hi, body = av
        f, e = first_chars(body, universe)
        return f, e or lo == 0
    if op is sre_c.ATOMIC_GROUP if hasattr(sre_c, "ATOMIC_GROUP") else False:
        return first_chars(av, universe)
    raise ValueError("unsupported regex op %r" % (op,))


def count_groups(sub):
    n = 0
    for op, av in _items(sub):
        if op is sre_c.SUBPATTERN:
            if av[0] is not None:
                n += 1
            n += count_groups(av[3])
        elif op is sre_c.BRANCH:
            for alt in av[1]:
                n += count_groups(alt)
        elif op in (sre_c.MAX_REPEAT, sre_c.MIN_REPEAT):
            n += count_groups(av[2])
    return n


def capture_bodies(sub):
    """list of sub-patterns that are capturing groups (outer to inner)"""
    out = []
    for op, av in _items(sub):
        if op is sre_c.SUBPATTERN:
            if av[0] is not None:
                out.append(av[3])
            out += capture_bodies(av[3])
        elif op is sre_c.BRANCH:
            for alt in av[1]:
                out += capture_bodies(alt)
        elif op in (sre_c.MAX_REPEAT, sre_c.MIN_REPEAT):
            out += capture_bodies(av[2])
    return out


def can_contain(sub, ch, universe):
    """can a match of `sub` contain character ch anywhere?"""
    for op, av in _items(sub):
        if op is sre_c.LITERAL:
            if chr(av) == ch:
                return True
        elif op is sre_c.NOT_LITERAL:
            if chr(av) != ch:
                return True
        elif op is sre_c.ANY:
            if ch != "\n":
                return True
        elif op is sre_c.IN:
            if ch in _class_chars(av, set(universe) | {ch}):
                return True
        elif op is sre_c.SUBPATTERN:
            if can_contain(av[3], ch, universe):
                return True
        elif op is sre_c.BRANCH:
            if any(can_contain(alt, ch, universe) for alt in av[1]):
                return True
        elif op in (sre_c.MAX_REPEAT, sre_c.MIN_REPEAT):
            if av[1] != 0 and can_contain(av[2], ch, universe):
                return True
        elif op is sre_c.AT:
            continue
        else:
            raise ValueError("unsupported regex op %r" % (op,))
    return False


def min_max_len(sub):
    w = sub.getwidth()
    return int(w[0]), int(w[1])


def anchors(sub):
    """(starts_with_^, ends_with_$)"""
    items = _items(sub)
    s = bool(items) and items[0][0] is sre_c.AT and items[0][1] in (sre_c.AT_BEGINNING, sre_c.AT_BEGINNING_STRING)
    e = bool(items) and items[-1][0] is sre_c.AT and items[-1][1] in (sre_c.AT_END, sre_c.AT_END_STRING)
    return s, e
